module verif/harness

go 1.20

require zombiezen.com/go/commonmark v0.0.0

require (
	go4.org v0.0.0-20230225012048-214862532bf5 // indirect
	golang.org/x/net v0.8.0 // indirect
	golang.org/x/text v0.9.0 // indirect
)

replace zombiezen.com/go/commonmark => /repo
