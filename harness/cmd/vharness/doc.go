package main

import (
	"bufio"
	"bytes"
	"fmt"
	"os"
	"strings"

	"zombiezen.com/go/commonmark"
	"zombiezen.com/go/commonmark/format"
)

// Direction A for Doc.tla.
//   doc c06 <tlc outputs...>   parse md, render every root block, compare with the denoted HTML (C06)
//   doc c20 <tlc outputs...>   Format the parsed document: same rendering after re-parsing, and a fixpoint (C20, second clause)
//   doc --replay <file>

func init() { register("doc", cmdDoc) }

type docRec struct {
	MD   string         `json:"md"`
	HTML []string       `json:"html"`
	Ch   map[string]any `json:"ch"`
	Fmt  string         `json:"fmt"` // Doc.tla's formatter program: the exact text Format must produce (FmtMode only)
}

func renderRoots(src []byte) ([]string, string) {
	pm := ""
	var out []string
	func() {
		defer func() {
			if x := recover(); x != nil {
				pm = fmt.Sprint(x)
			}
		}()
		blocks, refs := commonmark.Parse(append([]byte(nil), src...))
		r := &commonmark.HTMLRenderer{ReferenceMap: refs}
		for _, b := range blocks {
			out = append(out, string(r.AppendBlock(nil, b)))
		}
	}()
	return out, pm
}

func docClass(r *docRec) string {
	// the choice that differs from the default, if any (for the by-class summary)
	def := map[string]any{"bullet": "-", "odelim": ".", "ostart": 1.0, "pad": 1.0, "fch": "`", "flen": 4.0, "lead": 0.0, "qlead": 0.0, "llead": 0.0,
		"lazy": false, "atxclose": false, "setextlen": 3.0, "hr": "***", "tab": false, "blank2": false, "eol": "\n", "final": true}
	var diff []string
	for k, v := range def {
		if fmt.Sprint(r.Ch[k]) != fmt.Sprint(v) {
			diff = append(diff, k)
		}
	}
	if len(diff) == 0 {
		return "doc:default-choices"
	}
	sortStrings(diff)
	return "doc:" + strings.Join(diff, "+")
}

func docCheckC06(res *Result, r *docRec) {
	res.Evaluations++
	src := []byte(r.MD)
	got, pm := renderRoots(src)
	rec := map[string]any{"kind": "doc-c06", "rec": r}
	if strings.Count(r.MD, "\n") >= 3 {
		res.nontrivialKey(r.MD)
		if len(r.HTML) >= 2 && len(r.MD) < 70 && strings.Contains(r.MD, "> ") {
			res.sample(map[string]any{"md": r.MD, "html": r.HTML})
		}
	}
	if pm != "" {
		res.addCandidate(Candidate{Sig: map[string]any{"input": ints(src), "class": "panic"}, Record: rec, What: fmt.Sprintf("%q: panic %s", src, pm)})
		return
	}
	if fmt.Sprintf("%q", got) != fmt.Sprintf("%q", r.HTML) {
		res.addCandidate(Candidate{Sig: map[string]any{"input": ints(src), "class": docClass(r)}, Record: rec,
			What: fmt.Sprintf("%q\n      denotes %q\n      renders %q", src, r.HTML, got)})
	}
}

func formatDoc(src []byte) (out []byte, pm string) {
	defer func() {
		if x := recover(); x != nil {
			pm = fmt.Sprint(x)
		}
	}()
	blocks, _ := commonmark.Parse(append([]byte(nil), src...))
	var buf bytes.Buffer
	if err := format.Format(&buf, blocks); err != nil {
		return nil, "format error: " + err.Error()
	}
	return buf.Bytes(), ""
}

func docCheckC20(res *Result, r *docRec) {
	res.Evaluations++
	src := []byte(r.MD)
	rec := map[string]any{"kind": "doc-c20", "rec": r}
	fail := func(class, format string, a ...any) {
		res.addCandidate(Candidate{Sig: map[string]any{"input": ints(src), "class": class}, Record: rec, What: fmt.Sprintf("%q: ", src) + fmt.Sprintf(format, a...)})
	}
	want, pm := renderRoots(src)
	if pm != "" {
		fail("panic", "panic %s", pm)
		return
	}
	y, pm := formatDoc(src)
	if pm != "" {
		fail("panic", "%s", pm)
		return
	}
	got, pm := renderRoots(y)
	if pm != "" {
		fail("panic", "panic re-parsing formatted text %q: %s", y, pm)
		return
	}
	res.nontrivialKey(r.MD)
	if len(r.MD) < 60 && strings.Count(r.MD, "\n") >= 3 {
		res.sample(map[string]any{"md": r.MD, "formatted": string(y)})
	}
	// reference definitions render empty; compare the non-empty renderings in order
	if fmt.Sprintf("%q", nonEmpty(got)) != fmt.Sprintf("%q", nonEmpty(want)) {
		fail("format:meaning", "formatted text %q\n      renders %q\n      original renders %q", y, nonEmpty(got), nonEmpty(want))
		return
	}
	// the formatter's style as Doc.tla models it (FmtText): the property does not fix the style, so a difference that keeps the
	// meaning is model drift, not a verdict
	if r.Fmt != "" {
		if string(y) == r.Fmt {
			res.Extra["format_output_equals_model"] = asInt(res.Extra["format_output_equals_model"]) + 1
		} else {
			res.Extra["format_output_differs_from_model"] = asInt(res.Extra["format_output_differs_from_model"]) + 1
			if len(res.Drift) < 4 {
				res.Drift = append(res.Drift, fmt.Sprintf("format style: %q is formatted as %q, Doc.tla's formatter program gives %q (same meaning)", src, y, r.Fmt))
			}
		}
	}
	z, pm := formatDoc(y)
	if pm != "" {
		fail("panic", "%s", pm)
		return
	}
	if !bytes.Equal(z, y) {
		fail("format:fixpoint", "formatting is not a fixpoint: %q then %q", y, z)
	}
}

func asInt(v any) int {
	switch x := v.(type) {
	case int:
		return x
	case float64:
		return int(x)
	}
	return 0
}

// The meaning clause as a theorem of the two models (no code involved): Full.tla's Model, evaluated by TLC (FullTrace.tla) on the
// text Doc.tla's formatter program produces and on the canonical serialization itself, must give the HTML Doc.tla denotes.
//
//	doc fmtgen <out.ndjson> <tlc outputs...>    records {id, src} for FullTrace.tla: odd ids = FmtText, even ids = Markdown
//	doc fmtcheck <fulltrace output> <tlc outputs...>
func docFmtRecords(paths []string, f func(id int, r *docRec)) {
	id := 0
	for _, p := range paths {
		forEachTLCRecord(p, func(raw []byte) {
			var r docRec
			mustUnmarshal(raw, &r)
			id++
			f(id, &r)
		})
	}
}

func cmdDocFmt(args []string) *Result {
	res := newResult()
	switch args[0] {
	case "fmtgen":
		out, err := os.Create(args[1])
		if err != nil {
			die("%v", err)
		}
		defer out.Close()
		w := bufio.NewWriter(out)
		defer w.Flush()
		n := 0
		docFmtRecords(args[2:], func(id int, r *docRec) {
			if r.Fmt != "" {
				fmt.Fprintf(w, "{\"id\":%d,\"src\":%s}\n", 2*id+1, jsonString(ints([]byte(r.Fmt))))
				n++
			}
			fmt.Fprintf(w, "{\"id\":%d,\"src\":%s}\n", 2*id, jsonString(ints([]byte(r.MD))))
			n++
		})
		res.Extra["records"] = n
	case "fmtcheck":
		want := map[int][]string{}
		src := map[int]string{}
		docFmtRecords(args[2:], func(id int, r *docRec) {
			if r.Fmt != "" {
				want[2*id+1] = nonEmpty(r.HTML)
				src[2*id+1] = r.Fmt
			}
			want[2*id] = nonEmpty(r.HTML)
			src[2*id] = r.MD
		})
		agree := 0
		var differ []string
		forEachTLCRecord(args[1], func(raw []byte) {
			var r struct {
				ID   int     `json:"id"`
				HTML [][]int `json:"html"`
			}
			mustUnmarshal(raw, &r)
			var got []string
			for _, h := range r.HTML {
				if len(h) > 0 {
					got = append(got, normEdge(string(bytesOf(h))))
				}
			}
			var w []string
			for _, h := range want[r.ID] {
				w = append(w, normEdge(h))
			}
			res.Evaluations++
			if fmt.Sprintf("%q", got) == fmt.Sprintf("%q", w) {
				agree++
			} else if len(differ) < 6 {
				kind := "canonical serialization"
				if r.ID%2 == 1 {
					kind = "formatter program output"
				}
				differ = append(differ, fmt.Sprintf("%s %q: Full.tla gives %q, Doc.tla denotes %q", kind, src[r.ID], got, w))
			}
		})
		res.Extra["model_theorem_agree"] = agree
		res.Extra["model_theorem_differ"] = differ
		res.Extra["model_theorem_expected"] = len(want)
	}
	return res
}

func nonEmpty(xs []string) []string {
	out := []string{}
	for _, x := range xs {
		if x != "" {
			out = append(out, x)
		}
	}
	return out
}

func cmdDoc(args []string) *Result {
	res := newResult()
	if len(args) == 2 && args[0] == "--replay" {
		rec := readReplay(args[1])
		var r docRec
		mustUnmarshal([]byte(jsonString(rec["rec"])), &r)
		if rec["kind"] == "doc-c20" {
			docCheckC20(res, &r)
		} else {
			docCheckC06(res, &r)
		}
		return res
	}
	if len(args) >= 3 && (args[0] == "fmtgen" || args[0] == "fmtcheck") {
		return cmdDocFmt(args)
	}
	if len(args) < 2 {
		die("usage: doc c06|c20 <tlc outputs...>")
	}
	res = parallelTLCRecords(args[1:], func(res *Result, raw []byte) {
		var r docRec
		mustUnmarshal(raw, &r)
		if args[0] == "c20" {
			docCheckC20(res, &r)
		} else {
			docCheckC06(res, &r)
		}
	})
	res.Traces = res.Evaluations
	return res
}
