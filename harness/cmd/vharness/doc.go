package main

import (
	"bytes"
	"fmt"
	"strings"

	"zombiezen.com/go/commonmark"
	"zombiezen.com/go/commonmark/format"
)

// Direction A for Doc.tla.
//   doc c06 <tlc outputs...>   parse md, render every root block, compare with the denoted HTML (C06)
//   doc c20 <tlc outputs...>   Format the parsed document: same rendering after re-parsing, and a fixpoint (C20, second clause)
//   doc --replay <file>

func init() { register("doc", cmdDoc) }

type docRec struct {
	MD   string         `json:"md"`
	HTML []string       `json:"html"`
	Ch   map[string]any `json:"ch"`
}

func renderRoots(src []byte) ([]string, string) {
	pm := ""
	var out []string
	func() {
		defer func() {
			if x := recover(); x != nil {
				pm = fmt.Sprint(x)
			}
		}()
		blocks, refs := commonmark.Parse(append([]byte(nil), src...))
		r := &commonmark.HTMLRenderer{ReferenceMap: refs}
		for _, b := range blocks {
			out = append(out, string(r.AppendBlock(nil, b)))
		}
	}()
	return out, pm
}

func docClass(r *docRec) string {
	// the choice that differs from the default, if any (for the by-class summary)
	def := map[string]any{"bullet": "-", "odelim": ".", "ostart": 1.0, "pad": 1.0, "fch": "`", "flen": 4.0, "lead": 0.0, "qlead": 0.0, "llead": 0.0,
		"lazy": false, "atxclose": false, "setextlen": 3.0, "hr": "***", "tab": false, "blank2": false, "eol": "\n", "final": true}
	var diff []string
	for k, v := range def {
		if fmt.Sprint(r.Ch[k]) != fmt.Sprint(v) {
			diff = append(diff, k)
		}
	}
	if len(diff) == 0 {
		return "doc:default-choices"
	}
	sortStrings(diff)
	return "doc:" + strings.Join(diff, "+")
}

func docCheckC06(res *Result, r *docRec) {
	res.Evaluations++
	src := []byte(r.MD)
	got, pm := renderRoots(src)
	rec := map[string]any{"kind": "doc-c06", "rec": r}
	if strings.Count(r.MD, "\n") >= 3 {
		res.nontrivialKey(r.MD)
		if len(r.HTML) >= 2 && len(r.MD) < 70 && strings.Contains(r.MD, "> ") {
			res.sample(map[string]any{"md": r.MD, "html": r.HTML})
		}
	}
	if pm != "" {
		res.addCandidate(Candidate{Sig: map[string]any{"input": ints(src), "class": "panic"}, Record: rec, What: fmt.Sprintf("%q: panic %s", src, pm)})
		return
	}
	if fmt.Sprintf("%q", got) != fmt.Sprintf("%q", r.HTML) {
		res.addCandidate(Candidate{Sig: map[string]any{"input": ints(src), "class": docClass(r)}, Record: rec,
			What: fmt.Sprintf("%q\n      denotes %q\n      renders %q", src, r.HTML, got)})
	}
}

func formatDoc(src []byte) (out []byte, pm string) {
	defer func() {
		if x := recover(); x != nil {
			pm = fmt.Sprint(x)
		}
	}()
	blocks, _ := commonmark.Parse(append([]byte(nil), src...))
	var buf bytes.Buffer
	if err := format.Format(&buf, blocks); err != nil {
		return nil, "format error: " + err.Error()
	}
	return buf.Bytes(), ""
}

func docCheckC20(res *Result, r *docRec) {
	res.Evaluations++
	src := []byte(r.MD)
	rec := map[string]any{"kind": "doc-c20", "rec": r}
	fail := func(class, format string, a ...any) {
		res.addCandidate(Candidate{Sig: map[string]any{"input": ints(src), "class": class}, Record: rec, What: fmt.Sprintf("%q: ", src) + fmt.Sprintf(format, a...)})
	}
	want, pm := renderRoots(src)
	if pm != "" {
		fail("panic", "panic %s", pm)
		return
	}
	y, pm := formatDoc(src)
	if pm != "" {
		fail("panic", "%s", pm)
		return
	}
	got, pm := renderRoots(y)
	if pm != "" {
		fail("panic", "panic re-parsing formatted text %q: %s", y, pm)
		return
	}
	res.nontrivialKey(r.MD)
	if len(r.MD) < 60 && strings.Count(r.MD, "\n") >= 3 {
		res.sample(map[string]any{"md": r.MD, "formatted": string(y)})
	}
	// reference definitions render empty; compare the non-empty renderings in order
	if fmt.Sprintf("%q", nonEmpty(got)) != fmt.Sprintf("%q", nonEmpty(want)) {
		fail("format:meaning", "formatted text %q\n      renders %q\n      original renders %q", y, nonEmpty(got), nonEmpty(want))
		return
	}
	z, pm := formatDoc(y)
	if pm != "" {
		fail("panic", "%s", pm)
		return
	}
	if !bytes.Equal(z, y) {
		fail("format:fixpoint", "formatting is not a fixpoint: %q then %q", y, z)
	}
}

func nonEmpty(xs []string) []string {
	out := []string{}
	for _, x := range xs {
		if x != "" {
			out = append(out, x)
		}
	}
	return out
}

func cmdDoc(args []string) *Result {
	res := newResult()
	if len(args) == 2 && args[0] == "--replay" {
		rec := readReplay(args[1])
		var r docRec
		mustUnmarshal([]byte(jsonString(rec["rec"])), &r)
		if rec["kind"] == "doc-c20" {
			docCheckC20(res, &r)
		} else {
			docCheckC06(res, &r)
		}
		return res
	}
	if len(args) < 2 {
		die("usage: doc c06|c20 <tlc outputs...>")
	}
	res = parallelTLCRecords(args[1:], func(res *Result, raw []byte) {
		var r docRec
		mustUnmarshal(raw, &r)
		if args[0] == "c20" {
			docCheckC20(res, &r)
		} else {
			docCheckC06(res, &r)
		}
	})
	res.Traces = res.Evaluations
	return res
}
