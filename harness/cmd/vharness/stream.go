package main

import (
	"bytes"
	"errors"
	"fmt"
	"io"
	"os"
	"runtime"
	"strings"
	"time"
	"unsafe"

	"zombiezen.com/go/commonmark"
)

// C01 / C08: drive both entry points, record executions as ndjson traces for StreamTrace.tla.
//
//   stream c01 <out.ndjson>                      explore inputs, one C01 trace per (input, entry point)
//   stream c08 <out.ndjson> [tlc-output ...]     replay TLC schedules + own schedules, one C08 trace each
//   stream --replay <file>

func init() { register("stream", cmdStream) }

// ---------------------------------------------------------------- scripted reader

type schedReader struct {
	data    []byte   // the bytes that will be delivered (input[:cutoff])
	sched   [][2]int // (k, fin)
	failErr error    // error reported with fin; nil means io.EOF
	j, pos  int
	carry   int
	reads   [][3]int // requested, delivered, flag (0 none, 1 EOF, 2 error)
	after   int      // reads issued after the terminal condition was reported
}

var errLate = errors.New("late different error")

func (r *schedReader) Read(p []byte) (int, error) {
	if r.j >= len(r.sched) {
		// The terminal condition was already reported: an adversarial reader now hands out
		// more data; a correct parser never asks again.
		r.after++
		n := copy(p, "zz\n\n# late\n")
		r.reads = append(r.reads, [3]int{len(p), n, 0})
		return n, nil
	}
	k, fin := r.sched[r.j][0], r.sched[r.j][1] == 1
	if r.carry > 0 {
		k = r.carry // rest of a chunk that did not fit the previous request
	}
	r.carry = 0
	n := k
	if n > len(p) {
		r.carry = n - len(p)
		n = len(p)
	}
	if r.pos+n > len(r.data) {
		n = len(r.data) - r.pos
		r.carry = 0
	}
	copy(p, r.data[r.pos:r.pos+n])
	r.pos += n
	if r.carry > 0 {
		r.reads = append(r.reads, [3]int{len(p), n, 0})
		return n, nil
	}
	r.j++
	if fin {
		if r.failErr != nil {
			r.reads = append(r.reads, [3]int{len(p), n, 2})
			return n, r.failErr
		}
		r.reads = append(r.reads, [3]int{len(p), n, 1})
		return n, io.EOF
	}
	r.reads = append(r.reads, [3]int{len(p), n, 0})
	return n, nil
}

// ---------------------------------------------------------------- interning of dumps

type interner struct{ ids map[string]int }

func (in *interner) id(s string) int {
	if in.ids == nil {
		in.ids = map[string]int{}
	}
	if v, ok := in.ids[s]; ok {
		return v
	}
	v := len(in.ids) + 1
	in.ids[s] = v
	return v
}

// ---------------------------------------------------------------- C08 execution

type c08Trace struct {
	ID    int     `json:"id"`
	Cut   int     `json:"cut"`
	Fail  int     `json:"fail"`  // 1 = reader fails at cut, 0 = EOF
	Exp   []int   `json:"exp"`   // interned canonical dumps of Parse(input[:cut]) root blocks (fully parsed)
	ExpR  int     `json:"expr"`  // interned dump of the expected reference map
	Evs   [][]int `json:"evs"`   // [1, req, n, flag] read; [2, dumpId] block returned (block-level dump); [3, errId] error returned
	Fin   []int   `json:"fin"`   // interned dumps of the streamed blocks after Extract + Rewrite
	FinR  int     `json:"finr"`  // interned dump of the streamed reference map
	ExpB  []int   `json:"expb"`  // interned block-level dumps expected for the [2,..] events (streaming parse of prefix with a one-shot reader)
	After int     `json:"after"` // reads issued after the latch
	Lim   int     `json:"lim"`   // 1 = the model (Stream.tla with a small MaxBuf) expects "block too large": exp/expb are those of input[:upto]
	ELine int     `json:"eline"` // ... and this line number in the error
}

type c08Case struct {
	Input []byte
	Cut   int
	Fail  bool
	Sched [][2]int
	// size limit (hook SetVerifLimits): Max > 0 runs the scheduled parse with chunkSize = Chunk and maxBlockSize = Max;
	// Upto >= 0 means the model expects the parser to drop the line that starts at Upto and to report it as too large
	Chunk, Max  int
	Upto, ELine int
	// Partner != nil: between any two NextBlock calls of the parser under test, OTHER parsers work in the same goroutine - a second
	// BlockParser over Partner takes one step, and every third step Partner is parsed in memory and rendered. Sequential, interleaved use
	// of independent parser values: the observations of the parser under test must be those of its solo run.
	Partner []byte
}

// errId: 0 nil, 1 io.EOF, 2 the injected failure (same value), 3 anything else
func errID(err, injected error) int {
	switch {
	case err == nil:
		return 0
	case err == io.EOF:
		return 1
	case injected != nil && err == injected:
		return 2
	default:
		var line int
		if n, _ := fmt.Sscanf(err.Error(), "line %d: block too large", &line); n == 1 && strings.HasSuffix(err.Error(), ": block too large") {
			return 4
		}
		return 3
	}
}

func tooLargeLine(err error) int {
	var line int
	if err != nil {
		fmt.Sscanf(err.Error(), "line %d: block too large", &line)
	}
	return line
}

func runC08(c *c08Case, in *interner) (t *c08Trace, panicMsg string) {
	defer func() {
		if r := recover(); r != nil {
			panicMsg = fmt.Sprint(r)
		}
	}()
	prefix := c.Input[:c.Cut]
	delivered := prefix
	t = &c08Trace{Cut: c.Cut, Exp: []int{}, Evs: [][]int{}, Fin: []int{}, ExpB: []int{}}
	if c.Max > 0 && c.Upto >= 0 {
		t.Lim, t.ELine = 1, c.ELine
		prefix = c.Input[:c.Upto]
	}
	var injected error
	if c.Fail {
		t.Fail = 1
		injected = fmt.Errorf("injected failure after %d bytes", c.Cut)
	}
	// expectation: in-memory parse of the delivered prefix (on a private copy)
	wantBlocks, wantRefs := commonmark.Parse(append([]byte(nil), prefix...))
	for _, b := range wantBlocks {
		t.Exp = append(t.Exp, in.id(dumpRoot(b)))
	}
	t.ExpR = in.id(dumpRefMap(wantRefs))
	// block-level expectation (before inline parsing): one-shot streaming parse of the prefix
	{
		p := commonmark.NewBlockParser(bytes.NewReader(append([]byte(nil), prefix...)))
		for {
			b, err := p.NextBlock()
			if err != nil {
				break
			}
			t.ExpB = append(t.ExpB, in.id(dumpRoot(b)))
		}
	}
	rd := &schedReader{data: delivered, sched: c.Sched, failErr: injected}
	if c.Max > 0 {
		commonmark.SetVerifLimits(c.Chunk, c.Max)
		defer commonmark.SetVerifLimits(0, 0)
	}
	p := commonmark.NewBlockParser(rd)
	var blocks []*commonmark.RootBlock
	refs := make(commonmark.ReferenceMap)
	extra := 0
	logged := 0
	flush := func() {
		for ; logged < len(rd.reads); logged++ {
			r := rd.reads[logged]
			t.Evs = append(t.Evs, []int{1, r[0], r[1], r[2]})
		}
	}
	var q *commonmark.BlockParser
	for steps := 0; steps < 100000; steps++ {
		if c.Partner != nil {
			if q == nil {
				q = commonmark.NewBlockParser(bytes.NewReader(c.Partner))
			}
			if _, qerr := q.NextBlock(); qerr != nil {
				q = nil
			}
			if steps%3 == 1 {
				pb, prefs := commonmark.Parse(c.Partner)
				(&commonmark.HTMLRenderer{ReferenceMap: prefs}).Render(io.Discard, pb)
			}
		}
		b, err := p.NextBlock()
		flush()
		if err != nil {
			t.Evs = append(t.Evs, []int{3, errID(err, injected), tooLargeLine(err)})
			extra++
			if extra > 3 {
				break
			}
			continue
		}
		t.Evs = append(t.Evs, []int{2, in.id(dumpRoot(b))})
		blocks = append(blocks, b)
		refs.Extract(b.Source, b.AsNode())
	}
	ip := &commonmark.InlineParser{ReferenceMatcher: refs}
	for _, b := range blocks {
		ip.Rewrite(b)
		t.Fin = append(t.Fin, in.id(dumpRoot(b)))
	}
	t.FinR = in.id(dumpRefMap(refs))
	t.After = rd.after
	return t, ""
}

// runC08Guarded runs a case whose parser may be disturbed into never returning (Partner != nil) under a watchdog.
func runC08Guarded(c *c08Case, in *interner) (t *c08Trace, pm string, hung bool) {
	if c.Partner == nil {
		t, pm = runC08(c, in)
		return t, pm, false
	}
	type out struct {
		t  *c08Trace
		pm string
	}
	ch := make(chan out, 1)
	priv := &interner{}
	go func() { t, pm := runC08(c, priv); ch <- out{t, pm} }()
	select {
	case o := <-ch:
		if o.pm == "" && c08OK(o.t) == "" {
			// the dumps were interned privately (the goroutine might have outlived this call): re-run with the shared interner
			t, pm = runC08(c, in)
			return t, pm, false
		}
		return o.t, o.pm, false
	case <-time.After(20 * time.Second):
		return nil, "", true
	}
}

// c08OK is the harness-side pre-check used only to pick replay candidates and samples; the verdict
// on the recorded trace is TLC's (StreamTrace.tla).
func c08OK(t *c08Trace) string {
	var bs []int
	seenErr := false
	nerr := 0
	for _, e := range t.Evs {
		switch e[0] {
		case 2:
			if seenErr {
				return "block returned after an error"
			}
			bs = append(bs, e[1])
		case 3:
			seenErr = true
			nerr++
			want := 1
			if t.Fail == 1 {
				want = 2
			}
			if t.Lim == 1 {
				want = 4
			}
			if e[1] != want {
				return fmt.Sprintf("error id %d, want %d", e[1], want)
			}
			if t.Lim == 1 && e[2] != t.ELine {
				return fmt.Sprintf("block too large reported for line %d, want line %d", e[2], t.ELine)
			}
		}
	}
	if fmt.Sprint(bs) != fmt.Sprint(t.ExpB) {
		return "returned blocks differ from the blocks of the delivered prefix"
	}
	if fmt.Sprint(t.Fin) != fmt.Sprint(t.Exp) {
		return "streamed + Extract + Rewrite trees differ from Parse(prefix)"
	}
	if t.FinR != t.ExpR {
		return "reference map differs"
	}
	if nerr != 4 {
		return "error not persistent"
	}
	return ""
}

// compositions enumerates every way to cut n bytes into reads of size 1..maxChunk.
func compositions(n, maxChunk int, f func([]int)) {
	var cur []int
	var rec func(rem int)
	rec = func(rem int) {
		if rem == 0 {
			f(cur)
			return
		}
		for k := 1; k <= maxChunk && k <= rem; k++ {
			cur = append(cur, k)
			rec(rem - k)
			cur = cur[:len(cur)-1]
		}
	}
	rec(n)
}

// schedFromChunks turns chunk sizes into a schedule; variant selects EOF-with-data / separate EOF / empty reads.
func schedFromChunks(chunks []int, variant int) [][2]int {
	var s [][2]int
	for i, k := range chunks {
		last := i == len(chunks)-1
		if variant&2 != 0 && i%2 == 1 {
			s = append(s, [2]int{0, 0}) // an empty read
		}
		if last && variant&1 != 0 {
			s = append(s, [2]int{k, 1}) // terminal condition together with the last data
		} else {
			s = append(s, [2]int{k, 0})
		}
	}
	if len(chunks) == 0 || variant&1 == 0 {
		s = append(s, [2]int{0, 1})
	}
	return s
}

// dripSched: every chunk of size bytes is preceded by an empty read; the last data comes with the terminal condition when withFin.
func dripSched(n, size int, withFin bool) [][2]int {
	var s [][2]int
	for r := n; r > 0; r -= size {
		k := size
		if r < size {
			k = r
		}
		s = append(s, [2]int{0, 0})
		if r <= size && withFin {
			s = append(s, [2]int{k, 1})
			return s
		}
		s = append(s, [2]int{k, 0})
	}
	return append(s, [2]int{0, 1})
}

func cmdStream(args []string) *Result {
	res := newResult()
	if len(args) >= 2 && args[0] == "--replay" {
		rec := readReplay(args[1])
		switch rec["kind"] {
		case "c08":
			c := &c08Case{Input: bytesOf(anyInts(rec["input"])), Cut: int(rec["cut"].(float64)), Fail: rec["fail"].(bool)}
			for _, s := range rec["sched"].([]any) {
				v := anyInts(s)
				c.Sched = append(c.Sched, [2]int{v[0], v[1]})
			}
			if m, ok := rec["max"].(float64); ok && m > 0 {
				c.Max, c.Chunk, c.Upto, c.ELine = int(m), int(rec["chunk"].(float64)), int(rec["upto"].(float64)), int(rec["eline"].(float64))
			}
			if pa, ok := rec["partner"]; ok && pa != nil {
				c.Partner = bytesOf(anyInts(pa))
			}
			t, pm, hung := runC08Guarded(c, &interner{})
			res.Evaluations = 1
			if hung {
				res.addCandidate(Candidate{Sig: map[string]any{"input": ints(c.Input), "class": "hang"}, What: "NextBlock did not return within 20 s"})
			} else if pm != "" {
				res.addCandidate(Candidate{Sig: map[string]any{"input": ints(c.Input), "class": "panic"}, What: "panic: " + pm})
			} else if why := c08OK(t); why != "" {
				res.addCandidate(Candidate{Sig: map[string]any{"input": ints(c.Input)}, What: why})
			}
		case "c01":
			in := bytesOf(anyInts(rec["input"]))
			for entry := 0; entry < nC01Entries; entry++ {
				var t *c01Trace
				done := make(chan string, 1)
				go func() {
					defer func() {
						if r := recover(); r != nil {
							done <- fmt.Sprint("panic: ", r)
						}
					}()
					t = runC01(in, entry)
					done <- ""
				}()
				res.Evaluations++
				select {
				case pm := <-done:
					if pm != "" {
						res.addCandidate(Candidate{Sig: map[string]any{"input": ints(in), "entry": entry, "class": "panic"}, What: pm})
						continue
					}
				case <-time.After(20 * time.Second):
					res.addCandidate(Candidate{Sig: map[string]any{"input": ints(in), "entry": entry, "class": "hang"}, What: "NextBlock did not return within 20 s"})
					continue
				}
				if why := c01OK(t, in); why != "" {
					res.addCandidate(Candidate{Sig: map[string]any{"input": ints(in), "entry": entry}, What: why})
				}
			}
		}
		return res
	}
	if len(args) < 2 {
		die("usage: stream c01|c08 out.ndjson [tlc outputs]")
	}
	enc := newShardWriter(args[1], envInt("VERIF_SHARDS", 8))
	defer enc.close()
	switch args[0] {
	case "c08":
		streamC08(res, enc, args[2:])
	case "c01":
		streamC01(res, enc)
	default:
		die("unknown mode %s", args[0])
	}
	return res
}

func streamC08(res *Result, enc *shardWriter, tlcOuts []string) {
	in := &interner{}
	id := 0
	hangs := 0
	emit := func(c *c08Case) {
		if c.Partner != nil && hangs >= 3 {
			return // each hang leaves a spinning goroutine behind: the route is abandoned after three
		}
		t, pm, hung := runC08Guarded(c, in)
		if hung {
			hangs++
			res.Evaluations++
			res.addCandidate(Candidate{Sig: map[string]any{"input": ints(c.Input), "class": "hang"},
				Record: map[string]any{"kind": "c08", "input": ints(c.Input), "cut": c.Cut, "fail": c.Fail, "sched": c.Sched, "partner": ints(c.Partner)},
				What:   fmt.Sprintf("NextBlock did not return within 20 s on %q while a second parser worked on %q between the calls", c.Input, c.Partner)})
			return
		}
		res.Evaluations++
		rec := map[string]any{"kind": "c08", "input": ints(c.Input), "cut": c.Cut, "fail": c.Fail, "sched": c.Sched}
		if c.Max > 0 {
			rec["max"], rec["chunk"], rec["upto"], rec["eline"] = c.Max, c.Chunk, c.Upto, c.ELine
		}
		if c.Partner != nil {
			rec["partner"] = ints(c.Partner)
		}
		if pm != "" {
			res.addCandidate(Candidate{Sig: map[string]any{"input": ints(c.Input), "class": "panic"}, Record: rec, What: fmt.Sprintf("panic while streaming %q: %s", c.Input, pm)})
			return
		}
		id++
		t.ID = id
		if len(c.Input) <= 64 {
			enc.write(t, rec)
			res.Traces++
		} else {
			// long executions: the event list is long; log a compacted trace (reads summarised)
			t2 := *t
			var evs [][]int
			for _, e := range t.Evs {
				if e[0] != 1 || e[3] != 0 {
					evs = append(evs, e)
				}
			}
			t2.Evs = evs
			enc.write(&t2, rec)
			res.Traces++
		}
		if len(t.Exp) > 1 || (len(t.Exp) == 1 && len(c.Sched) > 2) {
			res.nontrivialKey(fmt.Sprint(c.Input, c.Cut, c.Sched))
		}
		if len(t.Exp) >= 2 && len(c.Sched) >= 3 {
			res.sample(map[string]any{"input": string(c.Input), "cut": c.Cut, "fail": c.Fail, "sched": c.Sched, "blocks": len(t.Exp)})
		}
		if why := c08OK(t); why != "" {
			res.addCandidate(Candidate{Sig: map[string]any{"input": ints(c.Input), "cut": c.Cut}, Record: rec,
				What: fmt.Sprintf("input %q cut %d fail %v sched %v: %s", c.Input, c.Cut, c.Fail, c.Sched, why)})
		}
	}
	// (A) schedules generated by TLC from Stream.tla
	nlimited := 0
	for _, path := range tlcOuts {
		forEachTLCRecord(path, func(raw []byte) {
			var r struct {
				In    []int    `json:"in"`
				Fail  int      `json:"fail"`
				Sched [][2]int `json:"sched"`
				Ret   string   `json:"ret"`
				ELine int      `json:"eline"`
				Upto  int      `json:"upto"`
				Chunk int      `json:"chunk"`
				Max   int      `json:"max"`
			}
			mustUnmarshal(raw, &r)
			c := &c08Case{Input: bytesOf(r.In), Cut: len(r.In), Sched: r.Sched, Upto: -1}
			if r.Fail >= 0 {
				c.Cut, c.Fail = r.Fail, true
			}
			if r.Max > 0 && r.Max < 1000 {
				// Stream.tla with the size limit switched on: the real parser runs with the model's chunkSize and maxBlockSize
				c.Max, c.Chunk = r.Max, r.Chunk
				if r.Ret == "TooLarge" {
					c.Upto, c.ELine = r.Upto, r.ELine
					nlimited++
				}
			}
			emit(c)
		})
	}
	phase(fmt.Sprintf("c08: TLC schedules done (%d of them end in block too large)", nlimited), res)
	thorough := os.Getenv("VERIF_TIER") == "thorough"
	// (B1) every composition of every short input over an alphabet that holds CRLF, NUL runs, multi-byte characters
	alpha := []string{"a", " ", "\n", "\r", "\x00", "#", "`", ">", "-", "\xc3\xa9", "\xef\xbb\xbf"}
	maxLen := 3
	if thorough {
		maxLen = 4
	}
	exhaustive(alpha, maxLen, func(doc []byte) {
		d := append([]byte(nil), doc...)
		n := len(d)
		if n > 6 {
			return
		}
		compositions(n, 3, func(ch []int) {
			for v := 0; v < 4; v++ {
				if v >= 2 && len(ch) < 2 {
					continue
				}
				emit(&c08Case{Input: d, Cut: n, Sched: schedFromChunks(ch, v)})
			}
		})
		// every fault point, 1-byte reads and 2-byte reads
		for cut := 0; cut <= n; cut++ {
			for _, size := range []int{1, 2} {
				var ch []int
				for r := cut; r > 0; r -= size {
					if r < size {
						ch = append(ch, r)
					} else {
						ch = append(ch, size)
					}
				}
				emit(&c08Case{Input: d, Cut: cut, Fail: true, Sched: schedFromChunks(ch, cut%2)})
			}
		}
	})
	phase("c08: compositions done", res)
	// (B2) seeded random schedules on the mixed sources
	src := newSource(8)
	var prevDoc []byte
	nmixed := 3000
	if thorough {
		nmixed = 60000
	}
	src.mixed(nmixed, func(doc []byte) {
		n := len(doc)
		cut := n
		fail := false
		if src.rng.Intn(3) == 0 {
			cut = src.rng.Intn(n + 1)
			fail = true
		}
		var ch []int
		mode := src.rng.Intn(3)
		for r := cut; r > 0; {
			k := 1
			switch mode {
			case 1:
				k = 1 + src.rng.Intn(3)
			case 2:
				k = 1 + src.rng.Intn(40)
			}
			if k > r {
				k = r
			}
			ch = append(ch, k)
			r -= k
		}
		emit(&c08Case{Input: doc, Cut: cut, Fail: fail, Sched: schedFromChunks(ch, src.rng.Intn(4))})
		// (B5) the same execution with other parser values at work between its steps (interleaved, one goroutine)
		if prevDoc != nil && len(doc) <= 400 && len(prevDoc) <= 400 {
			emit(&c08Case{Input: doc, Cut: cut, Fail: fail, Sched: schedFromChunks(ch, 1), Partner: prevDoc})
		}
		prevDoc = append([]byte(nil), doc...)
	})
	// ... and on every pair of short multi-block documents, where leftover closed blocks wait between calls
	{
		pieces := []string{"a\n# b\n", "a\n***\n# b\nc\n", "> a\n- b\n\n    c\n", "- a\n- b\n\n1. c\n# d\n", "```\nx\n```\n# e\nf\n===\n", "[a]: /u\n[a]\n# g\n", "<div>\n\n# h\n*i*\n"}
		for _, x := range pieces {
			for _, y := range pieces {
				for _, size := range []int{1, 3, 1000} {
					var ch []int
					for r := len(x); r > 0; r -= size {
						if r < size {
							ch = append(ch, r)
						} else {
							ch = append(ch, size)
						}
					}
					emit(&c08Case{Input: []byte(x), Cut: len(x), Sched: schedFromChunks(ch, 1), Partner: []byte(y)})
				}
			}
		}
	}
	phase("c08: mixed + interleaved done", res)
	// (B4) drip schedules on long lines: a reader that never fails and always makes progress, but needs hundreds of reads (half of
	// them empty) to deliver one line
	stretched(func(doc []byte) {
		if len(doc) > 3000 {
			return
		}
		d := append([]byte(nil), doc...)
		emit(&c08Case{Input: d, Cut: len(d), Sched: dripSched(len(d), 2, true)})
		if thorough {
			emit(&c08Case{Input: d, Cut: len(d), Sched: dripSched(len(d), 1, false)})
			emit(&c08Case{Input: d, Cut: len(d) / 2, Fail: true, Sched: dripSched(len(d)/2, 2, true)})
		}
	})
	phase("c08: drip done", res)
	// (B3) large inputs: buffer growth beyond 8 KiB and 64 KiB, chunk borders inside CRLF / NUL runs
	for _, doc := range largeInputs() {
		for _, size := range []int{8191, 8192, 8193, 5000, 70000} {
			var ch []int
			for r := len(doc); r > 0; r -= size {
				if r < size {
					ch = append(ch, r)
				} else {
					ch = append(ch, size)
				}
			}
			emit(&c08Case{Input: doc, Cut: len(doc), Sched: schedFromChunks(ch, 1)})
		}
		cut := len(doc) / 2
		emit(&c08Case{Input: doc, Cut: cut, Fail: true, Sched: schedFromChunks([]int{cut}, 0)})
	}
}

// ---------------------------------------------------------------- C01

const nC01Entries = 7

type c01Trace struct {
	ID    int     `json:"id"`
	Entry int     `json:"entry"` // 0 = Parse, 1 = NewBlockParser over a one-shot reader, 2 = one line per Read, 3 = three bytes per Read, 4 = one line per Read and the last one together with io.EOF, 5 = drip reader (empty read before every two bytes, last data with io.EOF), 6 = three bytes per Read while a second BlockParser and an in-memory Parse of another document work between the NextBlock calls (same goroutine)
	In    []int   `json:"in"`    // input bytes (only when short; see Long)
	Long  int     `json:"long"`  // 1: input too long to ship byte-wise; derived scalars are logged instead
	N     int     `json:"n"`     // input length
	Nul   int     `json:"nul"`   // number of NUL bytes in the input
	Recs  [][]int `json:"recs"`  // per root block: [so, eo, line, len(Source), aliased, capClipped]
	Srcs  [][]int `json:"srcs"`  // per root block: Source bytes (short inputs only)
	Same  int     `json:"same"`  // caller's buffer unchanged after parse + render + format
	Der   [][]int `json:"der"`   // long inputs: per root block [gapBlank, lineOK, srcOK]
	TailB int     `json:"tailb"` // long inputs: tail after the last block is blank
	Err   int     `json:"err"`   // streaming: final error id (1 = EOF)
}

func runC01(input []byte, entry int) *c01Trace {
	// the caller's buffer has spare capacity (filled with a sentinel): nothing may be written there or shifted into it
	spare := 3*bytes.Count(input, []byte{0}) + 16
	full := make([]byte, len(input)+spare)
	copy(full, input)
	for i := len(input); i < len(full); i++ {
		full[i] = 0xAA
	}
	buf := full[:len(input)]
	orig := append([]byte(nil), full...)
	t := &c01Trace{Entry: entry, N: len(input), Nul: bytes.Count(input, []byte{0}), Recs: [][]int{}, Srcs: [][]int{}, Der: [][]int{}, In: []int{}}
	var blocks []*commonmark.RootBlock
	var refs commonmark.ReferenceMap
	if entry == 0 {
		blocks, refs = commonmark.Parse(buf)
		t.Err = 1
	} else if entry == 1 {
		var err error
		blocks, refs, err = streamParse(buf)
		t.Err = errID(err, nil)
	} else {
		// entries 2 and 3: the same streaming route over a reader that delivers one line per Read (so that some
		// Read ends exactly where nothing is pending) / three bytes per Read; every block is looked at only after
		// the last one has been returned, so a Source that a later Read overwrote is seen.
		var err error
		if entry == 5 {
			blocks, refs, err = streamParseFrom(&dripReader{data: buf})
		} else if entry == 6 {
			blocks, refs, err = streamParseInterleaved(&lineReader{data: buf, fixed: 3})
		} else {
			blocks, refs, err = streamParseFrom(&lineReader{data: buf, fixed: map[int]int{2: 0, 3: 3, 4: 0}[entry], withEOF: entry == 4})
		}
		t.Err = errID(err, nil)
	}
	long := len(input) > 96
	if long {
		t.Long = 1
	} else {
		t.In = ints(input)
	}
	prevEnd := 0
	for _, b := range blocks {
		aliased := 0
		if entry == 0 && len(b.Source) > 0 && int(b.StartOffset) < len(buf) && unsafe.Pointer(&b.Source[0]) == unsafe.Pointer(&buf[b.StartOffset]) {
			aliased = 1
		}
		clipped := 0
		if cap(b.Source) == len(b.Source) {
			clipped = 1
		}
		t.Recs = append(t.Recs, []int{int(b.StartOffset), int(b.EndOffset), b.StartLine, len(b.Source), aliased, clipped})
		if !long {
			t.Srcs = append(t.Srcs, ints(b.Source))
		} else {
			so, eo := int(b.StartOffset), int(b.EndOffset)
			gap, lineOK, srcOK := 0, 0, 0
			if so >= prevEnd && so <= len(input) && eo <= len(input) && so <= eo {
				if isBlankBytes(orig[prevEnd:so]) {
					gap = 1
				}
				if b.StartLine == 1+countLineEndings(orig[:so]) {
					lineOK = 1
				}
				if bytes.Equal(b.Source, bytes.ReplaceAll(orig[so:eo], []byte{0}, []byte("�"))) {
					srcOK = 1
				}
				prevEnd = eo
			}
			t.Der = append(t.Der, []int{gap, lineOK, srcOK})
		}
	}
	if long && prevEnd <= len(input) && isBlankBytes(orig[prevEnd:len(input)]) {
		t.TailB = 1
	}
	// rendering and formatting must not touch the caller's buffer either
	var sink bytes.Buffer
	_ = commonmark.RenderHTML(&sink, blocks, refs)
	formatBlocks(&sink, blocks)
	if bytes.Equal(full, orig) {
		t.Same = 1
	}
	return t
}

// lineReader delivers one line (up to and including its line ending) per Read, or fixed-size chunks.
type lineReader struct {
	data    []byte
	fixed   int
	withEOF bool // the last piece of data is returned together with io.EOF (io.Reader allows it)
}

func (r *lineReader) Read(p []byte) (n int, err error) {
	if len(r.data) == 0 {
		return 0, io.EOF
	}
	if r.withEOF {
		defer func() {
			if len(r.data) == 0 {
				err = io.EOF
			}
		}()
	}
	n = r.fixed
	if n == 0 {
		n = len(r.data)
		for i, c := range r.data {
			if c == '\n' || (c == '\r' && (i+1 >= len(r.data) || r.data[i+1] != '\n')) {
				n = i + 1
				break
			}
		}
	}
	if n > len(r.data) {
		n = len(r.data)
	}
	if n > len(p) {
		n = len(p)
	}
	copy(p, r.data[:n])
	r.data = r.data[n:]
	return n, nil
}

// dripReader never fails and always makes progress, in the least convenient legal way: every piece of data (two bytes) is
// preceded by an empty read (0, nil), and the last piece comes together with io.EOF.
type dripReader struct {
	data []byte
	pos  int
	tick bool
}

func (r *dripReader) Read(p []byte) (int, error) {
	r.tick = !r.tick
	if r.tick && len(p) > 0 {
		return 0, nil
	}
	if r.pos >= len(r.data) {
		return 0, io.EOF
	}
	n := 2
	if n > len(r.data)-r.pos {
		n = len(r.data) - r.pos
	}
	if n > len(p) {
		n = len(p)
	}
	copy(p, r.data[r.pos:r.pos+n])
	r.pos += n
	if r.pos == len(r.data) {
		return n, io.EOF
	}
	return n, nil
}

// streamParseInterleaved is streamParseFrom with other parser values at work between the calls: a second BlockParser takes one step
// before every NextBlock, and an in-memory Parse runs before every other one. Independent parser values, one goroutine.
var interleavePartner = []byte("a\n# b\nc\n***\n- d\n- e\n\n> f\n\n    g\n```\nh\n```\n[i]: /j\n<div>\n\nk\n===\n")

func streamParseInterleaved(rd io.Reader) ([]*commonmark.RootBlock, commonmark.ReferenceMap, error) {
	p := commonmark.NewBlockParser(rd)
	var q *commonmark.BlockParser
	var blocks []*commonmark.RootBlock
	refs := make(commonmark.ReferenceMap)
	for step := 0; ; step++ {
		if q == nil {
			q = commonmark.NewBlockParser(bytes.NewReader(interleavePartner))
		}
		if _, qerr := q.NextBlock(); qerr != nil {
			q = nil
		}
		if step%2 == 1 {
			commonmark.Parse(interleavePartner)
		}
		b, err := p.NextBlock()
		if err != nil {
			ip := &commonmark.InlineParser{ReferenceMatcher: refs}
			for _, rb := range blocks {
				ip.Rewrite(rb)
			}
			return blocks, refs, err
		}
		blocks = append(blocks, b)
		refs.Extract(b.Source, b.AsNode())
	}
}

func streamParseFrom(rd io.Reader) ([]*commonmark.RootBlock, commonmark.ReferenceMap, error) {
	p := commonmark.NewBlockParser(rd)
	var blocks []*commonmark.RootBlock
	refs := make(commonmark.ReferenceMap)
	for {
		b, err := p.NextBlock()
		if err != nil {
			ip := &commonmark.InlineParser{ReferenceMatcher: refs}
			for _, rb := range blocks {
				ip.Rewrite(rb)
			}
			return blocks, refs, err
		}
		blocks = append(blocks, b)
		refs.Extract(b.Source, b.AsNode())
	}
}

func isBlankBytes(b []byte) bool {
	for _, c := range b {
		if c != ' ' && c != '\t' && c != '\n' && c != '\r' {
			return false
		}
	}
	return true
}

func countLineEndings(b []byte) int {
	n := 0
	for i, c := range b {
		if c == '\n' || (c == '\r' && (i+1 >= len(b) || b[i+1] != '\n')) {
			n++
		}
	}
	return n
}

// c01OK: harness-side pre-check (candidate selection only; TLC decides on the trace).
func c01OK(t *c01Trace, input []byte) string {
	prev := 0
	for i, r := range t.Recs {
		so, eo, line, sl, aliased, clipped := r[0], r[1], r[2], r[3], r[4], r[5]
		if so < prev || so >= eo || eo > len(input) {
			return fmt.Sprintf("block %d: bad range [%d,%d) after %d", i, so, eo, prev)
		}
		if !isBlankBytes(input[prev:so]) {
			return fmt.Sprintf("block %d: non-blank bytes skipped before offset %d", i, so)
		}
		if line != 1+countLineEndings(input[:so]) {
			return fmt.Sprintf("block %d: StartLine %d, want %d", i, line, 1+countLineEndings(input[:so]))
		}
		nul := bytes.Count(input[so:eo], []byte{0})
		if sl != eo-so+2*nul {
			return fmt.Sprintf("block %d: len(Source) %d, want %d", i, sl, eo-so+2*nul)
		}
		if t.Long == 0 {
			want := bytes.ReplaceAll(input[so:eo], []byte{0}, []byte("�"))
			if !bytes.Equal(bytesOf(t.Srcs[i]), want) {
				return fmt.Sprintf("block %d: Source %q, want %q", i, bytesOf(t.Srcs[i]), want)
			}
		} else if t.Der[i][2] != 1 {
			return fmt.Sprintf("block %d: Source differs from input range", i)
		}
		if t.Entry == 0 && t.Nul == 0 && aliased != 1 {
			return fmt.Sprintf("block %d: Source does not alias the caller's buffer", i)
		}
		_ = clipped // logged for information; not part of the property
		prev = eo
	}
	if !isBlankBytes(input[prev:]) {
		return "non-blank tail after the last block"
	}
	if t.Same != 1 {
		return "caller's buffer modified"
	}
	if t.Err != 1 {
		return "streaming parse did not end with EOF"
	}
	return ""
}

func streamC01(res *Result, enc *shardWriter) {
	id := 0
	c01Hangs := 0
	enumerating := false // during the exhaustive enumerations the drip reader is used on the shortest strings only
	emit := func(doc []byte) {
		d := append([]byte(nil), doc...)
		for entry := 0; entry < nC01Entries; entry++ {
			if entry == 5 && enumerating && len(d) > 4 {
				continue
			}
			if entry == 6 && (c01Hangs >= 3 || (enumerating && len(d) > 4)) {
				continue
			}
			var t *c01Trace
			pm := ""
			run := func() {
				defer func() {
					if r := recover(); r != nil {
						pm = fmt.Sprint(r)
					}
				}()
				t = runC01(d, entry)
			}
			if entry == 6 {
				// other parser values work between the calls: a parser they disturb may never return (watchdog; each hang leaves a
				// spinning goroutine behind, so the entry is abandoned after three)
				done := make(chan struct{})
				go func() { run(); close(done) }()
				select {
				case <-done:
				case <-time.After(20 * time.Second):
					c01Hangs++
					res.Evaluations++
					res.addCandidate(Candidate{Sig: map[string]any{"input": ints(d), "class": "hang"}, Record: map[string]any{"kind": "c01", "input": ints(d)},
						What: fmt.Sprintf("NextBlock did not return within 20 s on %q while other parser values worked between the calls", d)})
					continue
				}
			} else {
				run()
			}
			res.Evaluations++
			rec := map[string]any{"kind": "c01", "input": ints(d)}
			if pm != "" {
				res.addCandidate(Candidate{Sig: map[string]any{"input": ints(d), "class": "panic"}, Record: rec, What: fmt.Sprintf("panic on %q: %s", d, pm)})
				continue
			}
			id++
			t.ID = id
			enc.write(t, rec)
			res.Traces++
			if len(t.Recs) >= 2 || t.Nul > 0 {
				res.nontrivialKey(string(d))
			}
			if len(t.Recs) >= 2 && t.Nul > 0 && entry == 0 {
				res.sample(map[string]any{"input": string(d), "records": t.Recs})
			}
			if why := c01OK(t, d); why != "" {
				res.addCandidate(Candidate{Sig: map[string]any{"input": ints(d), "entry": entry}, Record: rec,
					What: fmt.Sprintf("input %q entry %d: %s", d, entry, why)})
			}
		}
	}
	thorough := os.Getenv("VERIF_TIER") == "thorough"
	alpha := []string{"a", " ", "\t", "\n", "\r", "\x00", ">", "-", "#", "`"}
	maxLen := 5
	if thorough {
		maxLen = 6
	}
	enumerating = true
	exhaustive(alpha, maxLen, emit)
	// white space that is NOT a blank-line character (form feed, vertical tab, NBSP, EM SPACE, NEL): a line made of it is content
	exhaustive([]string{"a", " ", "\n", "\f", "\v", "\u00a0", "\u2003", "\u0085", "\r", "\ufeff", "#"}, maxLen-1, emit)
	enumerating = false
	src := newSource(1)
	n := 8000
	if thorough {
		n = 150000
	}
	src.mixed(n, emit)
	src.structured(thorough, emit)
	for _, ex := range specExamples() {
		emit([]byte(ex))
		if thorough {
			allPrefixes([]byte(ex), emit)
		}
	}
	for _, doc := range largeInputs() {
		emit(doc)
	}
}

func phase(name string, res *Result) {
	var m runtime.MemStats
	runtime.ReadMemStats(&m)
	fmt.Fprintf(os.Stderr, "%s  %s: evaluations=%d heap=%dMB sys=%dMB\n", time.Now().Format("15:04:05"), name, res.Evaluations, m.HeapAlloc>>20, m.Sys>>20)
}
