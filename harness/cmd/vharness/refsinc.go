package main

import (
	"bytes"
	"fmt"
	"io"
	"strings"

	"zombiezen.com/go/commonmark"
)

// C12, direction A for RefsInc.tla: the reference machinery as an incremental machine.
//   refs inc <tlc outputs...>
// Each record is one complete behaviour: two documents (items with d = 1 / 2), and the API calls in order:
// ["X", i, 0] = maps[d(i)].Extract(block i), ["W", i, sel] = parser.ReferenceMatcher = nil | maps[sel]; parser.Rewrite(block i).
// ONE InlineParser value serves the whole behaviour. After every Rewrite the use must be a reference link iff the
// model says so; at the end the two maps must equal the model's.

type refIncItem struct {
	T         string   `json:"t"`
	Label     []string `json:"label"`
	Dest      int      `json:"dest"`
	Container int      `json:"container"`
	Style     int      `json:"style"`
	D         int      `json:"d"`
}

type refIncRec struct {
	Doc      []refIncItem `json:"doc"`
	Hist     [][]any      `json:"hist"`
	Res      []int        `json:"res"`
	DocLevel []int        `json:"doclevel"`
	Standard []int        `json:"standard"`
	KeyOf    [][]string   `json:"keyof"`
	Map1     [][]any      `json:"map1"`
	Map2     [][]any      `json:"map2"`
}

func blocksOnly(input []byte) ([]*commonmark.RootBlock, error) {
	p := commonmark.NewBlockParser(bytes.NewReader(input))
	var out []*commonmark.RootBlock
	for {
		b, err := p.NextBlock()
		if err == io.EOF {
			return out, nil
		}
		if err != nil {
			return out, err
		}
		out = append(out, b)
	}
}

func refsCheckInc(res *Result, r *refIncRec) {
	res.Evaluations++
	// the two documents; item i is root block pos[i] of document r.Doc[i].D
	var items [3][]refItem
	pos := make([]int, len(r.Doc))
	for i, it := range r.Doc {
		if it.D != 1 && it.D != 2 {
			die("refs inc: item with d = %d", it.D)
		}
		pos[i] = len(items[it.D])
		items[it.D] = append(items[it.D], refItem{T: it.T, Label: it.Label, Dest: it.Dest, Container: it.Container, Style: it.Style})
	}
	var docs [3][]byte
	var blocks [3][]*commonmark.RootBlock
	for d := 1; d <= 2; d++ {
		docs[d] = refDocument(&refRec{Doc: items[d]})
		bs, err := blocksOnly(docs[d])
		if err != nil || len(bs) != len(items[d]) {
			if len(res.Drift) < 8 {
				res.Drift = append(res.Drift, fmt.Sprintf("refs inc: document %q has %d root blocks, the model has %d items (err %v)", docs[d], len(bs), len(items[d]), err))
			}
			return
		}
		blocks[d] = bs
	}
	rec := map[string]any{"kind": "refs-inc", "rec": r, "doc1": string(docs[1]), "doc2": string(docs[2])}
	fail := func(class, format string, a ...any) {
		res.addCandidate(Candidate{Sig: map[string]any{"input": ints(append(append([]byte(nil), docs[1]...), docs[2]...)), "hist": fmt.Sprint(r.Hist), "class": class},
			Record: rec, What: fmt.Sprintf("documents %q / %q, calls %v: ", docs[1], docs[2], r.Hist) + fmt.Sprintf(format, a...)})
	}
	maps := [3]commonmark.ReferenceMap{nil, {}, {}}
	ip := new(commonmark.InlineParser)
	nontrivial := false
	for _, h := range r.Hist {
		op, _ := h[0].(string)
		i := int(h[1].(float64)) - 1
		sel := int(h[2].(float64))
		it := r.Doc[i]
		b := blocks[it.D][pos[i]]
		switch op {
		case "X":
			maps[it.D].Extract(b.Source, b.AsNode())
		case "W":
			if sel == 0 {
				ip.ReferenceMatcher = nil
			} else {
				ip.ReferenceMatcher = maps[sel]
			}
			ip.Rewrite(b)
			var links []*commonmark.Inline
			findLinks(b.AsNode(), &links)
			got := 0
			if len(links) > 0 {
				got = 1
			}
			want := r.Res[i]
			if got != want {
				// The model's expectation is the matcher's content at the time of the call. It is a verdict when the
				// document-level meaning (Refs.tla) says the same, or when the code produced a link whose key the
				// matcher does not have; otherwise the caller's call order explains the difference.
				switch {
				case want == r.DocLevel[i]:
					fail("inc-resolve", "use %d (%q) rewritten with matcher %d: %s, but its document %s the label and so does the matcher at the time of the call",
						i+1, b.Source, sel, gotWord(got), haveWord(want))
				case got == 1:
					fail("inc-stale-link", "use %d (%q) rewritten with matcher %d became a reference link to %q although the matcher does not define it at the time of the call",
						i+1, b.Source, sel, links[0].LinkReference())
				default:
					if len(res.Drift) < 8 {
						res.Drift = append(res.Drift, fmt.Sprintf("refs inc: use %d of %q / %q calls %v: code %d, model %d (call order differs from the document-level meaning)", i+1, docs[1], docs[2], r.Hist, got, want))
					}
				}
				continue
			}
			if got == 1 {
				nontrivial = true
				key := symString(r.KeyOf[i])
				if len(links) != 1 || links[0].LinkReference() != key {
					fail("inc-key", "use %d (%q): %d links, LinkReference %q, want key %q", i+1, b.Source, len(links), links[0].LinkReference(), key)
				} else if _, ok := maps[sel][key]; !ok {
					fail("inc-stale-link", "use %d (%q) names key %q which matcher %d does not hold", i+1, b.Source, key, sel)
				}
			}
		default:
			die("refs inc: unknown call %v", h)
		}
	}
	for d, want := range map[int][][]any{1: r.Map1, 2: r.Map2} {
		w := map[string]string{}
		for _, kv := range want {
			dd := int(kv[1].(float64))
			w[symString(anyStrings(kv[0]))] = fmt.Sprintf("/d%d|t%d", dd, dd)
		}
		g := map[string]string{}
		for k, v := range maps[d] {
			g[k] = v.Destination + "|" + v.Title
		}
		if fmt.Sprint(sortedMap(w)) != fmt.Sprint(sortedMap(g)) {
			fail("inc-map", "map of document %d after the calls: spec %v, code %v", d, sortedMap(w), sortedMap(g))
		}
	}
	// rendering with the final map: the first definition's destination
	for i, it := range r.Doc {
		if it.T != "use" || r.Res[i] != 1 {
			continue
		}
		b := blocks[it.D][pos[i]]
		var links []*commonmark.Inline
		findLinks(b.AsNode(), &links)
		if len(links) != 1 {
			continue
		}
		sel := 0
		for _, h := range r.Hist {
			if h[0].(string) == "W" && int(h[1].(float64)) == i+1 {
				sel = int(h[2].(float64))
			}
		}
		if sel == 0 {
			continue
		}
		def, ok := maps[sel][links[0].LinkReference()]
		if !ok {
			continue
		}
		html := string((&commonmark.HTMLRenderer{ReferenceMap: maps[sel]}).AppendBlock(nil, b))
		if !strings.Contains(html, fmt.Sprintf(`href="%s"`, def.Destination)) {
			fail("inc-render", "use %d renders %q, want href %q", i+1, html, def.Destination)
		}
	}
	if nontrivial {
		res.nontrivialKey(string(docs[1]) + "\x00" + string(docs[2]) + fmt.Sprint(r.Hist))
		if len(r.Hist) >= 3 && len(docs[2]) > 0 {
			res.sample(map[string]any{"doc1": string(docs[1]), "doc2": string(docs[2]), "calls": r.Hist, "uses_become": r.Res})
		}
	}
}

func gotWord(g int) string {
	if g == 1 {
		return "it became a reference link"
	}
	return "it stayed text"
}

func haveWord(w int) string {
	if w == 1 {
		return "defines"
	}
	return "does not define"
}
