package main

import (
	"fmt"
	"strings"

	"zombiezen.com/go/commonmark"
)

// Direction A for Blocks.tla: the model's block skeleton of every generated document must be exactly the
// real parser's block tree (kinds, absolute spans, heading level / item number, tightness, literal code content).
//
//   blocks <tlc outputs...>      blocks --replay <file>

func init() { register("blocks", cmdBlocks) }

type skelNode struct {
	K    string     `json:"k"`
	S    int        `json:"s"`
	E    int        `json:"e"`
	A    int        `json:"a"`
	T    bool       `json:"t"`
	Kids []skelNode `json:"kids"`
	Lit  []int      `json:"lit"`
}

type blocksRec struct {
	Src  []int      `json:"src"`
	Tree []skelNode `json:"tree"`
}

var blockNames = map[commonmark.BlockKind]string{
	commonmark.ParagraphKind: "para", commonmark.ThematicBreakKind: "hr", commonmark.ATXHeadingKind: "atx", commonmark.SetextHeadingKind: "setext",
	commonmark.IndentedCodeBlockKind: "icode", commonmark.FencedCodeBlockKind: "fcode", commonmark.BlockQuoteKind: "quote", commonmark.ListItemKind: "item",
	commonmark.ListKind: "list", commonmark.ListMarkerKind: "marker", commonmark.HTMLBlockKind: "html", commonmark.LinkReferenceDefinitionKind: "refdef",
}

func fmtModelSkel(sb *strings.Builder, n *skelNode) {
	if n.K == "label" || n.K == "dest" || n.K == "title" {
		fmt.Fprintf(sb, "(%s %d %d)", n.K, n.S, n.E)
		return
	}
	a := n.A
	if n.K != "atx" && n.K != "setext" && n.K != "item" {
		a = 0
	}
	t := n.T
	if n.K != "list" && n.K != "item" {
		t = false
	}
	fmt.Fprintf(sb, "(%s %d %d %d %v", n.K, n.S, n.E, a, t)
	if n.K == "icode" || n.K == "fcode" {
		fmt.Fprintf(sb, " %q", bytesOf(n.Lit))
	}
	for i := range n.Kids {
		fmtModelSkel(sb, &n.Kids[i])
	}
	sb.WriteString(")")
}

func fmtRealSkel(sb *strings.Builder, src []byte, base int, b *commonmark.Block) {
	k := blockNames[b.Kind()]
	a := 0
	switch k {
	case "atx", "setext":
		a = b.HeadingLevel()
	case "item":
		a = b.ListItemNumber(src)
	}
	t := false
	if k == "list" || k == "item" {
		t = b.IsTightList()
	}
	fmt.Fprintf(sb, "(%s %d %d %d %v", k, base+b.Span().Start, base+b.Span().End, a, t)
	if k == "icode" || k == "fcode" {
		var lit []byte
		for i := 0; i < b.ChildCount(); i++ {
			in := b.Child(i).Inline()
			if in != nil && in.Kind() != commonmark.InfoStringKind {
				lit = append(lit, in.Text(src)...)
			}
		}
		fmt.Fprintf(sb, " %q", lit)
	}
	for i := 0; i < b.ChildCount(); i++ {
		if cb := b.Child(i).Block(); cb != nil {
			fmtRealSkel(sb, src, base, cb)
		} else if in := b.Child(i).Inline(); in != nil && k == "refdef" {
			name := map[commonmark.InlineKind]string{commonmark.LinkLabelKind: "label", commonmark.LinkDestinationKind: "dest", commonmark.LinkTitleKind: "title"}[in.Kind()]
			fmt.Fprintf(sb, "(%s %d %d)", name, base+in.Span().Start, base+in.Span().End)
		}
	}
	sb.WriteString(")")
}

func blocksCheck(res *Result, r *blocksRec) {
	res.Evaluations++
	src := bytesOf(r.Src)
	var want strings.Builder
	for i := range r.Tree {
		fmtModelSkel(&want, &r.Tree[i])
	}
	var got strings.Builder
	pm := ""
	func() {
		defer func() {
			if x := recover(); x != nil {
				pm = fmt.Sprint(x)
			}
		}()
		blocks, _ := commonmark.Parse(append([]byte(nil), src...))
		for _, b := range blocks {
			fmtRealSkel(&got, b.Source, int(b.StartOffset), &b.Block)
		}
	}()
	w := want.String()
	if strings.Count(w, "(") >= 4 {
		res.nontrivialKey(w)
		if strings.Count(w, "(") >= 7 && len(src) < 40 {
			res.sample(map[string]any{"doc": string(src), "skeleton": w})
		}
	}
	rec := map[string]any{"kind": "blocks", "rec": r}
	if pm != "" {
		res.addCandidate(Candidate{Sig: map[string]any{"input": ints(src), "class": "panic"}, Record: rec, What: fmt.Sprintf("%q: panic %s", src, pm)})
		return
	}
	if w != got.String() {
		class := "block-structure"
		if stripLits(w) == stripLits(got.String()) {
			class = "code-content"
		}
		res.addCandidate(Candidate{Sig: map[string]any{"input": ints(src), "class": class}, Record: rec,
			What: fmt.Sprintf("%q:\n      spec  %s\n      code  %s", src, w, got.String())})
	}
}

// stripLits removes the quoted literal contents so that structure can be compared separately from content.
func stripLits(s string) string {
	var sb strings.Builder
	in := false
	for i := 0; i < len(s); i++ {
		c := s[i]
		if c == '"' && (i == 0 || s[i-1] != '\\') {
			in = !in
			continue
		}
		if !in {
			sb.WriteByte(c)
		}
	}
	return sb.String()
}

func cmdBlocks(args []string) *Result {
	res := newResult()
	if len(args) == 2 && args[0] == "--replay" {
		rec := readReplay(args[1])
		var r blocksRec
		mustUnmarshal([]byte(jsonString(rec["rec"])), &r)
		blocksCheck(res, &r)
		return res
	}
	res = parallelTLCRecords(args, func(res *Result, raw []byte) {
		var r blocksRec
		mustUnmarshal(raw, &r)
		blocksCheck(res, &r)
	})
	res.Traces = res.Evaluations
	return res
}
