package main

import (
	"bufio"
	"bytes"
	"fmt"
	"io"
	"os"
	"runtime"
	"strconv"
	"strings"
	"sync"
	"time"

	"zombiezen.com/go/commonmark"
	"zombiezen.com/go/commonmark/format"
)

// C19 (Conc.tla).
//   conc model <tlc outputs...> <base>   direction A + B: replay every schedule TLC emitted on real operation tuples
//                                        with blocking gates (user callbacks and the verif-tag yield points), record
//                                        the history of every replay for validation by TLC
//   conc regen <base> <replay.ndjson>    re-execute recorded (operations, schedule) cases
//   conc race <seconds>                  free-running goroutines (no gates, no hook) for the race detector; results
//                                        are compared with the sequential ones
//
// A gate suspends the calling goroutine until the controller resumes it; what user code was handed (the tag slice,
// the bytes to write, the cursor) is looked at only AFTER the goroutine has been resumed, so that a scratch buffer
// another caller has overwritten in the meantime is seen.

func init() { register("conc", cmdConc) }

// ---- goroutine identity and gates

func goid() int64 {
	var buf [64]byte
	n := runtime.Stack(buf[:], false)
	// "goroutine 123 [running]:"
	s := buf[len("goroutine "):n]
	i := bytes.IndexByte(s, ' ')
	id, _ := strconv.ParseInt(string(s[:i]), 10, 64)
	return id
}

type caller struct {
	id       int
	gated    bool
	arrive   chan int
	release  chan struct{}
	done     chan struct{}
	obs      []int
	fin      int
	pm       string
	finished bool
}

var (
	gateMu      sync.Mutex
	gateCallers = map[int64]*caller{}
)

func registerCaller(c *caller) {
	gateMu.Lock()
	gateCallers[goid()] = c
	gateMu.Unlock()
}

func unregisterCaller() {
	gateMu.Lock()
	delete(gateCallers, goid())
	gateMu.Unlock()
}

func currentCaller() *caller {
	gateMu.Lock()
	c := gateCallers[goid()]
	gateMu.Unlock()
	return c
}

const (
	siteBlockLine = 1 + iota
	siteInlineByte
	siteRewriteBlock
	siteWalkStep
	siteExtractNode
	siteRead
	siteWrite
	siteFilter
	sitePre
	sitePost
	siteOther
)

var siteIDs = map[string]int{"block-line": siteBlockLine, "inline-byte": siteInlineByte, "rewrite-block": siteRewriteBlock,
	"walk-step": siteWalkStep, "extract-node": siteExtractNode}

// gate: called on the caller's own goroutine. obsFn runs after the caller has been resumed.
func gate(c *caller, site int, obsFn func() int) {
	if c == nil {
		return
	}
	if c.gated {
		c.arrive <- site
		<-c.release
	}
	o := site
	if obsFn != nil {
		o = site + 16*(obsFn()&0xfffff)
	}
	c.obs = append(c.obs, o)
}

func installYieldHook() {
	commonmark.SetVerifYield(func(site string) {
		if c := currentCaller(); c != nil {
			id, ok := siteIDs[site]
			if !ok {
				id = siteOther
			}
			gate(c, id, nil)
		}
	})
}

// ---- operations

type concDoc struct {
	src    []byte
	blocks []*commonmark.RootBlock
	refs   commonmark.ReferenceMap
}

func newConcDoc(src string) *concDoc {
	d := &concDoc{src: []byte(src)}
	d.blocks, d.refs = commonmark.Parse(d.src)
	return d
}

func (d *concDoc) digest() int {
	var sb strings.Builder
	for _, b := range d.blocks {
		sb.WriteString(dumpRoot(b))
	}
	sb.WriteString(dumpRefMap(d.refs))
	sb.Write(d.src)
	return digest([]byte(sb.String()))
}

type concOp struct {
	name string
	run  func(c *caller) int
}

type gateWriter struct {
	c   *caller
	out []byte
}

func (w *gateWriter) Write(p []byte) (int, error) {
	gate(w.c, siteWrite, func() int { return digest(p) })
	w.out = append(w.out, p...)
	return len(p), nil
}

type gateStringWriter struct{ *gateWriter }

func (w gateStringWriter) WriteString(s string) (int, error) {
	gate(w.c, siteWrite, func() int { return digest([]byte(s)) })
	w.out = append(w.out, s...)
	return len(s), nil
}

type gateReader struct {
	c     *caller
	data  []byte
	chunk int
}

func (r *gateReader) Read(p []byte) (int, error) {
	gate(r.c, siteRead, nil)
	if len(r.data) == 0 {
		return 0, io.EOF
	}
	n := r.chunk
	if n > len(r.data) {
		n = len(r.data)
	}
	if n > len(p) {
		n = len(p)
	}
	copy(p, r.data[:n])
	r.data = r.data[n:]
	return n, nil
}

var raceMode bool

var concPreds = map[string]func(tag []byte) bool{
	"script": func(tag []byte) bool { return string(tag) == "script" || string(tag) == "/script" },
	"gfm": func(tag []byte) bool {
		switch strings.TrimPrefix(string(tag), "/") {
		case "title", "textarea", "style", "xmp", "iframe", "noembed", "noframes", "script", "plaintext":
			return true
		}
		return false
	},
	"em-p": func(tag []byte) bool { return string(tag) == "em" || string(tag) == "p" || string(tag) == "/a" },
}

// gatingFilter identifies its caller by goroutine, so that one HTMLRenderer value can be shared by all callers.
func gatingFilter(pred func([]byte) bool) func([]byte) bool {
	if raceMode {
		return pred // no goroutine lookup (it takes a mutex, which would order the goroutines and hide races)
	}
	return func(tag []byte) bool {
		gate(currentCaller(), siteFilter, func() int { return digest(tag) })
		return pred(tag)
	}
}

func errDigest(err error) int {
	if err == nil {
		return 0
	}
	return digest([]byte(err.Error())) | 1
}

func copRender(d *concDoc, r *commonmark.HTMLRenderer, name string) concOp {
	return concOp{name: "render:" + name, run: func(c *caller) int {
		w := &gateWriter{c: c}
		err := r.Render(w, d.blocks)
		return digest(w.out) ^ errDigest(err)
	}}
}

func copAppend(d *concDoc, r *commonmark.HTMLRenderer, name string) concOp {
	return concOp{name: "append:" + name, run: func(c *caller) int {
		var out []byte
		for _, b := range d.blocks {
			out = r.AppendBlock(out, b)
			gate(c, siteOther, nil)
		}
		return digest(out)
	}}
}

func copFormat(d *concDoc, stringWriter bool) concOp {
	return concOp{name: fmt.Sprintf("format:sw=%v", stringWriter), run: func(c *caller) int {
		w := &gateWriter{c: c}
		var err error
		if stringWriter {
			err = format.Format(gateStringWriter{w}, d.blocks)
		} else {
			err = format.Format(w, d.blocks)
		}
		return digest(w.out) ^ errDigest(err)
	}}
}

func copWalk(d *concDoc) concOp {
	return concOp{name: "walk", run: func(c *caller) int {
		var sb strings.Builder
		for _, b := range d.blocks {
			commonmark.Walk(b.AsNode(), &commonmark.WalkOptions{
				Pre: func(cur *commonmark.Cursor) bool {
					gate(c, sitePre, func() int {
						return digest([]byte(fmt.Sprint(kindCode(cur.Node()), cur.Node().Span(), cur.Index(), kindCode(cur.Parent()))))
					})
					fmt.Fprintf(&sb, "pre %d %v %d;", kindCode(cur.Node()), cur.Node().Span(), cur.Index())
					return kindCode(cur.Node()) != kCodeSpan
				},
				Post: func(cur *commonmark.Cursor) bool {
					gate(c, sitePost, func() int {
						return digest([]byte(fmt.Sprint(kindCode(cur.Node()), cur.Node().Span(), cur.Index(), cur.ParentBlock() != nil)))
					})
					fmt.Fprintf(&sb, "post %d %v %d;", kindCode(cur.Node()), cur.Node().Span(), cur.Index())
					return true
				},
			})
		}
		return digest([]byte(sb.String()))
	}}
}

// sharedWalkOptions: ONE WalkOptions value used by several callers at the same time (a visitor kept in a package-level variable).
// Its callbacks are stateless apart from what they record for the calling goroutine's caller.
func sharedWalkOptions() *commonmark.WalkOptions {
	return &commonmark.WalkOptions{
		Pre: func(cur *commonmark.Cursor) bool {
			c := currentCaller()
			gate(c, sitePre, func() int {
				cons := 1
				if cur.Index() >= 0 && cur.Parent().Child(cur.Index()) != cur.Node() {
					cons = 0
				}
				return digest([]byte(fmt.Sprint(kindCode(cur.Node()), cur.Node().Span(), cur.Index(), kindCode(cur.Parent()), cons)))
			})
			return kindCode(cur.Node()) != kCodeSpan
		},
		Post: func(cur *commonmark.Cursor) bool {
			c := currentCaller()
			gate(c, sitePost, func() int {
				return digest([]byte(fmt.Sprint(kindCode(cur.Node()), cur.Node().Span(), cur.Index(), cur.ParentBlock() != nil)))
			})
			return true
		},
	}
}

func copWalkSharedOpts(d *concDoc, opts *commonmark.WalkOptions) concOp {
	return concOp{name: "walk:shared-options", run: func(c *caller) int {
		start := len(c.obs)
		for _, b := range d.blocks {
			commonmark.Walk(b.AsNode(), opts)
		}
		return digest([]byte(fmt.Sprint(c.obs[start:])))
	}}
}

// copWalkAbort: user code that stops its traversal early (Post returns false while frames are pending).
func copWalkAbort(d *concDoc, stopAt int) concOp {
	return concOp{name: fmt.Sprintf("walk-abort:%d", stopAt), run: func(c *caller) int {
		var sb strings.Builder
		for _, b := range d.blocks {
			n := 0
			commonmark.Walk(b.AsNode(), &commonmark.WalkOptions{
				Post: func(cur *commonmark.Cursor) bool {
					gate(c, sitePost, nil)
					n++
					fmt.Fprintf(&sb, "post %d %v;", kindCode(cur.Node()), cur.Node().Span())
					return n < stopAt
				},
			})
		}
		return digest([]byte(sb.String()))
	}}
}

// sharedArena: parse inputs that are sub-slices of ONE backing array, each with the next input in its spare capacity.
var sharedArena []byte
var sharedArenaOrig []byte
var arenaInputs [][]byte

func initArena() {
	if sharedArena != nil {
		return
	}
	docs := []string{"first\x00doc *a*\n\n", "second doc _b_\n\n", "third\x00\x00doc `c`\n\n", "[fourth](/doc)\n\n", "> fifth doc\n\n"}
	for _, d := range docs {
		sharedArena = append(sharedArena, d...)
	}
	sharedArena = append(sharedArena, bytes.Repeat([]byte{0xAA}, 64)...)
	sharedArenaOrig = append([]byte(nil), sharedArena...)
	off := 0
	for _, d := range docs {
		arenaInputs = append(arenaInputs, sharedArena[off:off+len(d)]) // len < cap: the spare capacity is the next document
		off += len(d)
	}
}

func dumpParsed(blocks []*commonmark.RootBlock, refs commonmark.ReferenceMap) int {
	var sb strings.Builder
	for _, b := range blocks {
		sb.WriteString(dumpRoot(b))
	}
	sb.WriteString(dumpRefMap(refs))
	return digest([]byte(sb.String()))
}

func copParseStream(input []byte, chunk int) concOp {
	return concOp{name: fmt.Sprintf("parse-stream:%d:%.20q", chunk, input), run: func(c *caller) int {
		p := commonmark.NewBlockParser(&gateReader{c: c, data: input, chunk: chunk})
		var blocks []*commonmark.RootBlock
		refs := make(commonmark.ReferenceMap)
		for {
			b, err := p.NextBlock()
			if err != nil {
				break
			}
			blocks = append(blocks, b)
			refs.Extract(b.Source, b.AsNode())
		}
		ip := &commonmark.InlineParser{ReferenceMatcher: refs}
		for _, b := range blocks {
			ip.Rewrite(b)
		}
		r := &commonmark.HTMLRenderer{ReferenceMap: refs}
		var out []byte
		for _, b := range blocks {
			out = r.AppendBlock(out, b)
		}
		return dumpParsed(blocks, refs) ^ digest(out)
	}}
}

func copParseMem(input []byte) concOp {
	return concOp{name: fmt.Sprintf("parse-mem:%.20q", input), run: func(c *caller) int {
		blocks, refs := commonmark.Parse(input)
		gate(c, siteOther, nil)
		return dumpParsed(blocks, refs)
	}}
}

var concDocSources = []string{
	"<DIV>\n<SCRIPT>x</SCRIPT>\n\n*a* <Em>b</Em> <script>\n",
	"<DIV>\n<IFRAME> <Em> <SCRIPT>\n\n[l](/u \"t\") `c` <b>\n",
	"> - a *b* **c**\n>   [r]\n\n[r]: /ref 'ti'\n",
	"1. x\n\n   ```go\n   code <&>\n   ```\n2. ![i](/s) <http://a.b/c>\n",
	"# h &amp; <x-y z=\"1\">\n\nsetext\n===\n\n    indented\n",
}

var concParseInputs = []string{
	"*a* _b_ [c](/d) `e`\n",
	"> q1\n> q2 **s**\n\n- i1\n- i2\n",
	"[x]: /y\n\n[x] and ![x]\n",
	"<div>\nraw\n</div>\n\npara\\\nbreak\n",
	"```\nfence\n```\n\n***\n\nsetext\n---\n",
	"a &amp; b\x00c\r\nd\n",
	"<span title=\"x\">\ntext\n\n</em>\n",
	"<custom-element a=b>\n\n> <b\n> c=\"d\">\n",
	"1. one\n2. two\n\n   three\n\t- four\n",
	"![i *e*](/s \"t\") <http://x.y> <m@x.y>\n",
}

// opTuples: operation tuples whose callers may run concurrently per C19: parses of distinct inputs, and
// render / format / walk of one shared tree (a renderer value shared by the callers, or one each).
func opTuples(n int, src *inputSource, count int) [][]concOp {
	var docs []*concDoc
	for _, s := range concDocSources {
		docs = append(docs, newConcDoc(s))
	}
	worldDocs = append(worldDocs, docs...)
	var out [][]concOp
	for len(out) < count {
		k := len(out)
		var t []concOp
		switch k % 4 {
		case 0, 1: // consumers of one shared tree
			d := docs[(k/4)%len(docs)]
			preds := []string{"script", "gfm", "em-p"}
			shared := &commonmark.HTMLRenderer{ReferenceMap: d.refs, FilterTag: gatingFilter(concPreds[preds[src.rng.Intn(3)]])}
			if k%8 == 5 && !raceMode {
				// every caller walks the shared tree through ONE WalkOptions value
				opts := sharedWalkOptions()
				for i := 0; i < n; i++ {
					t = append(t, copWalkSharedOpts(d, opts))
				}
				break
			}
			for i := 0; i < n; i++ {
				switch src.rng.Intn(6) {
				case 0:
					t = append(t, copRender(d, shared, "shared"))
				case 1:
					p := preds[src.rng.Intn(3)]
					r := &commonmark.HTMLRenderer{ReferenceMap: d.refs, FilterTag: gatingFilter(concPreds[p]),
						SoftBreakBehavior: commonmark.SoftBreakBehavior(src.rng.Intn(3)), IgnoreRaw: src.rng.Intn(4) == 0}
					t = append(t, copRender(d, r, "own-"+p))
				case 2:
					t = append(t, copAppend(d, shared, "shared"))
				case 3:
					t = append(t, copFormat(d, src.rng.Intn(2) == 0))
				case 4:
					if i == 0 && src.rng.Intn(2) == 0 {
						t = append(t, copWalkAbort(d, 1+src.rng.Intn(4)))
					} else {
						t = append(t, copWalk(d))
					}
				default:
					r := &commonmark.HTMLRenderer{ReferenceMap: d.refs, SoftBreakBehavior: commonmark.SoftBreakBehavior(src.rng.Intn(3))}
					t = append(t, copRender(d, r, "nofilter"))
				}
			}
		case 2: // parses of distinct inputs
			perm := src.rng.Perm(len(concParseInputs))
			initArena()
			for i := 0; i < n; i++ {
				in := []byte(concParseInputs[perm[i]])
				if (k/4)%2 == 1 {
					in = arenaInputs[(k/4+i)%len(arenaInputs)] // distinct inputs that share one backing array
				}
				if src.rng.Intn(3) == 0 {
					t = append(t, copParseMem(in))
				} else {
					t = append(t, copParseStream(in, 1+src.rng.Intn(7)))
				}
			}
		default: // mixed: parse next to consumers of a tree
			d := docs[(k/4+1)%len(docs)]
			perm := src.rng.Perm(len(concParseInputs))
			for i := 0; i < n; i++ {
				if i%2 == 0 {
					t = append(t, copParseStream([]byte(concParseInputs[perm[i]]), 2+src.rng.Intn(5)))
				} else {
					r := &commonmark.HTMLRenderer{ReferenceMap: d.refs, FilterTag: gatingFilter(concPreds["gfm"])}
					t = append(t, copRender(d, r, "own-gfm"))
				}
			}
		}
		out = append(out, t)
	}
	return out
}

// ---- controller

type concTrace struct {
	Solo  [][]int  `json:"solo"`
	SFin  []int    `json:"sfin"`
	Evs   [][2]int `json:"evs"`
	Fin   []int    `json:"fin"`
	Trees []int    `json:"trees"`
}

type concReplay struct {
	Kind  string   `json:"kind"`
	Tuple int      `json:"tuple"`
	N     int      `json:"n"`
	Count int      `json:"count"`
	Sched []int    `json:"sched"`
	G     int      `json:"g"`
	Jit   int64    `json:"jit"`
	Ops   []string `json:"ops"`
}

func runSolo(op concOp, id int) *caller {
	c := &caller{id: id}
	done := make(chan struct{})
	go func() {
		defer close(done)
		registerCaller(c)
		defer unregisterCaller()
		defer func() {
			if x := recover(); x != nil {
				c.pm = fmt.Sprint(x)
				c.fin = -1
			}
		}()
		c.fin = op.run(c)
	}()
	<-done
	return c
}

const gateTimeout = 30 * time.Second

// waitGate waits until c arrives at its next gate or finishes; false on timeout.
func waitGate(c *caller) bool {
	select {
	case <-c.arrive:
		return true
	case <-c.done:
		c.finished = true
		return true
	case <-time.After(gateTimeout):
		return false
	}
}

// runScheduled runs the operations as gated goroutines; steps are (caller index, number of gates to pass).
func runScheduled(ops []concOp, steps [][2]int, world func() int) (t *concTrace, hung bool) {
	t = &concTrace{}
	cs := make([]*caller, len(ops))
	t.Trees = append(t.Trees, world())
	for i, op := range ops {
		c := &caller{id: i + 1, gated: true, arrive: make(chan int), release: make(chan struct{}), done: make(chan struct{})}
		cs[i] = c
		op := op
		go func() {
			defer close(c.done)
			registerCaller(c)
			defer unregisterCaller()
			defer func() {
				if x := recover(); x != nil {
					c.pm = fmt.Sprint(x)
					c.fin = -1
				}
			}()
			c.fin = op.run(c)
		}()
		if !waitGate(c) {
			return t, true
		}
	}
	counts := make([]int, len(ops))
	last := -1
	step := func(i int) bool {
		c := cs[i]
		if c.finished {
			return true
		}
		if last != i && last >= 0 {
			t.Trees = append(t.Trees, world())
		}
		last = i
		c.release <- struct{}{}
		if !waitGate(c) {
			return false
		}
		t.Evs = append(t.Evs, [2]int{c.id, c.obs[counts[i]]})
		counts[i]++
		return true
	}
	for _, s := range steps {
		for k := 0; k < s[1]; k++ {
			if !step(s[0]) {
				return t, true
			}
		}
	}
	for {
		all := true
		for i := range cs {
			if !cs[i].finished {
				all = false
				if !step(i) {
					return t, true
				}
			}
		}
		if all {
			break
		}
	}
	t.Trees = append(t.Trees, world())
	for _, c := range cs {
		t.Fin = append(t.Fin, c.fin)
	}
	return t, false
}

// stepsFor maps a model schedule (caller ids, g model gates per caller) onto the real gate counts:
// model gate m of caller c stands for the real gates between two cut points; proportional cuts, or seeded ones.
func stepsFor(sched []int, g int, real []int, jit int64) [][2]int {
	cuts := make([][]int, len(real))
	for c, n := range real {
		cuts[c] = make([]int, g+1)
		for m := 0; m <= g; m++ {
			cuts[c][m] = m * n / g
		}
		if jit != 0 && n > g {
			rng := newSource(jit + int64(c)).rng
			perm := rng.Perm(n - 1)[:g-1]
			sortInts(perm)
			for m := 1; m < g; m++ {
				cuts[c][m] = perm[m-1] + 1
			}
		}
	}
	pos := make([]int, len(real))
	var steps [][2]int
	for _, c1 := range sched {
		c := c1 - 1
		if c >= len(real) {
			continue
		}
		m := pos[c]
		pos[c]++
		if m >= g {
			continue
		}
		k := cuts[c][m+1] - cuts[c][m]
		if k > 0 {
			if len(steps) > 0 && steps[len(steps)-1][0] == c {
				steps[len(steps)-1][1] += k
			} else {
				steps = append(steps, [2]int{c, k})
			}
		}
	}
	return steps
}

func sortInts(s []int) {
	for i := 1; i < len(s); i++ {
		for j := i; j > 0 && s[j] < s[j-1]; j-- {
			s[j], s[j-1] = s[j-1], s[j]
		}
	}
}

type concSched struct {
	N     int   `json:"n"`
	G     int   `json:"g"`
	Sched []int `json:"sched"`
}

func cmdConc(args []string) *Result {
	res := newResult()
	if len(args) < 2 {
		die("usage: conc model <tlc outputs...> <base> | regen <base> <replay> | race <seconds>")
	}
	thorough := os.Getenv("VERIF_TIER") == "thorough"
	if args[0] == "race" {
		secs, _ := strconv.Atoi(args[1])
		raceMode = true
		return concRace(res, time.Duration(secs)*time.Second)
	}
	installYieldHook()
	var sw *shardWriter
	tuplesPer := 3
	if thorough {
		tuplesPer = 24
	}
	runCase := func(rp *concReplay, tuple []concOp, worldDigest func() int) {
		solo := make([]*caller, len(tuple))
		real := make([]int, len(tuple))
		for i, op := range tuple {
			solo[i] = runSolo(op, i+1)
			real[i] = len(solo[i].obs)
			if solo[i].pm != "" {
				res.addCandidate(Candidate{Sig: map[string]any{"class": "panic", "op": op.name}, Record: map[string]any{"kind": "conc", "rp": rp},
					What: "operation " + op.name + " panicked when run alone: " + solo[i].pm})
				return
			}
		}
		steps := stepsFor(rp.Sched, rp.G, real, rp.Jit)
		t, hung := runScheduled(tuple, steps, worldDigest)
		res.Evaluations++
		if hung {
			res.addCandidate(Candidate{Sig: map[string]any{"class": "hang", "ops": rp.Ops}, Record: map[string]any{"kind": "conc", "rp": rp},
				What: fmt.Sprintf("operations %v under schedule %v: a caller did not reach its next gate within %v", rp.Ops, rp.Sched, gateTimeout)})
			return
		}
		for i := range tuple {
			t.Solo = append(t.Solo, solo[i].obs)
			t.SFin = append(t.SFin, solo[i].fin)
		}
		sw.write(t, rp)
		res.Traces++
		if len(steps) >= 3 {
			res.nontrivialKey(fmt.Sprint(rp.Ops, steps))
		}
		if len(steps) >= 4 && len(t.Evs) < 200 && len(res.Samples) < 6 {
			res.sample(map[string]any{"ops": rp.Ops, "model_schedule": rp.Sched, "real_steps_caller_gates": steps, "gates_per_caller": real})
		}
	}
	switch args[0] {
	case "model":
		base := args[len(args)-1]
		sw = newShardWriter(base, envInt("VERIF_SHARDS", 8))
		defer sw.close()
		var scheds []concSched
		for _, path := range args[1 : len(args)-1] {
			forEachTLCRecord(path, func(raw []byte) {
				var s concSched
				mustUnmarshal(raw, &s)
				scheds = append(scheds, s)
			})
		}
		src := newSource(19)
		byN := map[int][][]concOp{}
		for _, n := range []int{2, 3} {
			byN[n] = opTuples(n, newSource(190+int64(n)), tuplesPer)
		}
		wd := worldDigestFn()
		for si, s := range scheds {
			tuples := byN[s.N]
			if tuples == nil {
				continue
			}
			// every schedule runs on a rotating subset of the tuples (all of them in the thorough tier)
			per := 2
			if thorough {
				per = 6
			}
			for j := 0; j < per; j++ {
				ti := (si*per + j) % len(tuples)
				jit := int64(0)
				if j%2 == 1 {
					jit = src.rng.Int63n(1 << 30)
				}
				names := make([]string, len(tuples[ti]))
				for i, op := range tuples[ti] {
					names[i] = op.name
				}
				runCase(&concReplay{Kind: "conc", Tuple: ti, N: s.N, Count: tuplesPer, Sched: s.Sched, G: s.G, Jit: jit, Ops: names}, tuples[ti], wd)
			}
		}
		res.Extra["schedules"] = len(scheds)
	case "regen":
		sw = newShardWriter(args[1], envInt("VERIF_SHARDS", 1))
		defer sw.close()
		f, err := os.Open(args[2])
		if err != nil {
			die("%v", err)
		}
		sc := bufio.NewScanner(f)
		sc.Buffer(make([]byte, 1<<24), 1<<28)
		cache := map[string][][]concOp{}
		wd := worldDigestFn()
		for sc.Scan() {
			var rp concReplay
			mustUnmarshal(sc.Bytes(), &rp)
			key := fmt.Sprint(rp.N, rp.Count)
			if cache[key] == nil {
				cache[key] = opTuples(rp.N, newSource(190+int64(rp.N)), rp.Count)
			}
			runCase(&rp, cache[key][rp.Tuple], wd)
		}
	}
	return res
}

// worldDigestFn: digest of everything the callers share read-only (the documents behind opTuples are rebuilt from the
// same sources, so a fresh parse of each source is the reference; inputs of parse operations are string constants).
var worldDocs []*concDoc

func worldDigestFn() func() int {
	return func() int {
		h := 0
		for _, d := range worldDocs {
			h = h*31 + d.digest()
		}
		if sharedArena != nil && !bytes.Equal(sharedArena, sharedArenaOrig) {
			h ^= 0x5555 // a parse wrote outside its own input
		}
		return h & 0xfffffff
	}
}

// twinWorldDigest is worldDigestFn computed on fresh parses of the sources of the shared documents.
func twinWorldDigest() int {
	h := 0
	for _, d := range worldDocs {
		h = h*31 + newConcDoc(string(d.src)).digest()
	}
	if sharedArena != nil && !bytes.Equal(sharedArena, sharedArenaOrig) {
		h ^= 0x5555
	}
	return h & 0xfffffff
}

// ---- free-running race stress

// raceDocSources: documents whose consumers touch rarely used paths: a NUL in a fenced code block's info string (its text is
// computed from a Source that was rewritten after parsing), list markers 7 to 9 digits wide (indentation wider than any
// precomputed string), deep nesting, long lines.
var raceDocSources = []string{
	"```i\x00j k\ncode\x00\n```\n\n~~~ \x00\n~~~\n",
	"1234567. x\n         y\n\n123456789) z\n           - w\n",
	"> > > > > > > > deep *e* `c` [l](/u)\n",
	"- a\n  - b\n    - c\n      - d\n        - e\n          - f\n            1. g\n",
	"[r\x00s]: /u\x00 \"t\x00\"\n\n[x][r\x00s] ![r\ufffds]\n",
	strings.Repeat("word &amp; <b> *e* ", 200) + "\n",
}

// Cold rounds. Whatever the library initialises, caches or grows on FIRST use must be first used by several goroutines at
// the same time, and nothing in the harness may order the goroutines in between: no fmt (its sync.Pool hands happens-before
// edges from goroutine to goroutine), no locks, no channels - one barrier per round, results hashed with FNV.
func fnvOf(p []byte) uint32 {
	h := uint32(2166136261)
	for _, b := range p {
		h = (h ^ uint32(b)) * 16777619
	}
	return h
}

// coldConsumer k of a shared document: render (several configurations), format (both writer flavours), walk.
func coldConsumer(d *concDoc, k int) uint32 {
	switch k % 6 {
	case 0, 1, 2:
		r := &commonmark.HTMLRenderer{ReferenceMap: d.refs, SoftBreakBehavior: commonmark.SoftBreakBehavior(k % 3), IgnoreRaw: k%6 == 2}
		if k%6 == 1 {
			r.FilterTag = concPreds["gfm"]
		}
		var buf bytes.Buffer
		if r.Render(&buf, d.blocks) != nil {
			return 1
		}
		return fnvOf(buf.Bytes())
	case 3:
		var out []byte
		r := &commonmark.HTMLRenderer{ReferenceMap: d.refs, FilterTag: concPreds["script"]}
		for _, b := range d.blocks {
			out = r.AppendBlock(out, b)
		}
		return fnvOf(out)
	case 4:
		var buf bytes.Buffer
		if format.Format(&buf, d.blocks) != nil {
			return 1
		}
		return fnvOf(buf.Bytes())
	default:
		h := uint32(7)
		for _, b := range d.blocks {
			commonmark.Walk(b.AsNode(), &commonmark.WalkOptions{
				Pre: func(c *commonmark.Cursor) bool {
					h = h*31 + uint32(c.Index()+2)
					if in := c.Node().Inline(); in != nil {
						h = h*31 + fnvOf([]byte(in.Text(b.Source))) + uint32(in.Kind())
					}
					return true
				},
				Post: func(c *commonmark.Cursor) bool { h = h*17 + 1; return true },
			})
		}
		return h
	}
}

func coldParse(in []byte) uint32 {
	blocks, refs := commonmark.Parse(in)
	r := &commonmark.HTMLRenderer{ReferenceMap: refs}
	var out []byte
	for _, b := range blocks {
		out = r.AppendBlock(out, b)
		out = append(out, byte(b.StartLine), byte(b.StartOffset), byte(b.EndOffset))
	}
	return fnvOf(out)
}

// coldRounds runs rounds 0..rounds-1; in every round all n goroutines wait at a barrier and then call f(round, g) at once.
func coldRounds(rounds, n int, f func(round, g int) uint32) [][]uint32 {
	got := make([][]uint32, rounds)
	for r := 0; r < rounds; r++ {
		got[r] = make([]uint32, n)
		start := make(chan struct{})
		var wg sync.WaitGroup
		for g := 0; g < n; g++ {
			wg.Add(1)
			go func(g int) {
				defer wg.Done()
				defer func() {
					if recover() != nil {
						got[r][g] = 0xdead
					}
				}()
				<-start
				got[r][g] = f(r, g)
			}(g)
		}
		close(start)
		wg.Wait()
	}
	return got
}

func concRace(res *Result, dur time.Duration) *Result {
	n := runtime.GOMAXPROCS(0)
	if n < 4 {
		n = 4
	}
	// cold phase 0: the first use of the parser in this process is concurrent, every goroutine on an input of its own
	var parseIns [][]byte
	for _, s := range append(append([]string(nil), raceDocSources...), concParseInputs...) {
		parseIns = append(parseIns, []byte(s))
	}
	for _, ex := range specExamples() {
		parseIns = append(parseIns, []byte(ex))
	}
	parseRounds := (len(parseIns) + n - 1) / n
	coldP := coldRounds(parseRounds, n, func(r, g int) uint32 { return coldParse(parseIns[(r*n+g)%len(parseIns)]) })
	// cold phase 1: the first use of every shared tree - and of the renderer, the formatter and Walk in this process - is
	// concurrent: all goroutines consume the same document at once, in different ways
	var coldDocs []*concDoc
	for _, s := range append(append([]string(nil), raceDocSources...), concDocSources...) {
		coldDocs = append(coldDocs, newConcDoc(s))
	}
	for i, ex := range specExamples() {
		if i%5 == 0 {
			coldDocs = append(coldDocs, newConcDoc(ex))
		}
	}
	worldDocs = append(worldDocs, coldDocs...)
	coldC := coldRounds(len(coldDocs), n, func(r, g int) uint32 { return coldConsumer(coldDocs[r], g) })
	// cold phase 2: the root blocks of one streamed document are rewritten at the same time by goroutines that share ONE
	// InlineParser value (it holds nothing but the read-only reference matcher - the way a caller spreads inline parsing
	// of a long document over its cores)
	type streamed struct {
		blocks []*commonmark.RootBlock
		refs   commonmark.ReferenceMap
	}
	streamDoc := func(src string) streamed {
		p := commonmark.NewBlockParser(bytes.NewReader([]byte(src)))
		st := streamed{refs: make(commonmark.ReferenceMap)}
		for {
			b, err := p.NextBlock()
			if err != nil {
				return st
			}
			st.blocks = append(st.blocks, b)
			st.refs.Extract(b.Source, b.AsNode())
		}
	}
	rewriteSrc := strings.Repeat("- a *b* [r]\n- c `d`\n  - e **f**\n  - g\n\n> q _h_\n> - i ![r]\n\n[r]: /u\n\npara <b> &amp; x\n\n", 4)
	sd := streamDoc(rewriteSrc)
	ip := &commonmark.InlineParser{ReferenceMatcher: sd.refs}
	renderOne := func(refs commonmark.ReferenceMap, b *commonmark.RootBlock) uint32 {
		r := &commonmark.HTMLRenderer{ReferenceMap: refs}
		return fnvOf(r.AppendBlock(nil, b))
	}
	rewriteRounds := (len(sd.blocks) + n - 1) / n
	coldR := coldRounds(rewriteRounds, n, func(r, g int) uint32 {
		k := r*n + g
		if k >= len(sd.blocks) {
			return 0
		}
		ip.Rewrite(sd.blocks[k])
		return renderOne(sd.refs, sd.blocks[k])
	})
	// cold phase 3: all goroutines walk the same tree through ONE WalkOptions value whose callbacks touch nothing shared
	// (a visitor kept in a package-level variable); each checks the cursor it is handed for consistency
	var walkBad int32
	pureOpts := &commonmark.WalkOptions{
		Pre: func(c *commonmark.Cursor) bool {
			if c.Index() >= 0 && c.Parent().Child(c.Index()) != c.Node() {
				walkBad = 1 // only ever written when the property is already broken
			}
			return true
		},
		Post: func(c *commonmark.Cursor) bool { return true },
	}
	coldW := coldRounds(len(coldDocs), n, func(r, g int) uint32 {
		for _, b := range coldDocs[r].blocks {
			commonmark.Walk(b.AsNode(), pureOpts)
		}
		return 1
	})
	// the sequential references, computed afterwards on fresh parses of the same sources
	var coldBad []string
	if walkBad != 0 {
		coldBad = append(coldBad, "a cursor handed to a callback of a WalkOptions value shared by concurrent walks was inconsistent (Parent().Child(Index()) != Node())")
	}
	for r := range coldW {
		for g := range coldW[r] {
			if coldW[r][g] != 1 {
				coldBad = append(coldBad, "a walk through a shared WalkOptions value panicked")
			}
		}
	}
	{
		twin := streamDoc(rewriteSrc)
		tip := &commonmark.InlineParser{ReferenceMatcher: twin.refs}
		for k, b := range twin.blocks {
			tip.Rewrite(b)
			if w := renderOne(twin.refs, b); coldR[k/n][k%n] != w {
				coldBad = append(coldBad, fmt.Sprintf("root block %d rewritten concurrently through a shared InlineParser renders %d, sequentially %d", k, coldR[k/n][k%n], w))
			}
		}
	}
	for r := range coldP {
		for g := range coldP[r] {
			in := parseIns[(r*n+g)%len(parseIns)]
			if w := coldParse(append([]byte(nil), in...)); coldP[r][g] != w {
				coldBad = append(coldBad, fmt.Sprintf("first concurrent parse of %.40q gave %d, sequential %d", in, coldP[r][g], w))
			}
		}
	}
	for r := range coldC {
		twin := newConcDoc(string(coldDocs[r].src))
		for g := range coldC[r] {
			if w := coldConsumer(twin, g); coldC[r][g] != w {
				coldBad = append(coldBad, fmt.Sprintf("first concurrent use (consumer %d) of the tree of %.40q gave %d, sequential on a fresh parse %d", g%6, coldDocs[r].src, coldC[r][g], w))
			}
		}
	}
	// warm phase: operation tuples as in the gated replays, free-running
	src := newSource(77)
	tuples := opTuples(3, src, 24)
	var ops []concOp
	for _, t := range tuples {
		ops = append(ops, t...)
	}
	initArena()
	for _, in := range arenaInputs {
		ops = append(ops, copParseMem(in))
	}
	for i := 0; i < 3; i++ {
		ops = append(ops, copWalkAbort(newConcDoc(concDocSources[i]), 2+i))
	}
	for i, s := range raceDocSources {
		d := newConcDoc(s)
		worldDocs = append(worldDocs, d)
		r := &commonmark.HTMLRenderer{ReferenceMap: d.refs, FilterTag: concPreds["gfm"], SoftBreakBehavior: commonmark.SoftBreakBehavior(i % 3)}
		ops = append(ops, copRender(d, r, "race"), copFormat(d, i%2 == 0), copWalk(d))
	}
	// every spec example: parsed (both routes) by several goroutines at once, and its tree rendered / formatted / walked
	for i, ex := range specExamples() {
		in := []byte(ex)
		ops = append(ops, copParseMem(in))
		if i%3 == 0 {
			ops = append(ops, copParseStream(in, 1+i%9))
		}
		if i%4 == 0 {
			d := newConcDoc(ex)
			worldDocs = append(worldDocs, d)
			r := &commonmark.HTMLRenderer{ReferenceMap: d.refs, FilterTag: concPreds["gfm"], SoftBreakBehavior: commonmark.SoftBreakBehavior(i % 3)}
			ops = append(ops, copRender(d, r, "spec-gfm"), copFormat(d, i%8 == 0), copWalk(d))
		}
	}
	worldBefore := twinWorldDigest()
	want := make([]int, len(ops))
	for i, op := range ops {
		want[i] = runSolo(op, 1).fin
	}
	before := worldBefore
	var mu sync.Mutex
	execs := 0
	var bad []string
	execs += len(coldP)*n + len(coldC)*n + len(sd.blocks)
	for _, b := range coldBad {
		if len(bad) < 20 {
			bad = append(bad, b)
		}
	}
	var wg sync.WaitGroup
	deadline := time.Now().Add(dur)
	for g := 0; g < n; g++ {
		wg.Add(1)
		go func(g int) {
			defer wg.Done()
			local := 0
			for i := g; time.Now().Before(deadline); i++ {
				k := (i*7 + g) % len(ops)
				c := &caller{id: g}
				var got int
				func() {
					defer func() {
						if x := recover(); x != nil {
							got = -1
							c.pm = fmt.Sprint(x)
						}
					}()
					got = ops[k].run(c)
				}()
				local++
				if got != want[k] {
					mu.Lock()
					if len(bad) < 20 {
						bad = append(bad, fmt.Sprintf("%s: concurrent result %d, sequential result %d %s", ops[k].name, got, want[k], c.pm))
					}
					mu.Unlock()
				}
			}
			mu.Lock()
			execs += local
			mu.Unlock()
		}(g)
	}
	wg.Wait()
	after := worldDigestFn()()
	res.Evaluations = execs
	res.Traces = 0
	res.Nontrivial = len(ops)
	res.Extra["race_goroutines"] = n
	res.Extra["race_executions"] = execs
	for _, b := range bad {
		res.addCandidate(Candidate{Sig: map[string]any{"class": "concurrent-result-differs"}, Record: map[string]any{"kind": "conc-race"}, What: b})
	}
	if before != after {
		res.addCandidate(Candidate{Sig: map[string]any{"class": "shared-tree-mutated"}, Record: map[string]any{"kind": "conc-race"}, What: "the shared trees changed during the concurrent run"})
	}
	return res
}
