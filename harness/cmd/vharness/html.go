package main

import (
	"bufio"
	"bytes"
	"fmt"
	"hash/fnv"
	"os"

	"zombiezen.com/go/commonmark"
)

// C07: record rendered outputs (raw HTML ignored, or absent) for Html.tla.
//
//   html c07 <base>                      explore -> <base>.<k>
//   html regen <base> <replay.ndjson>    regenerate the outputs of the given replay records

func init() { register("html", cmdHTML) }

type htmlTrace struct {
	Out []int `json:"out"`
}

type htmlReplay struct {
	Kind  string `json:"kind"`
	Input []int  `json:"input"`
	Soft  int    `json:"soft"`
	Raw   int    `json:"raw"` // 1 = IgnoreRaw false (only for documents without raw HTML nodes)
}

func hasRawHTML(n commonmark.Node) bool {
	switch kindCode(n) {
	case kHTMLBlock, kHTMLTag, kRawHTML:
		return true
	}
	for i, c := 0, n.ChildCount(); i < c; i++ {
		if hasRawHTML(n.Child(i)) {
			return true
		}
	}
	return false
}

func renderWith(input []byte, soft int, ignoreRaw bool, filter func([]byte) bool) (out []byte, anyRaw bool, pm string) {
	defer func() {
		if r := recover(); r != nil {
			pm = fmt.Sprint(r)
		}
	}()
	blocks, refs := commonmark.Parse(append([]byte(nil), input...))
	for _, b := range blocks {
		if hasRawHTML(b.AsNode()) {
			anyRaw = true
		}
	}
	r := &commonmark.HTMLRenderer{ReferenceMap: refs, SoftBreakBehavior: commonmark.SoftBreakBehavior(soft), IgnoreRaw: ignoreRaw, FilterTag: filter}
	var buf bytes.Buffer
	if err := r.Render(&buf, blocks); err != nil {
		pm = "render error: " + err.Error()
	}
	return buf.Bytes(), anyRaw, pm
}

// attrDocs: attribute-bearing constructs filled with every string <= n over a hostile alphabet.
func attrDocs(n int, emit func([]byte)) {
	templates := []string{"![%s](x)", "![a](%s)", "![a](x \"%s\")", "[a](<%s>)", "[a](x '%s')", "``` %s\nc\n```", "<%s>", "[a][r]\n\n[r]: %s 't'", "[a][r]\n\n[r]: x \"%s\"", "![%s][r]\n\n[r]: x", "![*%s*](x)", "![[%s](y)](x)", "![`%s`](x)"}
	exhaustive([]string{"<", ">", "&", "\"", "'", "a", " ", "\\", "=", "/"}, n, func(s []byte) {
		for _, t := range templates {
			emit([]byte(fmt.Sprintf(t, s)))
		}
	})
	for _, e := range []string{"&amp;", "&#34;", "&quot;", "&lt;", "&ltx;", "&#xG;", "&#x3C;", "&#0;", "&nbsp", "&copy;x", "\x00", "\xff", "é", "\n", "a\nb", "a  \nb", "<b>", "<!-- -->", "`", "``"} {
		for _, t := range templates {
			emit([]byte(fmt.Sprintf(t, e)))
			emit([]byte(fmt.Sprintf(t, "\""+e)))
			emit([]byte(fmt.Sprintf(t, e+"\" onerror=\"x")))
		}
	}
}

func cmdHTML(args []string) *Result {
	res := newResult()
	if len(args) < 2 {
		die("usage: html c07|regen base [replay]")
	}
	sw := newShardWriter(args[1], envInt("VERIF_SHARDS", 8))
	defer sw.close()
	seenOut := map[uint64]struct{}{}
	record := func(input []byte, soft int, raw int, dedupe bool) {
		out, anyRaw, pm := renderWith(input, soft, raw == 0, nil)
		rp := &htmlReplay{Kind: "c07", Input: ints(input), Soft: soft, Raw: raw}
		if pm != "" {
			res.addCandidate(Candidate{Sig: map[string]any{"input": ints(input), "class": "panic"}, Record: map[string]any{"kind": "c07", "input": ints(input), "soft": soft, "raw": raw}, What: fmt.Sprintf("%q: %s", input, pm)})
			return
		}
		if raw == 1 && anyRaw {
			return // outside the property's quantifier
		}
		res.Evaluations++
		if dedupe {
			h := fnv.New64a()
			h.Write(out)
			k := h.Sum64()
			if _, ok := seenOut[k]; ok {
				return
			}
			seenOut[k] = struct{}{}
		}
		sw.write(&htmlTrace{Out: ints(out)}, rp)
		res.Traces++
		if bytes.Contains(out, []byte("=\"")) {
			res.nontrivialKey(string(out))
			if len(out) < 120 && bytes.Contains(out, []byte("&quot;")) {
				res.sample(map[string]any{"input": string(input), "soft": soft, "ignoreRaw": raw == 0, "out": string(out)})
			}
		}
	}
	switch args[0] {
	case "regen":
		f, err := os.Open(args[2])
		if err != nil {
			die("%v", err)
		}
		sc := bufio.NewScanner(f)
		sc.Buffer(make([]byte, 1<<22), 1<<26)
		for sc.Scan() {
			var r htmlReplay
			mustUnmarshal(sc.Bytes(), &r)
			record(bytesOf(r.Input), r.Soft, r.Raw, false)
		}
	case "c07":
		thorough := os.Getenv("VERIF_TIER") == "thorough"
		emit := func(doc []byte) {
			d := append([]byte(nil), doc...)
			for soft := 0; soft < 3; soft++ {
				record(d, soft, 0, true)
			}
			record(d, int(seed())%3, 1, true)
		}
		n := 3
		if thorough {
			n = 4
		}
		attrDocs(n, emit)
		for _, ex := range specExamples() {
			emit([]byte(ex))
		}
		src := newSource(7)
		m := 6000
		if thorough {
			m = 200000
		}
		src.mixed(m, emit)
		src.structured(thorough, emit)
		fragmentProducts(2, fragments, emit)
	}
	return res
}
