package main

import (
	"bufio"
	"bytes"
	"fmt"
	"hash/fnv"
	"os"

	"zombiezen.com/go/commonmark"
)

// C07: record rendered outputs (raw HTML ignored, or absent) for Html.tla.
//
//   html c07 <base>                      explore -> <base>.<k>
//   html regen <base> <replay.ndjson>    regenerate the outputs of the given replay records

func init() { register("html", cmdHTML) }

type htmlTrace struct {
	Out []int `json:"out"`
}

type htmlReplay struct {
	Kind  string `json:"kind"`
	Input []int  `json:"input"`
	Soft  int    `json:"soft"`
	Raw   int    `json:"raw"`             // 1 = IgnoreRaw false (only for documents without raw HTML nodes)
	Filt  int    `json:"filt,omitempty"`  // FilterTag: 0 nil, 1 GFM, 2 rejects every tag, 3 rejects none - with IgnoreRaw set none of them may matter
	Route int    `json:"route,omitempty"` // 1 = blocks read one line per Read through NewBlockParser, all kept, rewritten and rendered after the last one was returned; 2 = each block rewritten as soon as it is returned, rendered at the end
}

func c07Filter(k int) func([]byte) bool {
	switch k {
	case 1:
		return commonmark.FilterTagGFM
	case 2:
		return func([]byte) bool { return false }
	case 3:
		return func([]byte) bool { return true }
	}
	return nil
}

func hasRawHTML(n commonmark.Node) bool {
	switch kindCode(n) {
	case kHTMLBlock, kHTMLTag, kRawHTML:
		return true
	}
	for i, c := 0, n.ChildCount(); i < c; i++ {
		if hasRawHTML(n.Child(i)) {
			return true
		}
	}
	return false
}

func renderWith(input []byte, soft int, ignoreRaw bool, filter func([]byte) bool, route int) (out []byte, anyRaw bool, pm string) {
	defer func() {
		if r := recover(); r != nil {
			pm = fmt.Sprint(r)
		}
	}()
	var blocks []*commonmark.RootBlock
	var refs commonmark.ReferenceMap
	if route == 1 {
		blocks, refs, _ = streamParseFrom(&lineReader{data: append([]byte(nil), input...)})
	} else if route == 2 {
		// every block is extracted from and rewritten as soon as NextBlock has returned it (references defined so far), kept, and
		// rendered only after the last block has been returned: spans computed early must still fit the Source at the end
		p := commonmark.NewBlockParser(&lineReader{data: append([]byte(nil), input...)})
		refs = make(commonmark.ReferenceMap)
		ip := &commonmark.InlineParser{ReferenceMatcher: refs}
		for {
			b, err := p.NextBlock()
			if err != nil {
				break
			}
			refs.Extract(b.Source, b.AsNode())
			ip.Rewrite(b)
			blocks = append(blocks, b)
		}
	} else {
		blocks, refs = commonmark.Parse(append([]byte(nil), input...))
	}
	for _, b := range blocks {
		if hasRawHTML(b.AsNode()) {
			anyRaw = true
		}
	}
	r := &commonmark.HTMLRenderer{ReferenceMap: refs, SoftBreakBehavior: commonmark.SoftBreakBehavior(soft), IgnoreRaw: ignoreRaw, FilterTag: filter}
	var buf bytes.Buffer
	if err := r.Render(&buf, blocks); err != nil {
		pm = "render error: " + err.Error()
	}
	return buf.Bytes(), anyRaw, pm
}

// attrDocs: attribute-bearing constructs filled with every string <= n over a hostile alphabet.
func attrDocs(n int, emit func([]byte)) {
	templates := []string{"![%s](x)", "![a](%s)", "![a](x \"%s\")", "[a](<%s>)", "[a](x '%s')", "``` %s\nc\n```", "<%s>", "[a][r]\n\n[r]: %s 't'", "[a][r]\n\n[r]: x \"%s\"", "![%s][r]\n\n[r]: x", "![*%s*](x)", "![[%s](y)](x)", "![`%s`](x)"}
	exhaustive([]string{"<", ">", "&", "\"", "'", "a", " ", "\\", "=", "/"}, n, func(s []byte) {
		for _, t := range templates {
			emit([]byte(fmt.Sprintf(t, s)))
		}
	})
	for _, e := range []string{"&amp;", "&#34;", "&quot;", "&lt;", "&ltx;", "&#xG;", "&#x3C;", "&#0;", "&nbsp", "&copy;x", "\x00", "\xff", "é", "\n", "a\nb", "a  \nb", "<b>", "<!-- -->", "`", "``"} {
		for _, t := range templates {
			emit([]byte(fmt.Sprintf(t, e)))
			emit([]byte(fmt.Sprintf(t, "\""+e)))
			emit([]byte(fmt.Sprintf(t, e+"\" onerror=\"x")))
		}
	}
}

func cmdHTML(args []string) *Result {
	res := newResult()
	if len(args) < 2 {
		die("usage: html c07|regen base [replay]")
	}
	sw := newShardWriter(args[1], envInt("VERIF_SHARDS", 8))
	defer sw.close()
	seenOut := map[uint64]struct{}{}
	record := func(input []byte, soft int, raw int, filt int, route int, dedupe bool) {
		out, anyRaw, pm := renderWith(input, soft, raw == 0, c07Filter(filt), route)
		rp := &htmlReplay{Kind: "c07", Input: ints(input), Soft: soft, Raw: raw, Filt: filt, Route: route}
		if pm != "" {
			res.addCandidate(Candidate{Sig: map[string]any{"input": ints(input), "class": "panic"}, Record: map[string]any{"kind": "c07", "input": ints(input), "soft": soft, "raw": raw, "filt": filt, "route": route}, What: fmt.Sprintf("%q: %s", input, pm)})
			return
		}
		if raw == 1 && anyRaw {
			return // outside the property's quantifier
		}
		res.Evaluations++
		if dedupe {
			h := fnv.New64a()
			h.Write(out)
			k := h.Sum64()
			if _, ok := seenOut[k]; ok {
				return
			}
			seenOut[k] = struct{}{}
		}
		sw.write(&htmlTrace{Out: ints(out)}, rp)
		res.Traces++
		if bytes.Contains(out, []byte("=\"")) {
			res.nontrivialKey(string(out))
			if len(out) < 120 && bytes.Contains(out, []byte("&quot;")) {
				res.sample(map[string]any{"input": string(input), "soft": soft, "ignoreRaw": raw == 0, "out": string(out)})
			}
		}
	}
	switch args[0] {
	case "regen":
		f, err := os.Open(args[2])
		if err != nil {
			die("%v", err)
		}
		sc := bufio.NewScanner(f)
		sc.Buffer(make([]byte, 1<<22), 1<<26)
		for sc.Scan() {
			var r htmlReplay
			mustUnmarshal(sc.Bytes(), &r)
			record(bytesOf(r.Input), r.Soft, r.Raw, r.Filt, r.Route, false)
		}
	case "c07":
		thorough := os.Getenv("VERIF_TIER") == "thorough"
		ndoc := 0
		emit := func(doc []byte) {
			d := append([]byte(nil), doc...)
			ndoc++
			for soft := 0; soft < 3; soft++ {
				record(d, soft, 0, 0, 0, true)
			}
			// raw HTML ignored WITH a tag filter installed (the filter must not bring raw HTML back), on blocks that came through the
			// streaming entry point line by line and were all kept until the last one had been returned
			record(d, ndoc%3, 0, 1+ndoc%3, 1+ndoc%2, true)
			record(d, int(seed())%3, 1, 0, 0, true)
		}
		n := 3
		if thorough {
			n = 4
		}
		attrDocs(n, emit)
		for _, ex := range specExamples() {
			emit([]byte(ex))
		}
		src := newSource(7)
		m := 6000
		if thorough {
			m = 200000
		}
		src.mixed(m, emit)
		src.structured(thorough, emit)
		fragmentProducts(2, fragments, emit)
	}
	return res
}
