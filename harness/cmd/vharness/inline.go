package main

import (
	"fmt"
	"strings"

	"zombiezen.com/go/commonmark"
)

// Direction A for Inline.tla: the model's nested (kind, lo, hi) structure of every generated string must be
// exactly the real parser's inline tree of the one-paragraph document  <s>\n\n[a]: /u\n .
//
//   inline <tlc outputs...>     inline --replay <file>

func init() { register("inline", cmdInline) }

type inlNode struct {
	K    string    `json:"k"`
	Lo   int       `json:"lo"`
	Hi   int       `json:"hi"`
	Kids []inlNode `json:"kids"`
}

type inlineRec struct {
	S     []int     `json:"s"`
	Nodes []inlNode `json:"nodes"`
}

var inlineNames = map[commonmark.InlineKind]string{
	commonmark.EmphasisKind: "emph", commonmark.StrongKind: "strong", commonmark.LinkKind: "link", commonmark.ImageKind: "image", commonmark.CodeSpanKind: "code",
	commonmark.AutolinkKind: "autolink", commonmark.HTMLTagKind: "html", commonmark.CharacterReferenceKind: "ent",
}

func fmtModelInl(ns []inlNode) string {
	var sb strings.Builder
	for _, n := range ns {
		fmt.Fprintf(&sb, "(%s %d %d%s)", n.K, n.Lo, n.Hi, fmtModelInl(n.Kids))
	}
	return sb.String()
}

func fmtRealInl(n commonmark.Node) string {
	var sb strings.Builder
	for i := 0; i < n.ChildCount(); i++ {
		c := n.Child(i)
		in := c.Inline()
		if in == nil {
			continue
		}
		if name, ok := inlineNames[in.Kind()]; ok {
			inner := ""
			if name != "code" && name != "autolink" && name != "html" {
				inner = fmtRealInl(c)
			}
			fmt.Fprintf(&sb, "(%s %d %d%s)", name, in.Span().Start, in.Span().End, inner)
		}
	}
	return sb.String()
}

func inlineCheck(res *Result, r *inlineRec) {
	res.Evaluations++
	src := bytesOf(r.S)
	doc := append(append([]byte(nil), src...), "\n\n[a]: /u\n"...)
	want := fmtModelInl(r.Nodes)
	got := ""
	pm := ""
	func() {
		defer func() {
			if x := recover(); x != nil {
				pm = fmt.Sprint(x)
			}
		}()
		blocks, _ := commonmark.Parse(doc)
		if len(blocks) > 0 && blocks[0].Kind() == commonmark.ParagraphKind {
			got = fmtRealInl(blocks[0].AsNode())
		} else {
			got = "<not a paragraph>"
		}
	}()
	if want != "" {
		res.nontrivialKey(string(src))
		if strings.Count(want, "(") >= 3 {
			res.sample(map[string]any{"text": string(src), "structure": want})
		}
	}
	rec := map[string]any{"kind": "inline", "rec": r}
	if pm != "" {
		res.addCandidate(Candidate{Sig: map[string]any{"input": ints(doc), "class": "panic"}, Record: rec, What: fmt.Sprintf("%q: panic %s", src, pm)})
		return
	}
	if want != got {
		res.addCandidate(Candidate{Sig: map[string]any{"input": ints(doc), "class": inlineClass(want, got)}, Record: rec,
			What: fmt.Sprintf("%q: spec %s, code %s", src, orNone(want), orNone(got))})
	}
}

func orNone(s string) string {
	if s == "" {
		return "(no nodes)"
	}
	return s
}

// inlineClass names the node kinds involved in a disagreement (for the by-class summary only).
func inlineClass(want, got string) string {
	kinds := map[string]bool{}
	for _, s := range []string{want, got} {
		for _, k := range []string{"emph", "strong", "link", "image", "code", "autolink", "html", "ent"} {
			if strings.Contains(s, "("+k+" ") {
				kinds[k] = true
			}
		}
	}
	var ks []string
	for _, k := range []string{"emph", "strong", "link", "image", "code", "autolink", "html", "ent"} {
		if kinds[k] {
			ks = append(ks, k)
		}
	}
	return "inline:" + strings.Join(ks, "+")
}

func cmdInline(args []string) *Result {
	res := newResult()
	if len(args) == 2 && args[0] == "--replay" {
		rec := readReplay(args[1])
		var r inlineRec
		mustUnmarshal([]byte(jsonString(rec["rec"])), &r)
		inlineCheck(res, &r)
		return res
	}
	res = parallelTLCRecords(args, func(res *Result, raw []byte) {
		var r inlineRec
		mustUnmarshal(raw, &r)
		inlineCheck(res, &r)
	})
	res.Traces = res.Evaluations
	return res
}
