package main

import (
	"fmt"
	"sort"
	"strings"

	"zombiezen.com/go/commonmark"
)

// C11: replay Emphasis.tla behaviours into commonmark.Parse.

var symBytes = map[string]string{
	"*": "*", "_": "_", "a": "a", " ": " ", ".": ".",
	"NBSP": " ", "LAQUO": "«", "EACUTE": "é", "FF": "\f", "TAB": "\t", "EMSP": "\u2003", "EMDASH": "\u2014", "EURO": "\u20ac",
	"[": "[", "]": "]", "(": "(", ")": ")", "!": "!", "\\": "\\", "`": "`",
	"<": "<", ">": ">", "/": "/", "\"": "\"", "-": "-", "?": "?", "&": "&", "#": "#",
	";": ";", "x": "x", "m": "m", "p": "p", "1": "1", "G": "G", "t": "t", "l": "l", ":": ":",
	"'": "'", "b": "b", "=": "=", "@": "@", "LF": "\n",
}

func init() { register("emph", cmdEmph) }

type emphRec struct {
	S []string   `json:"s"`
	P bool       `json:"p"`
	R [][][3]int `json:"r"`
}

func emphDoc(syms []string, ctx int) (doc []byte, charOfByte map[int]int) {
	var full []string
	switch ctx {
	case 1:
		full = append(append([]string{"a"}, syms...), "a")
	case 2:
		full = syms
	case 3:
		full = append(append([]string{"."}, syms...), ".")
	}
	charOfByte = map[int]int{}
	var sb strings.Builder
	for i, s := range full {
		b, ok := symBytes[s]
		if !ok {
			die("unknown symbol %q", s)
		}
		charOfByte[sb.Len()] = i + 1
		sb.WriteString(b)
	}
	charOfByte[sb.Len()] = len(full) + 1
	return []byte(sb.String()), charOfByte
}

func collectEmph(n commonmark.Node, m map[int]int, out *[][3]int, bad *bool) {
	if in := n.Inline(); in != nil {
		k := 0
		switch in.Kind() {
		case commonmark.EmphasisKind:
			k = 1
		case commonmark.StrongKind:
			k = 2
		}
		if k != 0 {
			lo, ok1 := m[in.Span().Start]
			hi, ok2 := m[in.Span().End]
			if !ok1 || !ok2 {
				*bad = true
			}
			*out = append(*out, [3]int{k, lo, hi})
		}
	}
	for i := 0; i < n.ChildCount(); i++ {
		collectEmph(n.Child(i), m, out, bad)
	}
}

func sortTriples(t [][3]int) {
	sort.Slice(t, func(i, j int) bool {
		for k := 0; k < 3; k++ {
			if t[i][k] != t[j][k] {
				return t[i][k] < t[j][k]
			}
		}
		return false
	})
}

// emphObserve parses the document and returns the emphasis structure in character positions.
func emphObserve(syms []string, ctx int) (got [][3]int, shapeOK bool, doc []byte) {
	doc, m := emphDoc(syms, ctx)
	blocks, _ := commonmark.Parse(doc)
	if len(blocks) != 1 || blocks[0].Kind() != commonmark.ParagraphKind || blocks[0].Span().Start != 0 {
		return nil, false, doc
	}
	bad := false
	collectEmph(blocks[0].AsNode(), m, &got, &bad)
	sortTriples(got)
	return got, !bad, doc
}

func cmdEmph(args []string) *Result {
	res := newResult()
	if len(args) == 2 && args[0] == "--replay" {
		rec := readReplay(args[1])
		syms := anyStrings(rec["s"])
		ctx := int(rec["ctx"].(float64))
		var want [][3]int
		wantAny, _ := rec["want"].([]any) // null when the spec procedure yields no emphasis at all
		for _, t := range wantAny {
			v := anyInts(t)
			want = append(want, [3]int{v[0], v[1], v[2]})
		}
		sortTriples(want)
		got, _, doc := emphObserve(syms, ctx)
		res.Evaluations = 1
		if fmt.Sprint(got) != fmt.Sprint(want) {
			res.addCandidate(Candidate{Sig: map[string]any{"input": ints(doc)}, What: fmt.Sprintf("%q want %v got %v", doc, want, got)})
		}
		return res
	}
	skipped := 0
	for _, path := range args {
		forEachTLCRecord(path, func(raw []byte) {
			var r emphRec
			mustUnmarshal(raw, &r)
			for ctx := 1; ctx <= 3; ctx++ {
				if ctx == 2 && !r.P {
					continue
				}
				want := append([][3]int(nil), r.R[ctx-1]...)
				sortTriples(want)
				got, ok, doc := emphObserve(r.S, ctx)
				res.Evaluations++
				if !ok && got == nil {
					skipped++
					res.addCandidate(Candidate{
						Sig:    map[string]any{"input": ints(doc), "class": "not-a-paragraph"},
						Record: map[string]any{"s": r.S, "ctx": ctx, "want": want, "doc": string(doc)},
						What:   fmt.Sprintf("%q: model says plain paragraph line, parser disagrees", doc),
					})
					continue
				}
				if len(want) > 0 {
					res.nontrivialKey(string(doc))
					if len(want) > 1 {
						res.sample(map[string]any{"doc": string(doc), "emphasis": want})
					}
				}
				if fmt.Sprint(got) != fmt.Sprint(want) {
					res.addCandidate(Candidate{
						Sig:    map[string]any{"input": ints(doc)},
						Record: map[string]any{"s": r.S, "ctx": ctx, "want": want, "got": got, "doc": string(doc)},
						What:   fmt.Sprintf("%q: spec procedure gives %v, parser gives %v", doc, want, got),
					})
				}
			}
		})
	}
	res.Traces = res.Evaluations
	res.Extra["skipped_not_paragraph"] = skipped
	return res
}
