package main

import (
	"bytes"
	"fmt"
	"io"
	"strings"

	"zombiezen.com/go/commonmark"
)

// Projection of the real tree through the public node API, by the harness's own
// recursive traversal (never commonmark.Walk, which is itself under test in C18).

// kindCode: blocks use their BlockKind value (1..12), inlines 100 + InlineKind.
func kindCode(n commonmark.Node) int {
	if b := n.Block(); b != nil {
		return int(b.Kind())
	}
	if in := n.Inline(); in != nil {
		return 100 + int(in.Kind())
	}
	return 0
}

const (
	kParagraph  = 1
	kThematic   = 2
	kATX        = 3
	kSetext     = 4
	kIndented   = 5
	kFenced     = 6
	kHTMLBlock  = 7
	kRefDef     = 8
	kQuote      = 9
	kItem       = 10
	kList       = 11
	kMarker     = 12
	kText       = 101
	kSoftBreak  = 102
	kHardBreak  = 103
	kIndent     = 104
	kCharRef    = 105
	kInfoString = 106
	kEmphasis   = 107
	kStrong     = 108
	kLink       = 109
	kImage      = 110
	kLinkDest   = 111
	kLinkTitle  = 112
	kLinkLabel  = 113
	kCodeSpan   = 114
	kAutolink   = 115
	kHTMLTag    = 116
	kRawHTML    = 117
	kUnparsed   = 118
)

// Event is [1, kind, start, end, a1, a2, a3] for enter and [2] for leave.
// blocks: a1 = HeadingLevel, a2 = bit0 ordered | bit1 tight, a3 = ListItemNumber
// inlines: a1 = IndentWidth, a2 = bit0 LinkReference()!="" | bit1 has destination | bit2 has title, a3 = 0
type Event []int

func nodeAttrs(src []byte, n commonmark.Node) (a1, a2, a3 int) {
	if b := n.Block(); b != nil {
		a1 = b.HeadingLevel()
		if b.IsOrderedList() {
			a2 |= 1
		}
		if b.IsTightList() {
			a2 |= 2
		}
		a3 = b.ListItemNumber(src)
		return
	}
	if in := n.Inline(); in != nil {
		a1 = in.IndentWidth()
		if in.LinkReference() != "" {
			a2 |= 1
		}
		if in.LinkDestination() != nil {
			a2 |= 2
		}
		if in.LinkTitle() != nil {
			a2 |= 4
		}
	}
	return
}

func treeEvents(src []byte, n commonmark.Node, out *[]Event) {
	a1, a2, a3 := nodeAttrs(src, n)
	sp := n.Span()
	*out = append(*out, Event{1, kindCode(n), sp.Start, sp.End, a1, a2, a3})
	for i, c := 0, n.ChildCount(); i < c; i++ {
		treeEvents(src, n.Child(i), out)
	}
	*out = append(*out, Event{2})
}

func rootEvents(rb *commonmark.RootBlock) []Event {
	var evs []Event
	treeEvents(rb.Source, rb.AsNode(), &evs)
	return evs
}

// dumpNode writes a canonical, complete description of a subtree (kinds, spans, accessors, texts).
func dumpNode(sb *strings.Builder, src []byte, n commonmark.Node, depth int) {
	a1, a2, a3 := nodeAttrs(src, n)
	sp := n.Span()
	fmt.Fprintf(sb, "%*s%d[%d,%d) %d %d %d", depth, "", kindCode(n), sp.Start, sp.End, a1, a2, a3)
	if in := n.Inline(); in != nil {
		if ref := in.LinkReference(); ref != "" {
			fmt.Fprintf(sb, " ref=%q", ref)
		}
		switch in.Kind() {
		case commonmark.TextKind, commonmark.RawHTMLKind, commonmark.CharacterReferenceKind, commonmark.InfoStringKind,
			commonmark.LinkDestinationKind, commonmark.LinkTitleKind, commonmark.SoftLineBreakKind, commonmark.HardLineBreakKind:
			if sp.IsValid() && sp.End <= len(src) {
				fmt.Fprintf(sb, " t=%q", in.Text(src))
			}
		}
	}
	sb.WriteByte('\n')
	for i, c := 0, n.ChildCount(); i < c; i++ {
		dumpNode(sb, src, n.Child(i), depth+1)
	}
}

// dumpRoot is the canonical string of one root block: fields, Source, tree.
func dumpRoot(rb *commonmark.RootBlock) string {
	var sb strings.Builder
	fmt.Fprintf(&sb, "root so=%d eo=%d line=%d src=%q\n", rb.StartOffset, rb.EndOffset, rb.StartLine, rb.Source)
	dumpNode(&sb, rb.Source, rb.AsNode(), 0)
	return sb.String()
}

// dumpTree is dumpRoot without the position fields of the root (for C14/C16 comparisons).
func dumpTree(rb *commonmark.RootBlock) string {
	var sb strings.Builder
	fmt.Fprintf(&sb, "src=%q\n", rb.Source)
	dumpNode(&sb, rb.Source, rb.AsNode(), 0)
	return sb.String()
}

func dumpRefMap(m commonmark.ReferenceMap) string {
	keys := make([]string, 0, len(m))
	for k := range m {
		keys = append(keys, k)
	}
	sortStrings(keys)
	var sb strings.Builder
	for _, k := range keys {
		d := m[k]
		fmt.Fprintf(&sb, "%q -> %q %q %v\n", k, d.Destination, d.Title, d.TitlePresent)
	}
	return sb.String()
}

func sortStrings(s []string) {
	for i := 1; i < len(s); i++ {
		for j := i; j > 0 && s[j] < s[j-1]; j-- {
			s[j], s[j-1] = s[j-1], s[j]
		}
	}
}

// skeletonKey is a shape hash key of a tree: kinds and nesting only.
func skeletonKey(n commonmark.Node, sb *strings.Builder) {
	fmt.Fprintf(sb, "%d(", kindCode(n))
	for i, c := 0, n.ChildCount(); i < c; i++ {
		skeletonKey(n.Child(i), sb)
	}
	sb.WriteByte(')')
}

// nontrivialTree: has at least one container block or non-text inline.
func nontrivialTree(n commonmark.Node) bool {
	k := kindCode(n)
	switch k {
	case kQuote, kList, kItem, kEmphasis, kStrong, kLink, kImage, kCodeSpan, kAutolink, kHTMLTag, kCharRef, kHardBreak, kRefDef, kFenced, kHTMLBlock, kSetext:
		return true
	}
	for i, c := 0, n.ChildCount(); i < c; i++ {
		if nontrivialTree(n.Child(i)) {
			return true
		}
	}
	return false
}

// edgeReader ends every Read right after a carriage return (the byte whose meaning depends on the byte that follows it)
// and otherwise fills the caller's buffer: the read schedule that puts every CR at the end of what has been read so far.
type edgeReader struct {
	data []byte
	pos  int
}

func (r *edgeReader) Read(p []byte) (int, error) {
	if r.pos >= len(r.data) {
		return 0, io.EOF
	}
	n := len(p)
	if n > len(r.data)-r.pos {
		n = len(r.data) - r.pos
	}
	if i := bytes.IndexByte(r.data[r.pos:r.pos+n], '\r'); i >= 0 {
		n = i + 1
	}
	copy(p, r.data[r.pos:r.pos+n])
	r.pos += n
	return n, nil
}

// streamParse parses through NewBlockParser + Extract + Rewrite (the streaming route).
func streamParse(input []byte) ([]*commonmark.RootBlock, commonmark.ReferenceMap, error) {
	return streamParseFrom(bytes.NewReader(input))
}

// streamParseEdgy is streamParse over an edgeReader.
func streamParseEdgy(input []byte) ([]*commonmark.RootBlock, commonmark.ReferenceMap, error) {
	return streamParseFrom(&edgeReader{data: input})
}
