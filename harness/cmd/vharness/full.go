package main

import (
	"bytes"
	"fmt"
	"html"
	"os"
	"path/filepath"
	"regexp"
	"strings"

	"zombiezen.com/go/commonmark"
)

// Direction A for Full.tla (the composed model: Blocks.tla o Inline.tla o HTML mapping). For every generated
// document the model's block skeleton, the inline structure of every paragraph / heading (source offsets) and
// the HTML of every root block must be what the real Parse + AppendBlock produce.
//
//   full <tlc outputs...>      full --replay <file>
//
// The HTML is compared after normEdge on both sides: the model drops spaces and tabs at line edges inside
// paragraphs as the spec says, the implementation keeps them in its text nodes (named deviation LineEdgeSpace,
// see Full.tla) - no listed property distinguishes the two.

func init() { register("full", cmdFull) }

type fullRec struct {
	Src  []int       `json:"src"`
	Tree []skelNode  `json:"tree"`
	Inl  [][]inlNode `json:"inl"`
	HTML [][]int     `json:"html"`
	HCfg [][][]int   `json:"hcfg"` // HTML per root block under: soft breaks as spaces, soft breaks hardened, IgnoreRaw
}

var fullInlineNames = map[commonmark.InlineKind]string{
	commonmark.EmphasisKind: "emph", commonmark.StrongKind: "strong", commonmark.LinkKind: "link", commonmark.ImageKind: "image", commonmark.CodeSpanKind: "code",
	commonmark.AutolinkKind: "autolink", commonmark.HTMLTagKind: "html", commonmark.CharacterReferenceKind: "ent",
	commonmark.SoftLineBreakKind: "soft", commonmark.HardLineBreakKind: "hard",
}

func fmtRealInlFull(n commonmark.Node, base int) string {
	var sb strings.Builder
	for i := 0; i < n.ChildCount(); i++ {
		c := n.Child(i)
		in := c.Inline()
		if in == nil {
			continue
		}
		if name, ok := fullInlineNames[in.Kind()]; ok {
			inner := ""
			if name == "emph" || name == "strong" || name == "link" || name == "image" {
				inner = fmtRealInlFull(c, base)
			}
			fmt.Fprintf(&sb, "(%s %d %d%s)", name, base+in.Span().Start, base+in.Span().End, inner)
		}
	}
	return sb.String()
}

// realLeafInl lists the inline structure of every paragraph / heading of the block, in document order.
func realLeafInl(b *commonmark.Block, base int, out *[]string) {
	switch b.Kind() {
	case commonmark.ParagraphKind, commonmark.ATXHeadingKind, commonmark.SetextHeadingKind:
		*out = append(*out, fmtRealInlFull(b.AsNode(), base))
		return
	}
	for i := 0; i < b.ChildCount(); i++ {
		if cb := b.Child(i).Block(); cb != nil {
			realLeafInl(cb, base, out)
		}
	}
}

var (
	reEdge     = regexp.MustCompile(`[ \t]*(\r\n|\r|\n)[ \t]*`)
	reBlockEnd = regexp.MustCompile(`[ \t\r\n]+(</?(?:p|li|ul|ol|blockquote|h[1-6]|pre|hr)\b)`)
)

// normEdge drops spaces and tabs next to a line ending, and white space before a block-level tag, outside <pre>.
func normEdge(s string) string {
	var sb strings.Builder
	for len(s) > 0 {
		i := strings.Index(s, "<pre")
		if i < 0 {
			sb.WriteString(normEdgePiece(s))
			break
		}
		// white space in front of <pre is white space before a block-level tag (the piece ends there, so reBlockEnd does not see it)
		sb.WriteString(strings.TrimRight(normEdgePiece(s[:i]), " \t\r\n"))
		j := strings.Index(s[i:], "</pre>")
		if j < 0 {
			sb.WriteString(s[i:])
			break
		}
		sb.WriteString(s[i : i+j+6])
		s = s[i+j+6:]
	}
	return sb.String()
}

// reAlt: in an image description a line ending has become a space, so the kept line-edge spaces (deviation LineEdgeSpace) are a
// run of spaces inside the alt attribute: runs are collapsed there, on both sides.
var reAlt = regexp.MustCompile(`alt="[^"]*"`)

func normEdgePiece(s string) string {
	s = reAlt.ReplaceAllStringFunc(s, func(a string) string { return reSpaces.ReplaceAllString(a, " ") })
	s = reEdge.ReplaceAllString(s, "$1")
	return reBlockEnd.ReplaceAllString(s, "$1")
}

func fullCheck(res *Result, r *fullRec) {
	res.Evaluations++
	src := bytesOf(r.Src)
	var wantSkel strings.Builder
	for i := range r.Tree {
		fmtModelSkel(&wantSkel, &r.Tree[i])
	}
	wantInl := make([]string, len(r.Inl))
	for i := range r.Inl {
		wantInl[i] = fmtModelInl(r.Inl[i])
	}
	wantHTML := make([]string, len(r.HTML))
	for i := range r.HTML {
		wantHTML[i] = string(bytesOf(r.HTML[i]))
	}
	var gotSkel strings.Builder
	var gotInl, gotHTML []string
	pm := ""
	func() {
		defer func() {
			if x := recover(); x != nil {
				pm = fmt.Sprint(x)
			}
		}()
		blocks, refs := commonmark.Parse(append([]byte(nil), src...))
		rd := &commonmark.HTMLRenderer{ReferenceMap: refs}
		for _, b := range blocks {
			// positions are compared in the coordinates of the text after NUL replacement (every NUL before the block widens it by two bytes)
			base := int(b.StartOffset) + 2*bytes.Count(src[:b.StartOffset], []byte{0})
			fmtRealSkel(&gotSkel, b.Source, base, &b.Block)
			realLeafInl(&b.Block, base, &gotInl)
			gotHTML = append(gotHTML, string(rd.AppendBlock(nil, b)))
		}
	}()
	nInl := 0
	for _, s := range wantInl {
		nInl += strings.Count(s, "(")
	}
	if nInl >= 2 {
		res.nontrivialKey(string(src))
		if nInl >= 4 && len(src) < 48 && strings.Count(wantSkel.String(), "(") >= 3 {
			res.sample(map[string]any{"doc": string(src), "inline": wantInl, "html": wantHTML})
		}
	}
	rec := map[string]any{"kind": "full", "rec": r}
	if pm != "" {
		res.addCandidate(Candidate{Sig: map[string]any{"input": ints(src), "class": "panic"}, Record: rec, What: fmt.Sprintf("%q: panic %s", src, pm)})
		return
	}
	if os.Getenv("VERIF_FULL_PART") != "cfg" {
		if w := wantSkel.String(); w != gotSkel.String() {
			res.addCandidate(Candidate{Sig: map[string]any{"input": ints(src), "class": "full:blocks"}, Record: rec,
				What: fmt.Sprintf("%q:\n      spec  %s\n      code  %s", src, w, gotSkel.String())})
			return
		}
		if fmt.Sprintf("%q", wantInl) != fmt.Sprintf("%q", gotInl) {
			res.addCandidate(Candidate{Sig: map[string]any{"input": ints(src), "class": "full:" + inlineClass(strings.Join(wantInl, ""), strings.Join(gotInl, ""))[7:]}, Record: rec,
				What: fmt.Sprintf("%q: inline structure per paragraph / heading:\n      spec  %q\n      code  %q", src, wantInl, gotInl)})
			return
		}
		if len(wantHTML) != len(gotHTML) {
			res.addCandidate(Candidate{Sig: map[string]any{"input": ints(src), "class": "full:html"}, Record: rec, What: fmt.Sprintf("%q: %d root blocks, spec %d", src, len(gotHTML), len(wantHTML))})
			return
		}
		for i := range wantHTML {
			if normEdge(wantHTML[i]) != normEdge(gotHTML[i]) {
				res.addCandidate(Candidate{Sig: map[string]any{"input": ints(src), "class": "full:html"}, Record: rec,
					What: fmt.Sprintf("%q: HTML of root block %d:\n      spec  %q\n      code  %q", src, i, wantHTML[i], gotHTML[i])})
				return
			}
		}
	}
	// the other renderer configurations (C10's business: VERIF_FULL_PART=cfg; C06 compares the default configuration only)
	if os.Getenv("VERIF_FULL_PART") != "cfg" {
		return
	}
	cfgs := []commonmark.HTMLRenderer{
		{SoftBreakBehavior: commonmark.SoftBreakBehavior(1)},
		{SoftBreakBehavior: commonmark.SoftBreakBehavior(2)},
		{IgnoreRaw: true},
	}
	for c := range r.HCfg {
		if c >= len(cfgs) {
			break
		}
		var got []string
		func() {
			defer func() {
				if x := recover(); x != nil {
					pm = fmt.Sprint(x)
				}
			}()
			blocks, refs := commonmark.Parse(append([]byte(nil), src...))
			rd := cfgs[c]
			rd.ReferenceMap = refs
			for _, b := range blocks {
				got = append(got, string(rd.AppendBlock(nil, b)))
			}
		}()
		if pm != "" {
			res.addCandidate(Candidate{Sig: map[string]any{"input": ints(src), "class": "panic"}, Record: rec, What: fmt.Sprintf("%q: panic %s", src, pm)})
			return
		}
		for i := range r.HCfg[c] {
			want := string(bytesOf(r.HCfg[c][i]))
			if i >= len(got) || normEdgeCfg(want, c) != normEdgeCfg(got[i], c) {
				g := ""
				if i < len(got) {
					g = got[i]
				}
				res.addCandidate(Candidate{Sig: map[string]any{"input": ints(src), "class": fmt.Sprintf("full:html-cfg%d", c+1)}, Record: rec,
					What: fmt.Sprintf("%q: HTML of root block %d under configuration %d (1 soft breaks as spaces, 2 hardened, 3 IgnoreRaw):\n      spec  %q\n      code  %q", src, i, c+1, want, g)})
				return
			}
		}
	}
}

var reSpaces = regexp.MustCompile(`[ \t]{2,}`)
var reBeforeBr = regexp.MustCompile(`[ \t]+<br>`)

// normEdgeCfg: with soft breaks rendered as spaces the kept line-edge spaces (deviation LineEdgeSpace) are runs of spaces.
func normEdgeCfg(s string, c int) string {
	s = normEdge(s)
	s = reBeforeBr.ReplaceAllString(s, "<br>")
	if c == 0 {
		s = reSpaces.ReplaceAllString(s, " ")
		s = strings.ReplaceAll(s, " <", "<")
	}
	return s
}

func cmdFull(args []string) *Result {
	res := newResult()
	if len(args) == 2 && (args[0] == "specgen" || args[0] == "speccheck") {
		return cmdFullSpec(args)
	}
	if len(args) == 2 && args[0] == "dirgen" {
		return cmdFullDirected(args[1])
	}
	if len(args) == 2 && args[0] == "--replay" {
		rec := readReplay(args[1])
		var r fullRec
		mustUnmarshal([]byte(jsonString(rec["rec"])), &r)
		fullCheck(res, &r)
		return res
	}
	res = parallelTLCRecords(args, func(res *Result, raw []byte) {
		var r fullRec
		mustUnmarshal(raw, &r)
		fullCheck(res, &r)
	})
	res.Traces = res.Evaluations
	return res
}

// ---- validation of the model itself against the examples of the CommonMark specification ----
//
//   full specgen <out.ndjson>            one record {id, src} per example
//   full speccheck <tlc output>          compares the model's HTML of every example with the example's HTML

type specExample struct {
	Markdown string `json:"markdown"`
	HTML     string `json:"html"`
	Example  int    `json:"example"`
	Section  string `json:"section"`
}

func loadSpecExamples() []specExample {
	data, err := os.ReadFile(filepath.Join(repoDir(), "internal", "spec", "spec-0.30.json"))
	if err != nil {
		die("spec examples: %v", err)
	}
	var exs []specExample
	mustUnmarshal(data, &exs)
	return exs
}

var (
	reVoid     = regexp.MustCompile(`\s*/>`)
	reTagGap   = regexp.MustCompile(`>\s+<`)
	reLiStart  = regexp.MustCompile(`(<li>|<blockquote>|<ul>|<ol[^>]*>)\s+`)
	reLiEnd    = regexp.MustCompile(`\s+(</li>|</blockquote>|</ul>|</ol>)`)
	reAfterBlk = regexp.MustCompile(`(</h[1-6]>|</pre>|</blockquote>|</ul>|</ol>|<hr>|</p>)\s+`)
	reNewlines = regexp.MustCompile(`\n+`)
	reImgAttrs = regexp.MustCompile(`(<img src="[^"]*")( title="[^"]*")( alt="[^"]*")`)
	reCharRef  = regexp.MustCompile(`&(#[0-9]{1,7}|#[xX][0-9a-fA-F]{1,6}|[A-Za-z][A-Za-z0-9]*);`)
)

// decodeRefs replaces every character reference by the character it stands for, except the characters that are
// significant in HTML, which get one canonical spelling.
func decodeRefs(s string) string {
	return reCharRef.ReplaceAllStringFunc(s, func(m string) string {
		d := html.UnescapeString(m)
		switch d {
		case m:
			return m
		case "<":
			return "&lt;"
		case ">":
			return "&gt;"
		case "&":
			return "&amp;"
		case "\"":
			return "&quot;"
		case "'":
			return "'"
		}
		return d
	})
}

// normSpec brings the spec's pretty-printed HTML and the renderer's dialect to a common form: void-tag spelling,
// white space between tags and around block-level tags, attribute order of <img>, character references decoded.
func normSpec(s string) string {
	var sb strings.Builder
	for len(s) > 0 {
		i := strings.Index(s, "<pre")
		if i < 0 {
			sb.WriteString(normSpecPiece(s))
			break
		}
		sb.WriteString(strings.TrimSuffix(normSpecPiece(s[:i]+"<pre>"), "<pre>"))
		j := strings.Index(s[i:], "</pre>")
		if j < 0 {
			sb.WriteString(decodeRefs(s[i:]))
			break
		}
		sb.WriteString(decodeRefs(s[i : i+j+6]))
		s = s[i+j+6:]
		s = strings.TrimLeft(s, " \t\r\n")
	}
	return strings.TrimSpace(sb.String())
}

func normSpecPiece(s string) string {
	s = reVoid.ReplaceAllString(s, ">")
	s = reTagGap.ReplaceAllString(s, "><")
	s = reLiStart.ReplaceAllString(s, "$1")
	s = reLiEnd.ReplaceAllString(s, "$1")
	s = reAfterBlk.ReplaceAllString(s, "$1")
	s = reImgAttrs.ReplaceAllString(s, "$1$3$2")
	s = decodeRefs(s)
	s = normEdge(s)
	return reNewlines.ReplaceAllString(s, "\n")
}

// outOfModelScope names the reason why an example is outside what Full.tla models, or "".
func outOfModelScope(md string) string {
	for i := 0; i < len(md); i++ {
		if md[i] >= 0x80 {
			return "non-ASCII text next to delimiter runs or in labels (Unicode classes and case folding are tables of Emphasis.tla / Refs.tla)"
		}
	}
	return ""
}

func cmdFullSpec(args []string) *Result {
	res := newResult()
	exs := loadSpecExamples()
	switch args[0] {
	case "specgen":
		f, err := os.Create(args[1])
		if err != nil {
			die("%v", err)
		}
		defer f.Close()
		for _, ex := range exs {
			fmt.Fprintf(f, "{\"id\":%d,\"src\":%s}\n", ex.Example, jsonString(ints([]byte(ex.Markdown))))
		}
		res.Extra["examples"] = len(exs)
	case "speccheck":
		byID := map[int]specExample{}
		for _, ex := range exs {
			byID[ex.Example] = ex
		}
		agree, differ := 0, []map[string]any{}
		outScope := map[string]int{}
		forEachTLCRecord(args[1], func(raw []byte) {
			var r struct {
				ID   int     `json:"id"`
				HTML [][]int `json:"html"`
			}
			mustUnmarshal(raw, &r)
			ex := byID[r.ID]
			var parts []string
			for _, h := range r.HTML {
				if len(h) > 0 {
					parts = append(parts, string(bytesOf(h)))
				}
			}
			joined := ""
			for _, p := range parts {
				if joined != "" && !strings.HasSuffix(joined, "\n") {
					joined += "\n"
				}
				joined += p
			}
			model := normSpec(joined)
			want := normSpec(ex.HTML)
			res.Evaluations++
			if model == want {
				agree++
			} else {
				why := outOfModelScope(ex.Markdown)
				if why != "" {
					outScope[why]++
				} else {
					differ = append(differ, map[string]any{"example": ex.Example, "section": ex.Section, "markdown": ex.Markdown, "spec": want, "model": model})
				}
			}
		})
		res.Extra["spec_examples_agree"] = agree
		res.Extra["spec_examples_differ"] = differ
		res.Extra["spec_examples_out_of_model_scope"] = outScope
	}
	return res
}

// ---- directed documents for FullDirected.tla ----
//
//	full dirgen <out.ndjson>     one record {id, src} per document; the TLC output of FullDirected.tla is then checked by `full <out>`
//
// What matters in these documents is a count, so no line-shape set can hold them: runs of 255 / 256 / 257 characters (where a length
// kept in eight bits wraps), closing fences shorter / equal / longer than a long opening fence, code spans delimited by long backtick
// strings, long delimiter runs, deep indentation, ten-digit markers, seven '#'.
func directedDocs() []string {
	var docs []string
	add := func(s string) { docs = append(docs, s) }
	rep := strings.Repeat
	thorough := os.Getenv("VERIF_TIER") == "thorough"
	lens := []int{255, 256, 257, 259}
	if thorough {
		lens = []int{127, 128, 129, 254, 255, 256, 257, 258, 259, 260, 300, 511, 512, 513, 515, 768}
	}
	for _, ch := range []string{"`", "~"} {
		for _, L := range lens {
			closers := []int{3, 4, L % 256, L%256 + 3, L - 1, L, L + 1}
			for _, c := range closers {
				if c < 1 {
					continue
				}
				body := "a\n" + rep(ch, c) + "\nb\n"
				add(rep(ch, L) + "\n" + body)
				add(rep(ch, L) + " x\n" + body + rep(ch, L) + "\nc\n")
				add("> " + rep(ch, L) + "\n> a\n> " + rep(ch, c) + "\n> b\n")
				add("- " + rep(ch, L) + "\n  a\n  " + rep(ch, c) + "\n  b\n")
			}
			// the opening fence is itself shorter than a run inside
			add(rep(ch, 3) + "\n" + rep(ch, L) + "\nb\n")
			add(rep(ch, 3) + "\na\n" + rep(ch, L) + " \nb\n")
		}
	}
	for _, L := range lens {
		// code spans: equal-length backtick strings only
		for _, c := range []int{1, 3, L % 256, L%256 + 1, L - 1, L, L + 1} {
			if c < 1 {
				continue
			}
			add("x " + rep("`", L) + "a" + rep("`", c) + " b " + rep("`", L) + " c\n")
			add("x " + rep("`", c) + "a" + rep("`", L) + " b " + rep("`", c) + " c\n")
		}
		// delimiter runs
		for _, d := range []string{"*", "_"} {
			add(rep(d, L) + "a" + rep(d, L) + "\n")
			add(rep(d, L) + "a" + rep(d, 2) + " b" + rep(d, 1) + "\n")
			add(rep(d, 2) + "a" + rep(d, L) + "\n")
			add("a " + rep(d, L) + " b\n")
		}
		// indentation: code inside and outside paragraphs and items
		add(rep(" ", L) + "a\n")
		add("a\n" + rep(" ", L) + "b\n")
		add("- a\n\n" + rep(" ", L) + "b\n")
		add("-" + rep(" ", L) + "a\n")
		add("1." + rep(" ", L) + "a\n  b\n")
		add(">" + rep(" ", L) + "a\n")
		add(rep(" ", L) + "\n" + "a\n")
		// long thematic breaks, setext underlines, ATX closing sequences
		add(rep("*", L) + "\n")
		add(rep("- ", L) + "\n")
		add("a\n" + rep("=", L) + "\n")
		add("a\n" + rep("-", L) + "\n")
		add("# a " + rep("#", L) + "\n")
		add("## a" + rep("#", L) + "\n")
		// many blank lines inside lists, code blocks and between blocks
		add("- a\n" + rep("\n", L) + "- b\n")
		add("    a\n" + rep("\n", L) + "    b\n")
		add("```\n" + rep("\n", L) + "```\n")
		add("a" + rep("\n", L) + "b\n")
		// long lines of text with a construct at the far end
		add(rep("a", L) + " *b* `c` [d](e)\n")
		add(rep("a ", L) + "\\\nb\n")
	}
	for _, m := range []string{"123456789", "1234567890", "999999999", "1000000000", "000000000", "0000000001", "0"} {
		for _, d := range []string{".", ")"} {
			add(m + d + " a\n")
			add("a\n" + m + d + " b\n")
			add(m + d + " a\n" + m + d + " b\n")
		}
	}
	for n := 1; n <= 8; n++ {
		add(rep("#", n) + " a\n")
		add(rep("#", n) + "\n")
		add(rep("#", n) + " a " + rep("#", n+1) + "\n")
		add(rep(" ", n-1) + "# a\n")
	}
	// nesting depth: block quotes and lists
	for _, d := range []int{20, 40} {
		add(rep("> ", d) + "a\n")
		add(rep(">", d) + "a\nb\n")
		add(rep("- ", d) + "a\n")
	}
	return docs
}

func cmdFullDirected(path string) *Result {
	res := newResult()
	f, err := os.Create(path)
	if err != nil {
		die("%v", err)
	}
	defer f.Close()
	docs := directedDocs()
	for i, d := range docs {
		fmt.Fprintf(f, "{\"id\":%d,\"src\":%s}\n", i+1, jsonString(ints([]byte(d))))
	}
	res.Extra["directed"] = len(docs)
	return res
}
