package main

import (
	"bytes"
	"encoding/json"
	"fmt"
	"math/rand"
	"os"
	"path/filepath"
	"strings"
)

// Input sources of DESIGN.md section 3.3. Everything random is seeded by VERIF_SEED.

func repoDir() string {
	if d := os.Getenv("VERIF_REPO"); d != "" {
		return d
	}
	return "/repo"
}

var specExamplesCache []string

// specExamples returns the markdown of the 652 CommonMark 0.30 examples shipped with the repository.
func specExamples() []string {
	if specExamplesCache != nil {
		return specExamplesCache
	}
	data, err := os.ReadFile(filepath.Join(repoDir(), "internal", "spec", "spec-0.30.json"))
	if err != nil {
		die("spec examples: %v", err)
	}
	var ex []struct {
		Markdown string `json:"markdown"`
	}
	mustUnmarshal(data, &ex)
	for _, e := range ex {
		specExamplesCache = append(specExamplesCache, e.Markdown)
	}
	return specExamplesCache
}

func benchCorpus() []byte {
	data, err := os.ReadFile(filepath.Join(repoDir(), "testdata", "goldmark_bench.md"))
	if err != nil {
		return nil
	}
	return data
}

// exhaustive enumerates every concatenation of up to maxLen symbols (shortest first order is not guaranteed).
func exhaustive(alphabet []string, maxLen int, f func([]byte)) int {
	n := 0
	buf := make([]byte, 0, 64)
	var rec func(depth int)
	rec = func(depth int) {
		n++
		f(buf)
		if depth == maxLen {
			return
		}
		for _, s := range alphabet {
			l := len(buf)
			buf = append(buf, s...)
			rec(depth + 1)
			buf = buf[:l]
		}
	}
	rec(0)
	return n
}

// hostile is the marker-rich byte set used for damage and random generation.
var hostile = []string{">", "-", "+", "*", "_", "#", "`", "~", "=", "[", "]", "(", ")", "<", ">", "!", "\\", "&", "\"", "'", ":",
	" ", "\t", "\n", "\r", "\x00", "\x80", "\xc3", "\xff", "a", "b", "1", ".", "/", ";", "é", " ", "  \n", "\r\n", "\n\n", "    ", "|", "?", "%", "@", "x", "\ufeff", "\f", "\v", "\u00a0", "\u2003", "\u0085", "\f\n", "\u00a0\n"}

// fragments: tricky pieces whose products exercise multi-line constructs inside containers etc.
var fragments = []string{
	"> ", ">", "- ", "* ", "+ ", "1. ", "1) ", "10. ", "  ", "    ", "\t", "   - ", "\n", "\n\n", "\r\n", "\r", " \n",
	"```", "```\n", "~~~", "~~~ info\n", "``` a`b\n", "    code\n", "\tcode\n",
	"# ", "## h ##\n", "# f#\n", "###### ", "===\n", "---\n", "--\n", "***\n", "_ _ _\n", "=\n", "-\n",
	"[a]", "[a]: /u\n", "[a]: /u \"t\"\n", "[a]:\n/u\n", "[a]: <u v> 't'\n", "[A b]: /x\n 'ti\ntle'\n", "[a][b]", "[a][]", "[a](/u \"t\")", "[a](/u\n\"t\nu\")", "[a](<b c>)", "![i](/s)", "![i [l](/u)](x)", "[a](", "[a](/u \"t", "[l\nm]",
	"*e*", "**s**", "_e_", "__s__", "*a **b* c**", "***x***", "*", "_", "**", "a*_*_*a*a",
	"`c`", "`` c ` d ``", "`c\nd`", "` `", "``", "`",
	"<b>", "</b>", "<b\na=\"x\ny\">", "<!-- c -->", "<!--\nc\n-->", "<?pi?>", "<!D x>", "<![CDATA[x]]>", "<http://a.b>", "<a@b.c>", "<div>\n", "</div>\n", "<script>\n", "</script>", "<pre>", "<", "<3",
	"&amp;", "&#35;", "&#x22;", "&#xG;", "&ltx;", "&", "\\*", "\\\\", "\\\n", "\\", "  \n", "a  \nb", "a\\\nb",
	"text", "word word", "é", "\x00", "\xff", "\xc3", "a\tb", "1986\\. ok", "<a href=\"x\">", "'", "\"",
}

type inputSource struct {
	rng *rand.Rand
}

func newSource(extraSeed int64) *inputSource {
	return &inputSource{rng: rand.New(rand.NewSource(seed()*1000003 + extraSeed))}
}

func (s *inputSource) pick(list []string) string { return list[s.rng.Intn(len(list))] }

// randomHostile returns a random string of n symbols from the hostile set.
func (s *inputSource) randomHostile(n int) []byte {
	var sb strings.Builder
	for i := 0; i < n; i++ {
		sb.WriteString(s.pick(hostile))
	}
	return []byte(sb.String())
}

// fragmentDoc returns a random concatenation of k fragments.
func (s *inputSource) fragmentDoc(k int) []byte {
	var sb strings.Builder
	for i := 0; i < k; i++ {
		sb.WriteString(s.pick(fragments))
	}
	return []byte(sb.String())
}

// damage applies one random mutation to doc.
func (s *inputSource) damage(doc []byte) []byte {
	out := append([]byte(nil), doc...)
	if len(out) == 0 {
		return []byte(s.pick(hostile))
	}
	switch s.rng.Intn(7) {
	case 0: // prefix
		return out[:s.rng.Intn(len(out)+1)]
	case 1: // delete a byte
		i := s.rng.Intn(len(out))
		return append(out[:i], out[i+1:]...)
	case 2: // insert hostile
		i := s.rng.Intn(len(out) + 1)
		h := s.pick(hostile)
		return append(out[:i], append([]byte(h), out[i:]...)...)
	case 3: // replace a byte
		i := s.rng.Intn(len(out))
		h := s.pick(hostile)
		return append(out[:i], append([]byte(h), out[i+1:]...)...)
	case 4: // insert fragment
		i := s.rng.Intn(len(out) + 1)
		h := s.pick(fragments)
		return append(out[:i], append([]byte(h), out[i:]...)...)
	case 5: // LF -> CRLF or CR
		if s.rng.Intn(2) == 0 {
			return []byte(strings.ReplaceAll(string(out), "\n", "\r\n"))
		}
		return []byte(strings.ReplaceAll(string(out), "\n", "\r"))
	default: // duplicate a slice
		i := s.rng.Intn(len(out))
		j := i + s.rng.Intn(len(out)-i+1)
		return append(out[:j], append(append([]byte(nil), out[i:j]...), out[j:]...)...)
	}
}

// quoteOrIndent wraps doc in a block quote or list item (for multi-line constructs inside containers).
func (s *inputSource) wrap(doc []byte) []byte {
	lines := strings.SplitAfter(string(doc), "\n")
	var sb strings.Builder
	switch s.rng.Intn(3) {
	case 0:
		for _, l := range lines {
			if l != "" {
				sb.WriteString("> " + l)
			}
		}
	case 1:
		for i, l := range lines {
			if l == "" {
				continue
			}
			if i == 0 {
				sb.WriteString("- " + l)
			} else {
				sb.WriteString("  " + l)
			}
		}
	default:
		for i, l := range lines {
			if l == "" {
				continue
			}
			if i == 0 {
				sb.WriteString("1. " + l)
			} else {
				sb.WriteString("   " + l)
			}
		}
	}
	return []byte(sb.String())
}

// stretchTemplates: constructs with one position (%s) that is filled with long runs, to reach every
// length-related limit and fixed-size buffer in the code (tag names, entity names, schemes, labels, digits, fences).
var stretchTemplates = []string{
	"<%s>", "</%s>", "<%s a=\"b\">", "<a %s=\"b\">", "<a b=\"%s\">", "<div>\n<%s>\n", "&%s;", "&#%s;", "&#x%s;", "<%s:x>", "<a@%s.c>", "<a@b.%s>", "<%s@b.c>", "<a@b.c.%s.d.e>",
	"[%s]", "[a](%s)", "[a](/u \"%s\")", "[%s]: /u\n\n[%s]", "```%s\nx\n```\n", "%s. x", "#%s", "%s", "*%s*", "`%s`", "> %s", "- %s\n  %s",
}

// stretched yields every stretch template filled with runs of one character at lengths around powers of two
// (and around 1000 for link labels). Deterministic.
func stretched(f func([]byte)) {
	chars := []string{"A", "a", "1", "-", "é", "aB", "\u0390"}
	lengths := []int{31, 32, 33, 34, 63, 64, 65, 255, 256, 257}
	for _, t := range stretchTemplates {
		for _, c := range chars {
			ls := lengths
			if strings.HasPrefix(t, "[%s]") {
				ls = append(append([]int(nil), lengths...), 998, 999, 1000, 1001)
			}
			if c == "\u0390" && !strings.HasPrefix(t, "[%s]") {
				continue // a character whose case fold is three times as long: labels only
			}
			for _, n := range ls {
				run := strings.Repeat(c, (n+len(c)-1)/len(c))[:n]
				f([]byte(strings.ReplaceAll(t, "%s", run)))
			}
		}
	}
}

// nestedInlines yields every nesting of up to depth inline constructs (links and images in inline and reference
// form, emphasis, strong, code span, autolink, raw tag), each level padded with text on both sides, followed by the
// definitions the reference forms need. link(image(link(..))) and its 1000 siblings are where link-in-link
// deactivation, alt text assembly and span arithmetic meet.
func nestedInlines(depth int, f func([]byte)) {
	wraps := [][2]string{{"[", "](/u)"}, {"[", "][r]"}, {"![", "](/s \"t\")"}, {"![", "][r]"}, {"*", "*"}, {"_", "_"}, {"**", "**"}, {"`", "`"}, {"<b>", "</b>"}, {"[", "]"}}
	leaves := []string{"c", "<http://x.y>", "\\*", "&amp;"}
	var rec func(d int, inner string)
	rec = func(d int, inner string) {
		f([]byte("a " + inner + " e\n\n[r]: /ru\n[c]: /cu\n"))
		if d == depth {
			return
		}
		for _, w := range wraps {
			rec(d+1, w[0]+"b "+inner+" d"+w[1])
			if d+1 == depth {
				rec(d+1, w[0]+inner+w[1])
			}
		}
	}
	for _, l := range leaves {
		rec(0, l)
	}
}

// linkPieces yields inline links, images and reference definitions with every combination of white space (none,
// space, line ending, both) between their pieces, alone and inside a block quote and a list item.
func linkPieces(f func([]byte)) {
	ws := []string{"", " ", "\n", " \n "}
	dests := []string{"/u", "<u v>", "", "/u(v)"}
	titles := []string{"", "\"t\"", "'t\nu'", "(t)", "\"t"}
	heads := []string{"x [a](", "![a](", "[a]:"}
	for _, h := range heads {
		for _, w1 := range ws {
			for _, d := range dests {
				for _, w2 := range ws[:3] {
					for _, t := range titles {
						for _, w3 := range ws[:3] {
							end := ") y\n"
							if h == "[a]:" {
								end = "\nz [a]\n"
								if w3 != "" {
									continue
								}
							}
							doc := h + w1 + d + w2 + t + w3 + end
							inContainers(doc, f)
						}
					}
				}
			}
		}
	}
}

// inContainers yields doc alone, in a block quote, in a list item continued with spaces and in one continued with a tab.
func inContainers(doc string, f func([]byte)) {
	f([]byte(doc))
	body := strings.TrimSuffix(doc, "\n")
	f([]byte("> " + strings.ReplaceAll(body, "\n", "\n> ") + "\n"))
	f([]byte("- " + strings.ReplaceAll(body, "\n", "\n  ") + "\n"))
	if strings.Contains(body, "\n") {
		f([]byte("- " + strings.ReplaceAll(body, "\n", "\n\t") + "\n"))
		f([]byte("1. > " + strings.ReplaceAll(body, "\n", "\n   > ") + "\n"))
	}
}

// multiLineRefs yields full, collapsed and shortcut references (links and images) whose label or text spans lines,
// with a matching definition, in every container.
func multiLineRefs(f func([]byte)) {
	// ... also with the label's closing bracket alone at the start of the next line (the label's last line ends before its span does)
	labels := []string{"foo\nbar", "foo \n bar", "foo\nbar\nbaz", "foo bar", "foo bar\n", "foo bar \n ", "foo\nbar\n"}
	for _, l := range labels {
		def := "[foo bar]: /u 't'\n"
		if strings.Count(l, "\n") == 2 {
			def = "[foo bar baz]: /u\n"
		}
		for _, use := range []string{"[x][" + l + "] y", "![x][" + l + "] y", "[" + l + "][] y", "[" + l + "] y", "![" + l + "] y", "[x\nz][" + l + "]"} {
			inContainers(def+"\n"+use+"\n", f)
			inContainers(use+"\n\n"+def, f)
			inContainers(def+use+"\n", f)
		}
	}
}

// unicodeSpaceEdges yields constructs in which an ASCII space is syntactically significant, with that space replaced by
// other white space (form feed, vertical tab, NBSP, EM SPACE, IDEOGRAPHIC SPACE, NEL): CommonMark's rules know only
// space, tab and line endings, Unicode-aware library helpers know more.
func unicodeSpaceEdges(f func([]byte)) {
	bases := []string{"``` go\nx\n```\n", "```\nx\n``` \n", "# h #\n", "- a\n", "1. a\n", "[a]: /u 't'\n\n[a]\n", "x [a](/u \"t\") y\n", "> q\n", "* * *\n",
		"<a href=\"x\">\n\ny\n", "x <b c=\"d\"> y\n", "a  \nb\n", "    code\n", "[a b][A  B]\n\n[a b]: /u\n", "*a *b\n", "a * b*\n", "~~~ \nx\n~~~\n"}
	reps := []string{"\f", "\v", "\u00a0", "\u2003", "\u3000", "\u0085"}
	for _, b := range bases {
		for i := 0; i < len(b); i++ {
			if b[i] != ' ' {
				continue
			}
			for _, r := range reps {
				f([]byte(b[:i] + r + b[i+1:]))
				f([]byte(b[:i] + " " + r + b[i+1:]))
			}
		}
	}
}

// lineProducts yields every document of two lines (and a seeded sample of three-line ones) where a line is a
// container prefix (with spaces or tabs) followed by a content piece: the block rules meet tab stops, partially
// consumed tabs, definitions, fences and setext underlines in every container.
func (s *inputSource) lineProducts(sample3 int, f func([]byte)) {
	prefixes := []string{"", "> ", ">", "- ", "  ", ">\t", " \t", "1. ", "   ", "\t", "    ", "> - ", ">  "}
	contents := []string{"a", "[foo]: /url", "b *c*", "\tb *c*", "# h", "```", "---", "", "===", "[foo]", "<div>", "'t'", "    x", "* * *", "2. n"}
	var lines []string
	for _, p := range prefixes {
		for _, c := range contents {
			lines = append(lines, p+c+"\n")
		}
	}
	for _, a := range lines {
		for _, b := range lines {
			f([]byte(a + b))
		}
	}
	for i := 0; i < sample3; i++ {
		f([]byte(s.pick(lines) + s.pick(lines) + s.pick(lines)))
	}
}

// dupDefinitions yields documents in which one label is defined twice at different nesting depths (and in either
// order) and then used: "first definition wins" is about source order, whatever the depth.
func dupDefinitions(f func([]byte)) {
	conts := []string{"", "> ", "- ", "> > ", "> - ", "1. "}
	seps := []string{"", "\n", "# h\n", ">\n"}
	for _, c1 := range conts {
		for _, c2 := range conts {
			for _, sep := range seps {
				f([]byte(c1 + "[a]: /first\n" + sep + c2 + "[a]: /second 't'\n\nsee [a] and [A][]\n"))
			}
		}
	}
}

// nulInjected yields every fragment with a NUL byte (and, separately, an invalid UTF-8 byte) inserted at every position:
// the parser works on a NUL-padded buffer and rewrites Source afterwards, so every construct must survive the replacement.
func nulInjected(f func([]byte)) {
	for _, fr := range fragments {
		if len(fr) > 24 {
			continue
		}
		for i := 0; i <= len(fr); i++ {
			f([]byte(fr[:i] + "\x00" + fr[i:] + "\n"))
			if i%2 == 0 {
				f([]byte(fr[:i] + "\x00\x00" + fr[i:] + "\n")) // adjacent NULs: the offset into the replacement character wraps
			}
			if i+2 <= len(fr) {
				f([]byte(fr[:i] + "\x00" + fr[i:i+1] + "\x00" + fr[i+1:] + "\n\n[a]\n")) // separated NULs: a new run must start at offset 0
			}
			if i%3 == 0 {
				f([]byte(fr[:i] + "\xff" + fr[i:] + "\n\n[a]\n"))
			}
		}
	}
}

// uriDestinations yields links, images and autolinks whose destination ranges over every string of up to 4 symbols
// that matter to URI normalisation (pass-through, percent sign, hex and non-hex digits, space, non-ASCII, a reserved
// character that must be encoded).
func uriDestinations(f func([]byte)) {
	exhaustive([]string{"a", "%", "4", "G", " ", "é", "[", "\xff", "\xc3"}, 4, func(d []byte) {
		if len(d) == 0 {
			return
		}
		f([]byte("[t](<" + string(d) + ">) ![i](<" + string(d) + "> \"" + string(d) + "\")\n"))
		if !bytes.ContainsAny(d, " [") {
			f([]byte("<http://h/" + string(d) + ">\n"))
		}
	})
}

// tagPairs yields two adjacent raw HTML tags for every pair of names from a list that mixes allowed and GFM-rejected
// elements, in lower, upper and mixed case, inline and as an HTML block; plus each name followed by every byte that
// ends a tag name for an HTML tokenizer (space, tab, LF, form feed, '/', '>').
func tagPairs(f func([]byte)) {
	names := []string{"strong", "script", "table", "title", "pre", "xmp", "b", "em", "div", "style", "iframe", "textarea", "noembed", "a"}
	var forms []string
	for _, n := range names {
		forms = append(forms, n, strings.ToUpper(n), strings.ToUpper(n[:1])+n[1:])
	}
	for _, a := range forms {
		for _, b := range forms {
			f([]byte("x <" + a + "><" + b + "> y\n"))
			f([]byte("<div>\n<" + a + "><" + b + ">\n"))
		}
	}
	for _, a := range forms {
		for _, end := range []string{" ", "\t", "\n", "\r\n", "\r", "\nsrc=x>\n", "\r\nsrc=x>\r\n", "\f", "/", ">", "\f>", " x=y>", "\fsrc=x>"} {
			f([]byte("<div><" + a + end + "\n"))
			f([]byte("<!-- c --> <" + a + end + "\n"))
		}
	}
}

// bigTrees yields documents whose trees are wide or deep enough to outgrow any fixed-size traversal stack or buffer:
// long paragraphs, long lists, deep quotes and lists, many inline nodes in one paragraph.
func bigTrees(f func([]byte)) {
	f([]byte(strings.Repeat("line of text\n", 150)))
	f([]byte(strings.Repeat("- item\n", 300)))
	f([]byte(strings.Repeat("1. item\n\n", 140)))
	f([]byte(strings.Repeat("> ", 140) + "deep\n"))
	var sb strings.Builder
	for i := 0; i < 40; i++ {
		sb.WriteString(strings.Repeat("  ", i) + "- l\n")
	}
	f([]byte(sb.String()))
	f([]byte(strings.Repeat("*a* `b` [c](/d) ", 90) + "\n"))
	f([]byte(strings.Repeat("**", 70) + "x" + strings.Repeat("**", 70) + "\n"))
	f([]byte(strings.Repeat("[", 140) + "a" + strings.Repeat("](/u)", 140) + "\n"))
}

// rawPieces yields inline raw HTML (tags, comments, processing instructions, declarations, CDATA) broken across lines
// at every white-space position, alone and inside a block quote, a list item and both.
func rawPieces(f func([]byte)) {
	raws := []string{"<a href='y' title=\"z\">", "<!-- a b <script> -->", "<?pi a b?>", "<!DOCTYPE a b>", "<![CDATA[a b <xmp>]]>", "</b >", "<b c d='e f'>"}
	for _, r := range raws {
		for i := 0; i < len(r); i++ {
			if r[i] != ' ' {
				continue
			}
			doc := "x " + r[:i] + "\n" + r[i+1:] + " y\n"
			inContainers(doc, f)
			f([]byte("- > " + strings.ReplaceAll(strings.TrimSuffix(doc, "\n"), "\n", "\n  > ") + "\n"))
		}
	}
}

// shapeDocs yields every two-line document (and a seeded sample of three-line ones) over each line-shape set of
// Full.tla: container prefixes (quote marker with and without its space, list markers, indentation, tabs that are
// consumed in part) crossed with pieces of multi-line inline constructs, with LF, CR and CRLF line endings. The same
// documents that the composed model decides exactly (direction A) are inputs of every direction-B check.
func (s *inputSource) shapeDocs(sample3 int, f func([]byte)) {
	names := make([]string, 0, len(fullShapes))
	for n := range fullShapes {
		names = append(names, n)
	}
	sortStrings(names)
	for _, n := range names {
		sh := fullShapes[n]
		var closed []string // shapes that end in a line ending can be followed by another line
		for _, a := range sh {
			if strings.HasSuffix(a, "\n") || strings.HasSuffix(a, "\r") {
				closed = append(closed, a)
			}
		}
		for _, a := range closed {
			for _, b := range sh {
				f([]byte(a + b))
			}
		}
		for i := 0; i < sample3/len(names); i++ {
			f([]byte(s.pick(closed) + s.pick(closed) + s.pick(sh)))
		}
	}
}

// escapedNonASCII yields a backslash (and, for contrast, an ampersand) in front of one character from every UTF-8
// lead-byte range, in text, in a link destination and title, in an info string and in a label: a backslash escapes
// ASCII punctuation only, whatever a byte-indexed table makes of bytes >= 0x80.
func escapedNonASCII(f func([]byte)) {
	chars := []string{"\u00e9", "\u00d7", "\u0700", "\u06c0", "\u07ff", "\u0800", "\u0e01", "\u0fff", "\u1000", "\u4e2d", "\ud7ff", "\uffef", "\U0001f600", "\U0010ffff", "\u00a0", "\u2003"}
	tmpl := []string{"a\\%sb\n", "*a\\%s*\n", "[a\\%s](/u\\%s \"t\\%s\")\n", "```x\\%s\ny\n```\n", "[l\\%s]: /u\n\n[l\\%s]\n", "<a\\%s>\n", "`\\%s`\n", "&%s;\n", "# h\\%s\n", "> - \\%s\n"}
	for _, t := range tmpl {
		for _, c := range chars {
			f([]byte(strings.ReplaceAll(t, "%s", c)))
		}
	}
}

// backtickRuns yields code-span candidates whose opening and closing backtick strings have every pair of lengths from a
// list that straddles small table sizes (a code span needs strings of EQUAL length, however long).
func backtickRuns(f func([]byte)) {
	lens := []int{1, 2, 3, 30, 31, 32, 33, 34, 35, 63, 64, 65}
	for _, a := range lens {
		for _, b := range lens {
			op, cl := strings.Repeat("`", a), strings.Repeat("`", b)
			f([]byte("x " + op + "a" + cl + " y\n"))
			f([]byte("x " + op + " a " + cl + " b " + op + " c\n"))
			f([]byte("> x " + op + "a\n> b" + cl + " y\n"))
		}
	}
}

// longWrappedLabels yields link labels of 300 to 1000 characters wrapped over many short lines, as definition and as
// full reference, alone and inside containers whose markers add bytes (but no characters) to every line: the 999
// character limit counts the label's characters.
func longWrappedLabels(f func([]byte)) {
	for _, lineLen := range []int{2, 3, 7} {
		for _, total := range []int{300, 500, 700, 900, 996, 999, 1002} {
			var lines []string
			n := 0
			for n+lineLen+1 <= total {
				lines = append(lines, strings.Repeat("a", lineLen))
				n += lineLen + 1
			}
			for _, pre := range []string{"", "> ", ">", "   ", "> > "} {
				label := strings.Join(lines, "\n"+pre)
				f([]byte(pre + "[" + label + "]: /u\n" + pre + "\n" + pre + "[x][" + label + "]\n"))
			}
			for _, cont := range []string{"  ", "      ", "10.     "} {
				first := "- "
				ind := cont
				if strings.HasPrefix(cont, "10.") {
					first, ind = cont, strings.Repeat(" ", len(cont))
				}
				label := strings.Join(lines, "\n"+ind)
				f([]byte(first + "[" + label + "]: /u\n\n" + ind + "[x][" + label + "]\n"))
			}
		}
	}
}

// nulPlacements yields NUL bytes where the NUL padding of the parse buffer meets book-keeping that is done once per root
// block or once per node: in two or three different root blocks, in reference definition labels (with uses spelled
// with NUL and with U+FFFD, and a later duplicate), in fenced code info strings, after a block that is closed by its
// own last line.
func nulPlacements(f func([]byte)) {
	blocks := []string{"a\x00b\n", "# h\x00\n", "```i\x00 j\nc\x00\n```\n", "> q\x00\n", "- i\x00\n", "\x00\n", "[r\x00s]: /u\x00 \"t\x00\"\n", "[x][r\x00s] [r\ufffds]\n", "***\n", "plain\n", "<div>\x00\n", "    c\x00\n", "[r\ufffds]: /other\n"}
	for _, a := range blocks {
		for _, b := range blocks {
			f([]byte(a + "\n" + b))
			f([]byte(a + b))
			for _, c := range []string{"[r\x00s]\n", "x\x00\n"} {
				f([]byte(a + "\n" + b + "\n" + c))
			}
		}
	}
}

// wideMarkers yields ordered list items whose markers are 1 to 9 digits wide (and 10, which is no marker), nested and
// with continuation lines indented to the content column.
func wideMarkers(f func([]byte)) {
	for _, num := range []string{"1", "12", "123456", "1234567", "12345678", "123456789", "1234567890", "000000001"} {
		for _, d := range []string{".", ")"} {
			m := num + d
			ind := strings.Repeat(" ", len(m)+1)
			f([]byte(m + " x\n"))
			f([]byte(m + " x\n" + ind + "y\n\n" + ind + "z\n"))
			f([]byte(m + " x\n" + ind + "- n\n" + ind + "  " + m + " deep\n"))
			f([]byte("> " + m + " x\n> " + ind + "y\n"))
		}
	}
}

// htmlBlockLines yields every two-line document where a line is a container prefix (with spaces, tabs, partially consumed tabs)
// followed by a piece of an HTML block: start lines of conditions 1-7, lines that meet an end condition, one-line blocks.
func htmlBlockLines(f func([]byte)) {
	prefixes := []string{"", "> ", ">\t", " \t", "- ", "\t", "1. ", "  "}
	contents := []string{"<!-- c -->", "<!-- c", "d --> e", "<pre>", "x</pre>", "<?php", "echo ?>", "<div>", "</div>", "<![CDATA[", "]]>", "<!X", "y>", "<b>", "a", ""}
	var lines []string
	for _, p := range prefixes {
		for _, c := range contents {
			lines = append(lines, p+c+"\n")
		}
	}
	for _, a := range lines {
		for _, b := range lines {
			f([]byte(a + b))
		}
	}
}

// indentedFences yields fenced code blocks whose opening fence is indented by 0-3 columns relative to its container, with info
// strings that hold multi-byte characters (a span that is off by the indentation ends inside one).
func indentedFences(f func([]byte)) {
	for _, c := range [][2]string{{"", ""}, {"> ", "> "}, {"- ", "  "}, {"1. ", "   "}, {"> - ", ">   "}} {
		for ind := 0; ind <= 3; ind++ {
			sp := strings.Repeat(" ", ind)
			for _, fence := range []string{"```", "~~~~"} {
				for _, info := range []string{"", "x", "\u00e9", "x \u00e9", "\u00e9\u00e9 x", " \u20ac", "caf\u00e9 \\* &amp;"} {
					f([]byte(c[0] + sp + fence + info + "\n" + c[1] + sp + "c\n" + c[1] + sp + fence + "\n"))
					f([]byte(c[0] + "p\n" + c[1] + sp + fence + info + "\n" + c[1] + "c\n"))
				}
			}
		}
	}
}

// emailAutolinks yields autolinks whose local part holds each character the e-mail grammar allows besides letters and digits
// (among them & and ', which must be escaped on output), in text, link text, image descriptions and headings.
func emailAutolinks(f func([]byte)) {
	var locals []string
	for _, c := range ".!#$%&'*+/=?^_`{|}~-" {
		locals = append(locals, "a"+string(c)+"b", string(c)+"a", "a"+string(c))
	}
	locals = append(locals, "a&lt", "a&amp", "&#38", "a&lt;b", "a'b\"c", "a&b'c&d")
	for _, l := range locals {
		for _, dom := range []string{"x.y", "x-y.z", "x"} {
			a := "<" + l + "@" + dom + ">"
			f([]byte("see " + a + " now\n"))
			f([]byte("[" + a + "](/u) ![" + a + "](/v \"t\")\n"))
			f([]byte("# " + a + "\n> " + a + "\n"))
		}
	}
}

// refRuns yields two character references with hostile bytes between them, in every context whose text reaches an attribute
// or a text run: a node that swallows the bytes in between would let them through unescaped.
func refRuns(f func([]byte)) {
	refs := []string{"&lt;", "&gt;", "&amp;", "&quot;", "&#34;", "&#x22;"}
	mids := []string{"\"", "'", ">", "x", "\"on=\"", "=", "\"x\"", "<b>"}
	ctxs := []string{"%s\n", "![%s](u)\n", "[%s](u)\n", "[a](u \"%s\")\n", "# %s\n", "![a][r]\n\n[r]: /u '%s'\n"}
	for _, a := range refs {
		for _, m := range mids {
			for _, b := range refs {
				for _, c := range ctxs {
					f([]byte(fmt.Sprintf(c, a+m+b)))
				}
			}
		}
	}
}

// vocabularyTags yields raw HTML whose tag names are the renderer's own element names (br, p, a, img, em, ...), with attributes the
// renderer never writes, upper-case and self-closing spellings, and line endings inside the tag - inline and as HTML blocks.
// When raw HTML is ignored none of it may come through, whatever the name.
func vocabularyTags(f func([]byte)) {
	names := []string{"br", "p", "a", "img", "em", "strong", "code", "pre", "h1", "ul", "ol", "li", "blockquote", "hr"}
	tails := []string{">", "/>", " />", " class=\"x\" onmouseover=\"go()\">", "\ndata-x=1>", " href=\"javascript:x\">", " src=x onerror=y>"}
	for _, n := range names {
		for _, form := range []string{n, strings.ToUpper(n)} {
			for _, t := range tails {
				f([]byte("one<" + form + t + "two\n"))
				f([]byte("<" + form + t + "\nthree\n\nfour\n"))
				f([]byte("- [l <" + form + t + "](/u) ![i <" + form + t + "](/v)\n"))
			}
			f([]byte("a </" + form + "> b\n"))
		}
	}
}

// backslashLabels yields link labels in which a backslash stands before a character that cannot be escaped (a letter, a digit, a
// non-ASCII character) - in the middle and as the label's last character - in definitions and in both labels of full references.
func backslashLabels(f func([]byte)) {
	for _, l := range []string{"a\\b", "chapter\\1", "C:\\x ", "a\\\u00e9", "\\a", "a\\b c", "a\\]", "a \\b\n"} {
		f([]byte("[" + l + "]: /url\n\n[" + l + "] [see][" + l + "]\n"))
		f([]byte("[see][" + l + "] ![" + l + "][]\n\n[" + l + "]: /url 't'\n"))
		f([]byte("> [" + l + "]: /url\n> [" + l + "]\n"))
	}
}

// structured yields the deterministic structured families shared by the input sets of most checks.
func (s *inputSource) structured(thorough bool, f func([]byte)) {
	backslashLabels(f)
	vocabularyTags(f)
	htmlBlockLines(f)
	indentedFences(f)
	emailAutolinks(f)
	refRuns(f)
	nestedInlines(map[bool]int{false: 3, true: 4}[thorough], f)
	linkPieces(f)
	dupDefinitions(f)
	uriDestinations(f)
	tagPairs(f)
	rawPieces(f)
	multiLineRefs(f)
	unicodeSpaceEdges(f)
	bigTrees(f)
	nulInjected(f)
	escapedNonASCII(f)
	backtickRuns(f)
	longWrappedLabels(f)
	nulPlacements(f)
	wideMarkers(f)
	s.shapeDocs(map[bool]int{false: 3000, true: 90000}[thorough], f)
	s.lineProducts(map[bool]int{false: 4000, true: 120000}[thorough], func(d []byte) {
		f(d)
		// the same document ending without its final line ending (end of input inside every block rule)
		f(d[:len(d)-1])
	})
}

// mixed yields the stretched inputs and then n inputs drawn from all non-exhaustive sources (corpus, damage,
// fragments, random, wrapped).
func (s *inputSource) mixed(n int, f func([]byte)) {
	stretched(f)
	dupDefinitions(f)
	ex := specExamples()
	for i := 0; i < n; i++ {
		var doc []byte
		switch s.rng.Intn(10) {
		case 0:
			doc = []byte(s.pick(ex))
		case 1, 2:
			doc = s.damage([]byte(s.pick(ex)))
		case 3:
			doc = s.damage(s.damage([]byte(s.pick(ex))))
		case 4, 5:
			doc = s.fragmentDoc(1 + s.rng.Intn(5))
		case 6:
			doc = s.randomHostile(1 + s.rng.Intn(12))
		case 7:
			doc = s.wrap(s.fragmentDoc(1 + s.rng.Intn(4)))
		case 8:
			doc = s.wrap([]byte(s.pick(ex)))
		default:
			doc = s.damage(s.wrap(s.damage([]byte(s.pick(ex)))))
		}
		f(doc)
	}
}

// allPrefixes calls f with every prefix of doc.
func allPrefixes(doc []byte, f func([]byte)) {
	for i := 0; i <= len(doc); i++ {
		f(doc[:i])
	}
}

// fragmentProducts enumerates all sequences of exactly k fragments from a stride-sampled sub-library.
func fragmentProducts(k int, lib []string, f func([]byte)) {
	idx := make([]int, k)
	for {
		var sb strings.Builder
		for _, i := range idx {
			sb.WriteString(lib[i])
		}
		f([]byte(sb.String()))
		p := k - 1
		for p >= 0 {
			idx[p]++
			if idx[p] < len(lib) {
				break
			}
			idx[p] = 0
			p--
		}
		if p < 0 {
			return
		}
	}
}

func largeInputs() [][]byte {
	bench := benchCorpus()
	out := [][]byte{}
	if len(bench) > 0 {
		out = append(out, bench)
		out = append(out, bench[:70000])
	}
	out = append(out, []byte(strings.Repeat("a b c d e f g h i j\n", 1000)))                  // one 20 KB paragraph
	out = append(out, []byte(strings.Repeat("> q\n", 5000)))                                  // 20 KB quote
	out = append(out, []byte(strings.Repeat("x", 9000)+"\n\n"+strings.Repeat("y\x00", 5000))) // long lines, NULs across chunk borders
	out = append(out, []byte(strings.Repeat("- item\n\n", 3000)))
	out = append(out, []byte("```\n"+strings.Repeat("code line\r\n", 8000)+"```\n"))
	// references that expand to far more text than the document holds: a long title used a few times, a short one used very often
	out = append(out, []byte("[r]: /u '"+strings.Repeat("t", 40000)+"'\n\n"+strings.Repeat("see [r] and [x][r]\n\n", 4)))
	out = append(out, []byte("[r]: /"+strings.Repeat("u", 90)+"\n\n"+strings.Repeat("[r] [r][] [x][r]\n", 600)+"\n![r]\n"))
	return out
}

func jsonString(v any) string {
	b, _ := json.Marshal(v)
	return string(b)
}
