package main

import (
	"encoding/json"
	"math/rand"
	"os"
	"path/filepath"
	"strings"
)

// Input sources of DESIGN.md section 3.3. Everything random is seeded by VERIF_SEED.

func repoDir() string {
	if d := os.Getenv("VERIF_REPO"); d != "" {
		return d
	}
	return "/repo"
}

var specExamplesCache []string

// specExamples returns the markdown of the 652 CommonMark 0.30 examples shipped with the repository.
func specExamples() []string {
	if specExamplesCache != nil {
		return specExamplesCache
	}
	data, err := os.ReadFile(filepath.Join(repoDir(), "internal", "spec", "spec-0.30.json"))
	if err != nil {
		die("spec examples: %v", err)
	}
	var ex []struct {
		Markdown string `json:"markdown"`
	}
	mustUnmarshal(data, &ex)
	for _, e := range ex {
		specExamplesCache = append(specExamplesCache, e.Markdown)
	}
	return specExamplesCache
}

func benchCorpus() []byte {
	data, err := os.ReadFile(filepath.Join(repoDir(), "testdata", "goldmark_bench.md"))
	if err != nil {
		return nil
	}
	return data
}

// exhaustive enumerates every concatenation of up to maxLen symbols (shortest first order is not guaranteed).
func exhaustive(alphabet []string, maxLen int, f func([]byte)) int {
	n := 0
	buf := make([]byte, 0, 64)
	var rec func(depth int)
	rec = func(depth int) {
		n++
		f(buf)
		if depth == maxLen {
			return
		}
		for _, s := range alphabet {
			l := len(buf)
			buf = append(buf, s...)
			rec(depth + 1)
			buf = buf[:l]
		}
	}
	rec(0)
	return n
}

// hostile is the marker-rich byte set used for damage and random generation.
var hostile = []string{">", "-", "+", "*", "_", "#", "`", "~", "=", "[", "]", "(", ")", "<", ">", "!", "\\", "&", "\"", "'", ":",
	" ", "\t", "\n", "\r", "\x00", "\x80", "\xc3", "\xff", "a", "b", "1", ".", "/", ";", "é", " ", "  \n", "\r\n", "\n\n", "    ", "|", "?", "%", "@", "x", "\f", "\v", "\u00a0", "\u2003", "\u0085", "\f\n", "\u00a0\n"}

// fragments: tricky pieces whose products exercise multi-line constructs inside containers etc.
var fragments = []string{
	"> ", ">", "- ", "* ", "+ ", "1. ", "1) ", "10. ", "  ", "    ", "\t", "   - ", "\n", "\n\n", "\r\n", "\r", " \n",
	"```", "```\n", "~~~", "~~~ info\n", "``` a`b\n", "    code\n", "\tcode\n",
	"# ", "## h ##\n", "# f#\n", "###### ", "===\n", "---\n", "--\n", "***\n", "_ _ _\n", "=\n", "-\n",
	"[a]", "[a]: /u\n", "[a]: /u \"t\"\n", "[a]:\n/u\n", "[a]: <u v> 't'\n", "[A b]: /x\n 'ti\ntle'\n", "[a][b]", "[a][]", "[a](/u \"t\")", "[a](/u\n\"t\nu\")", "[a](<b c>)", "![i](/s)", "![i [l](/u)](x)", "[a](", "[a](/u \"t", "[l\nm]",
	"*e*", "**s**", "_e_", "__s__", "*a **b* c**", "***x***", "*", "_", "**", "a*_*_*a*a",
	"`c`", "`` c ` d ``", "`c\nd`", "` `", "``", "`",
	"<b>", "</b>", "<b\na=\"x\ny\">", "<!-- c -->", "<!--\nc\n-->", "<?pi?>", "<!D x>", "<![CDATA[x]]>", "<http://a.b>", "<a@b.c>", "<div>\n", "</div>\n", "<script>\n", "</script>", "<pre>", "<", "<3",
	"&amp;", "&#35;", "&#x22;", "&#xG;", "&ltx;", "&", "\\*", "\\\\", "\\\n", "\\", "  \n", "a  \nb", "a\\\nb",
	"text", "word word", "é", "\x00", "\xff", "\xc3", "a\tb", "1986\\. ok", "<a href=\"x\">", "'", "\"",
}

type inputSource struct {
	rng *rand.Rand
}

func newSource(extraSeed int64) *inputSource {
	return &inputSource{rng: rand.New(rand.NewSource(seed()*1000003 + extraSeed))}
}

func (s *inputSource) pick(list []string) string { return list[s.rng.Intn(len(list))] }

// randomHostile returns a random string of n symbols from the hostile set.
func (s *inputSource) randomHostile(n int) []byte {
	var sb strings.Builder
	for i := 0; i < n; i++ {
		sb.WriteString(s.pick(hostile))
	}
	return []byte(sb.String())
}

// fragmentDoc returns a random concatenation of k fragments.
func (s *inputSource) fragmentDoc(k int) []byte {
	var sb strings.Builder
	for i := 0; i < k; i++ {
		sb.WriteString(s.pick(fragments))
	}
	return []byte(sb.String())
}

// damage applies one random mutation to doc.
func (s *inputSource) damage(doc []byte) []byte {
	out := append([]byte(nil), doc...)
	if len(out) == 0 {
		return []byte(s.pick(hostile))
	}
	switch s.rng.Intn(7) {
	case 0: // prefix
		return out[:s.rng.Intn(len(out)+1)]
	case 1: // delete a byte
		i := s.rng.Intn(len(out))
		return append(out[:i], out[i+1:]...)
	case 2: // insert hostile
		i := s.rng.Intn(len(out) + 1)
		h := s.pick(hostile)
		return append(out[:i], append([]byte(h), out[i:]...)...)
	case 3: // replace a byte
		i := s.rng.Intn(len(out))
		h := s.pick(hostile)
		return append(out[:i], append([]byte(h), out[i+1:]...)...)
	case 4: // insert fragment
		i := s.rng.Intn(len(out) + 1)
		h := s.pick(fragments)
		return append(out[:i], append([]byte(h), out[i:]...)...)
	case 5: // LF -> CRLF or CR
		if s.rng.Intn(2) == 0 {
			return []byte(strings.ReplaceAll(string(out), "\n", "\r\n"))
		}
		return []byte(strings.ReplaceAll(string(out), "\n", "\r"))
	default: // duplicate a slice
		i := s.rng.Intn(len(out))
		j := i + s.rng.Intn(len(out)-i+1)
		return append(out[:j], append(append([]byte(nil), out[i:j]...), out[j:]...)...)
	}
}

// quoteOrIndent wraps doc in a block quote or list item (for multi-line constructs inside containers).
func (s *inputSource) wrap(doc []byte) []byte {
	lines := strings.SplitAfter(string(doc), "\n")
	var sb strings.Builder
	switch s.rng.Intn(3) {
	case 0:
		for _, l := range lines {
			if l != "" {
				sb.WriteString("> " + l)
			}
		}
	case 1:
		for i, l := range lines {
			if l == "" {
				continue
			}
			if i == 0 {
				sb.WriteString("- " + l)
			} else {
				sb.WriteString("  " + l)
			}
		}
	default:
		for i, l := range lines {
			if l == "" {
				continue
			}
			if i == 0 {
				sb.WriteString("1. " + l)
			} else {
				sb.WriteString("   " + l)
			}
		}
	}
	return []byte(sb.String())
}

// stretchTemplates: constructs with one position (%s) that is filled with long runs, to reach every
// length-related limit and fixed-size buffer in the code (tag names, entity names, schemes, labels, digits, fences).
var stretchTemplates = []string{
	"<%s>", "</%s>", "<%s a=\"b\">", "<a %s=\"b\">", "<a b=\"%s\">", "<div>\n<%s>\n", "&%s;", "&#%s;", "&#x%s;", "<%s:x>", "<a@%s.c>", "<a@b.%s>",
	"[%s]", "[a](%s)", "[a](/u \"%s\")", "[%s]: /u\n\n[%s]", "```%s\nx\n```\n", "%s. x", "#%s", "%s", "*%s*", "`%s`", "> %s", "- %s\n  %s",
}

// stretched yields every stretch template filled with runs of one character at lengths around powers of two
// (and around 1000 for link labels). Deterministic.
func stretched(f func([]byte)) {
	chars := []string{"A", "a", "1", "-", "é", "aB"}
	lengths := []int{31, 32, 33, 34, 63, 64, 65, 255, 256, 257}
	for _, t := range stretchTemplates {
		for _, c := range chars {
			ls := lengths
			if strings.HasPrefix(t, "[%s]") {
				ls = append(append([]int(nil), lengths...), 998, 999, 1000, 1001)
			}
			for _, n := range ls {
				run := strings.Repeat(c, (n+len(c)-1)/len(c))[:n]
				f([]byte(strings.ReplaceAll(t, "%s", run)))
			}
		}
	}
}

// mixed yields the stretched inputs and then n inputs drawn from all non-exhaustive sources (corpus, damage,
// fragments, random, wrapped).
func (s *inputSource) mixed(n int, f func([]byte)) {
	stretched(f)
	ex := specExamples()
	for i := 0; i < n; i++ {
		var doc []byte
		switch s.rng.Intn(10) {
		case 0:
			doc = []byte(s.pick(ex))
		case 1, 2:
			doc = s.damage([]byte(s.pick(ex)))
		case 3:
			doc = s.damage(s.damage([]byte(s.pick(ex))))
		case 4, 5:
			doc = s.fragmentDoc(1 + s.rng.Intn(5))
		case 6:
			doc = s.randomHostile(1 + s.rng.Intn(12))
		case 7:
			doc = s.wrap(s.fragmentDoc(1 + s.rng.Intn(4)))
		case 8:
			doc = s.wrap([]byte(s.pick(ex)))
		default:
			doc = s.damage(s.wrap(s.damage([]byte(s.pick(ex)))))
		}
		f(doc)
	}
}

// allPrefixes calls f with every prefix of doc.
func allPrefixes(doc []byte, f func([]byte)) {
	for i := 0; i <= len(doc); i++ {
		f(doc[:i])
	}
}

// fragmentProducts enumerates all sequences of exactly k fragments from a stride-sampled sub-library.
func fragmentProducts(k int, lib []string, f func([]byte)) {
	idx := make([]int, k)
	for {
		var sb strings.Builder
		for _, i := range idx {
			sb.WriteString(lib[i])
		}
		f([]byte(sb.String()))
		p := k - 1
		for p >= 0 {
			idx[p]++
			if idx[p] < len(lib) {
				break
			}
			idx[p] = 0
			p--
		}
		if p < 0 {
			return
		}
	}
}

func largeInputs() [][]byte {
	bench := benchCorpus()
	out := [][]byte{}
	if len(bench) > 0 {
		out = append(out, bench)
		out = append(out, bench[:70000])
	}
	out = append(out, []byte(strings.Repeat("a b c d e f g h i j\n", 1000)))            // one 20 KB paragraph
	out = append(out, []byte(strings.Repeat("> q\n", 5000)))                               // 20 KB quote
	out = append(out, []byte(strings.Repeat("x", 9000)+"\n\n"+strings.Repeat("y\x00", 5000))) // long lines, NULs across chunk borders
	out = append(out, []byte(strings.Repeat("- item\n\n", 3000)))
	out = append(out, []byte("```\n"+strings.Repeat("code line\r\n", 8000)+"```\n"))
	return out
}

func jsonString(v any) string {
	b, _ := json.Marshal(v)
	return string(b)
}
