package main

import (
	"bufio"
	"bytes"
	"fmt"
	"os"
	"sort"

	"zombiezen.com/go/commonmark"
)

// C10: record, per input, the event stream WITH accessor values read through the public API, the
// reference map, and for each configuration the outputs of Render / AppendBlock / a second Render and
// whether tree and Source dumps are unchanged.  (Also used by C17 with filter-heavy inputs.)
//
//   render gen <base> | render regen <base> <replay.ndjson>

func init() { register("render", cmdRender) }

type renderRun struct {
	Cfg   map[string]int `json:"cfg"`
	Parts [][]int        `json:"parts"`
	Out   []int          `json:"out"`
	Out2  []int          `json:"out2"`
	Same  int            `json:"same"`
}

type renderTrace struct {
	Refs   [][]any     `json:"refs"`
	Blocks [][][]any   `json:"blocks"`
	Runs   []renderRun `json:"runs"`
}

type renderReplay struct {
	Kind  string  `json:"kind"`
	Input []int   `json:"input"`
	Cfgs  [][]int `json:"cfgs"`
	// the renderer is handed an EMPTY reference map instead of the parsed one (the ReferenceMap field is part of the configuration):
	// a reference link or image whose label the map does not hold is still one <a> / <img> element, with empty href / src
	NoRefs bool `json:"norefs,omitempty"`
}

func renderEvents(src []byte, n commonmark.Node, out *[][]any) {
	k := kindCode(n)
	a1, a2, a3 := nodeAttrs(src, n)
	ev := []any{1, k, a1, a2, a3, 0, 0, 0, []int{}, []int{}, []int{}, []int{}, []int{}}
	if b := n.Block(); b != nil {
		switch b.Kind() {
		case commonmark.ListKind:
			if b.ChildCount() > 0 {
				ev[4] = b.Child(0).Block().ListItemNumber(src)
			}
		case commonmark.FencedCodeBlockKind:
			if info := b.InfoString(); info != nil {
				ev[6] = 1
				ev[12] = ints([]byte(info.Text(src)))
			}
		}
	}
	if in := n.Inline(); in != nil {
		sp := in.Span()
		ev[2], ev[3], ev[4] = 0, 0, 0
		ev[5] = in.IndentWidth()
		switch in.Kind() {
		case commonmark.TextKind, commonmark.UnparsedKind, commonmark.CharacterReferenceKind, commonmark.RawHTMLKind, commonmark.SoftLineBreakKind:
			if sp.IsValid() && sp.End <= len(src) {
				ev[8] = ints(src[sp.Start:sp.End])
			}
		case commonmark.LinkKind, commonmark.ImageKind:
			ev[9] = ints([]byte(in.LinkReference()))
			if d := in.LinkDestination(); d != nil {
				ev[6] = 1
				ev[10] = ints([]byte(d.Text(src)))
			}
			if t := in.LinkTitle(); t != nil {
				ev[7] = 1
				ev[11] = ints([]byte(t.Text(src)))
			}
		case commonmark.AutolinkKind:
			if in.ChildCount() > 0 {
				ev[10] = ints([]byte(in.Child(0).Text(src)))
			}
		}
	}
	*out = append(*out, ev)
	for i, c := 0, n.ChildCount(); i < c; i++ {
		renderEvents(src, n.Child(i), out)
	}
	*out = append(*out, []any{2, k, ev[2], ev[3], 0, 0, 0, 0, []int{}, []int{}, []int{}, []int{}, []int{}})
}

var allCfgs [][]int

func init() {
	for soft := 0; soft < 3; soft++ {
		for raw := 0; raw < 2; raw++ {
			for filt := 0; filt < 5; filt++ {
				allCfgs = append(allCfgs, []int{soft, raw, filt})
			}
		}
	}
}

func renderOne(input []byte, cfgs [][]int, norefs bool) (t *renderTrace, pm string) {
	defer func() {
		if r := recover(); r != nil {
			pm = fmt.Sprint(r)
		}
	}()
	blocks, refs := commonmark.Parse(append([]byte(nil), input...))
	t = &renderTrace{Refs: [][]any{}, Blocks: [][][]any{}, Runs: []renderRun{}}
	keys := make([]string, 0, len(refs))
	for k := range refs {
		keys = append(keys, k)
	}
	sort.Strings(keys)
	for _, k := range keys {
		d := refs[k]
		h := 0
		if d.TitlePresent {
			h = 1
		}
		t.Refs = append(t.Refs, []any{ints([]byte(k)), ints([]byte(d.Destination)), ints([]byte(d.Title)), h})
	}
	if norefs {
		refs = nil
		t.Refs = [][]any{}
	}
	for _, b := range blocks {
		evs := [][]any{}
		renderEvents(b.Source, b.AsNode(), &evs)
		t.Blocks = append(t.Blocks, evs)
	}
	before := ""
	for _, b := range blocks {
		before += dumpRoot(b)
	}
	for _, c := range cfgs {
		r := &commonmark.HTMLRenderer{ReferenceMap: refs, SoftBreakBehavior: commonmark.SoftBreakBehavior(c[0]), IgnoreRaw: c[1] == 1, FilterTag: filterPreds[c[2]]}
		run := renderRun{Cfg: map[string]int{"soft": c[0], "raw": c[1], "filt": c[2]}, Parts: [][]int{}}
		for _, b := range blocks {
			run.Parts = append(run.Parts, ints(r.AppendBlock(nil, b)))
		}
		var buf, buf2 bytes.Buffer
		if err := r.Render(&buf, blocks); err != nil {
			panic("render error: " + err.Error())
		}
		// between the two calls user code runs a Walk of its own on another tree and ends it early:
		// rendering must not depend on anything such a call leaves behind
		interferenceWalk()
		if err := r.Render(&buf2, blocks); err != nil {
			panic("render error: " + err.Error())
		}
		run.Out, run.Out2 = ints(buf.Bytes()), ints(buf2.Bytes())
		after := ""
		for _, b := range blocks {
			after += dumpRoot(b)
		}
		if after == before {
			run.Same = 1
		}
		t.Runs = append(t.Runs, run)
	}
	return t, ""
}

var interferenceTree []*commonmark.RootBlock

func interferenceWalk() {
	if interferenceTree == nil {
		interferenceTree, _ = commonmark.Parse([]byte("- one *two*\n- [three](/four)\n\n  > five `six`\n"))
	}
	n := 0
	for _, b := range interferenceTree {
		commonmark.Walk(b.AsNode(), &commonmark.WalkOptions{Post: func(c *commonmark.Cursor) bool {
			n++
			return n < 3 // stop the traversal while frames are still pending
		}})
	}
}

func cmdRender(args []string) *Result {
	res := newResult()
	if len(args) < 2 {
		die("usage: render gen|regen base [replay]")
	}
	sw := newShardWriter(args[1], envInt("VERIF_SHARDS", 8))
	defer sw.close()
	one := func(input []byte, cfgs [][]int, norefs bool) {
		t, pm := renderOne(input, cfgs, norefs)
		res.Evaluations += len(cfgs)
		rp := &renderReplay{Kind: "render", Input: ints(input), Cfgs: cfgs, NoRefs: norefs}
		if pm != "" {
			res.addCandidate(Candidate{Sig: map[string]any{"input": ints(input), "class": "panic"}, Record: map[string]any{"kind": "render", "input": ints(input), "cfgs": cfgs, "norefs": norefs}, What: fmt.Sprintf("%q: %s", input, pm)})
			return
		}
		sw.write(t, rp)
		res.Traces += len(cfgs)
		nt := false
		for _, b := range t.Blocks {
			if len(b) > 6 {
				nt = true
			}
		}
		if nt {
			res.nontrivialKey(string(input))
			if len(input) < 60 && len(t.Refs) > 0 {
				res.sample(map[string]any{"input": string(input), "configs": len(cfgs), "first_output": string(bytesOf(t.Runs[0].Out))})
			}
		}
	}
	switch args[0] {
	case "regen":
		f, err := os.Open(args[2])
		if err != nil {
			die("%v", err)
		}
		sc := bufio.NewScanner(f)
		sc.Buffer(make([]byte, 1<<22), 1<<26)
		for sc.Scan() {
			var r renderReplay
			mustUnmarshal(sc.Bytes(), &r)
			one(bytesOf(r.Input), r.Cfgs, r.NoRefs)
		}
	case "gen":
		thorough := os.Getenv("VERIF_TIER") == "thorough"
		src := newSource(10)
		seen := map[string]struct{}{}
		k := int(seed())
		emit := func(doc []byte) {
			if len(doc) > 300 {
				return
			}
			if _, dup := seen[string(doc)]; dup {
				return
			}
			seen[string(doc)] = struct{}{}
			k++
			var cfgs [][]int
			if thorough {
				cfgs = allCfgs
			} else {
				// 6 of the 30 configurations per input, rotating so that all are used
				for j := 0; j < 6; j++ {
					cfgs = append(cfgs, allCfgs[(k*7+j*5)%len(allCfgs)])
				}
			}
			one(append([]byte(nil), doc...), cfgs, false)
			if bytes.Contains(doc, []byte("]:")) {
				// a document that may define references: rendered again with an empty reference map
				one(append([]byte(nil), doc...), cfgs[:2], true)
			}
		}
		for _, ex := range specExamples() {
			emit([]byte(ex))
		}
		attrDocs(2, emit)
		fragmentProducts(2, fragments, emit)
		n := 4000
		if thorough {
			n = 100000
		}
		src.mixed(n, emit)
		src.structured(thorough, emit)
		// URI / info-string / soft-break heavy documents
		for _, u := range []string{"%", "%4", "%41", "%GG", "é", "€", "\xff", "\xe2\x82", "a b", "<", "\"", "a\\b", "&amp;", "&#x41;", "ü", " x", " y", "\x0bz"} {
			for _, t := range []string{"[a](<%s>)", "[a](/p%s)", "<http://x/%s>", "``` %s w\nc\n```", "![%s](/i \"%s\")", "[a]: /d%s\n\n[a] [A]", "1%s\n2  \n3\\\n4", "<a@b.c%s>", "- %s\n\n  9. x\n  10. y", "\t%s\n> \tq"} {
				emit([]byte(fmt.Sprintf(t, u, u)))
			}
		}
	}
	return res
}
