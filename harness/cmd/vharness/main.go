// Command vharness is the Go side of the conformance binding between the TLA+
// specifications in /verif/spec and the real zombiezen.com/go/commonmark code.
//
// Every sub-command prints one JSON object (type Result) on its last stdout line.
// Exit status: 0 = no candidate violation, 1 = candidate violations listed in the
// result, anything else = infrastructure trouble.
package main

import (
	"encoding/json"
	"fmt"
	"os"
	"sort"
)

type command func(args []string) *Result

var commands = map[string]command{}

func register(name string, c command) { commands[name] = c }

func main() {
	if len(os.Args) < 2 {
		names := make([]string, 0, len(commands))
		for n := range commands {
			names = append(names, n)
		}
		sort.Strings(names)
		fmt.Fprintln(os.Stderr, "usage: vharness <command> [args]; commands:", names)
		os.Exit(2)
	}
	c, ok := commands[os.Args[1]]
	if !ok {
		fmt.Fprintln(os.Stderr, "unknown command", os.Args[1])
		os.Exit(2)
	}
	res := c(os.Args[2:])
	out, err := json.Marshal(res)
	if err != nil {
		fmt.Fprintln(os.Stderr, "marshal:", err)
		os.Exit(2)
	}
	fmt.Println(string(out))
	if len(res.Candidates) > 0 {
		os.Exit(1)
	}
}
