package main

import (
	"bufio"
	"bytes"
	"fmt"
	"os"
	"regexp"
	"strings"

	"zombiezen.com/go/commonmark"
)

// C09 / C14 / C16: record pairs of runs (x, T(x)) for Meta.tla.
//
//   meta gen c09|c14|c16 <base>      meta regen <base> <replay.ndjson>

func init() { register("meta", cmdMeta) }

type metaTrace struct {
	Rel   string `json:"rel"`
	X     []int  `json:"x"`
	TX    []int  `json:"tx"`
	Arg   any    `json:"arg"`
	A     any    `json:"a"`
	B     any    `json:"b"`
	Shape []int  `json:"shape"`
	Long  int    `json:"long"` // 1: input longer than 600 bytes, x and tx are not shipped
	Rep   int    `json:"rep"`  // pad relation: the prefix is arg written rep times (rep > 1: tx is not shipped)
}

type metaReplay struct {
	Kind   string `json:"kind"`
	Rel    string `json:"rel"`
	Input  []int  `json:"input"`
	Marker string `json:"marker"`
	N      int    `json:"n"`
	Pad    []int  `json:"pad"`
}

func safeHTML(refs commonmark.ReferenceMap, rb *commonmark.RootBlock) string {
	r := &commonmark.HTMLRenderer{ReferenceMap: refs, IgnoreRaw: true}
	return string(r.AppendBlock(nil, rb))
}

func rawHTML(refs commonmark.ReferenceMap, rb *commonmark.RootBlock) string {
	r := &commonmark.HTMLRenderer{ReferenceMap: refs}
	return string(r.AppendBlock(nil, rb))
}

// rawHTMLFiltered renders with the GFM tag filter: which tags are escaped must not depend on the line-ending style either.
func rawHTMLFiltered(refs commonmark.ReferenceMap, rb *commonmark.RootBlock) string {
	r := &commonmark.HTMLRenderer{ReferenceMap: refs, FilterTag: commonmark.FilterTagGFM}
	return string(r.AppendBlock(nil, rb))
}

func splitLines(x []byte) [][]byte {
	var out [][]byte
	for len(x) > 0 {
		i := bytes.IndexAny(x, "\r\n")
		if i < 0 {
			out = append(out, x)
			break
		}
		e := i + 1
		if x[i] == '\r' && e < len(x) && x[e] == '\n' {
			e++
		}
		out = append(out, x[:e])
		x = x[e:]
	}
	return out
}

func lineBody(l []byte) []byte { return bytes.TrimRight(l, "\r\n") }

func quoteDoc(x []byte) []byte {
	var out []byte
	for _, l := range splitLines(x) {
		out = append(out, "> "...)
		out = append(out, l...)
	}
	return out
}

// firstLineThematic: the first line consists of three or more of one of - _ * and spaces.
func firstLineThematic(tx []int) bool {
	cnt := map[int]int{}
	for _, b := range tx {
		if b == '\n' || b == '\r' {
			break
		}
		cnt[b]++
	}
	for _, c := range []int{'-', '_', '*'} {
		if cnt[c] >= 3 && cnt[c]+cnt[' '] == func() int {
			n := 0
			for _, v := range cnt {
				n += v
			}
			return n
		}() {
			return true
		}
	}
	return false
}

func listIndentDoc(x []byte, marker string, n int) []byte {
	var out []byte
	for i, l := range splitLines(x) {
		switch {
		case i == 0:
			out = append(out, marker...)
			out = append(out, strings.Repeat(" ", n)...)
		case len(lineBody(l)) > 0:
			out = append(out, strings.Repeat(" ", len(marker)+n)...)
		}
		out = append(out, l...)
	}
	return out
}

func listPre(x []byte) bool {
	if len(x) == 0 || x[0] == ' ' || x[0] == '\n' || x[0] == '\r' || bytes.IndexByte(x, '\t') >= 0 {
		return false
	}
	for _, l := range splitLines(x) {
		b := lineBody(l)
		if len(b) > 0 && len(bytes.Trim(b, " ")) == 0 {
			return false
		}
	}
	return true
}

func childBlocksAsRoots(root *commonmark.RootBlock, parent *commonmark.Block, skipMarker bool) []*commonmark.RootBlock {
	var out []*commonmark.RootBlock
	for i, c := 0, parent.ChildCount(); i < c; i++ {
		b := parent.Child(i).Block()
		if b == nil {
			continue
		}
		if skipMarker && b.Kind() == commonmark.ListMarkerKind {
			continue
		}
		out = append(out, &commonmark.RootBlock{Source: root.Source, StartLine: root.StartLine, StartOffset: root.StartOffset, EndOffset: root.EndOffset, Block: *b})
	}
	return out
}

var wsBeforeClose = regexp.MustCompile(`[ \t\r\n]+(</p>|</h[1-6]>|</li>|</blockquote>)`)

// normFinal: the normalisation "modulo insignificant whitespace" used for the final-newline clause:
// whitespace directly before a closing block tag and at the very end is dropped.
func normFinal(h string) string {
	h = wsBeforeClose.ReplaceAllString(h, "$1")
	return strings.TrimRight(h, " \t\r\n")
}

var eolRun = regexp.MustCompile(`[\r\n]+`)

// eolNorm collapses every run of line-ending bytes to one LF. A copied CR next to a line ending the
// renderer generates itself would otherwise fuse into a spurious CRLF (false alarm seen while building).
func eolNorm(h string) string {
	return eolRun.ReplaceAllString(h, "\n")
}

func cmdMeta(args []string) *Result {
	res := newResult()
	if len(args) < 2 {
		die("usage: meta gen c09|c14|c16 base | meta regen base replay")
	}
	base := args[1]
	if args[0] == "gen" {
		base = args[2]
	}
	sw := newShardWriter(base, envInt("VERIF_SHARDS", 8))
	defer sw.close()
	in := &interner{}

	guard := func(f func()) (pm string) {
		defer func() {
			if r := recover(); r != nil {
				pm = fmt.Sprint(r)
			}
		}()
		f()
		return ""
	}
	write := func(t *metaTrace, rp *metaReplay, nontrivial bool, key string) {
		if len(t.X) > 600 {
			if t.Rel == "list" && firstLineThematic(t.TX) {
				return
			}
			t.X, t.TX, t.Long = []int{}, []int{}, 1
		}
		sw.write(t, rp)
		res.Traces++
		if nontrivial {
			res.nontrivialKey(t.Rel + key)
		}
	}
	htmlIDs := func(blocks []*commonmark.RootBlock, refs commonmark.ReferenceMap, norm func(string) string, safe bool) []int {
		ids := []int{}
		for _, b := range blocks {
			h := ""
			if safe {
				h = safeHTML(refs, b)
			} else {
				// the default configuration, followed by the same block under the GFM tag filter
				h = rawHTML(refs, b) + "\x00" + rawHTMLFiltered(refs, b)
			}
			ids = append(ids, in.id(norm(h)))
		}
		return ids
	}
	ident := func(s string) string { return s }

	doC09 := func(x []byte, rel string, marker string, n int) {
		res.Evaluations++
		var tx []byte
		if rel == "quote" {
			tx = quoteDoc(x)
		} else if rel == "quotebare" {
			for _, l := range splitLines(x) {
				tx = append(append(tx, '>'), l...)
			}
		} else {
			tx = listIndentDoc(x, marker, n)
		}
		rp := &metaReplay{Kind: "meta", Rel: rel, Input: ints(x), Marker: marker, N: n}
		t := &metaTrace{Rel: rel, X: ints(x), TX: ints(tx), Arg: []any{ints([]byte(marker)), n}}
		pm := guard(func() {
			ba, ra := commonmark.Parse(append([]byte(nil), x...))
			bb, rb := commonmark.Parse(append([]byte(nil), tx...))
			t.A = htmlIDs(ba, ra, ident, true)
			t.Shape = []int{len(bb), 0, 0}
			t.B = []int{}
			if len(bb) >= 1 {
				t.Shape[1] = int(bb[0].Kind())
			}
			if len(bb) == 1 {
				switch {
				case (rel == "quote" || rel == "quotebare") && bb[0].Kind() == commonmark.BlockQuoteKind:
					t.B = htmlIDs(childBlocksAsRoots(bb[0], &bb[0].Block, false), rb, ident, true)
				case rel == "list" && bb[0].Kind() == commonmark.ListKind:
					t.Shape[2] = bb[0].ChildCount()
					if bb[0].ChildCount() == 1 {
						t.B = htmlIDs(childBlocksAsRoots(bb[0], bb[0].Child(0).Block(), true), rb, ident, true)
					}
				}
			}
			write(t, rp, len(ba) >= 2 || bytes.Count(x, []byte("\n")) >= 2, string(tx))
			if len(ba) >= 2 && len(x) < 60 {
				res.sample(map[string]any{"rel": rel, "x": string(x), "tx": string(tx)})
			}
		})
		if pm != "" {
			res.addCandidate(Candidate{Sig: map[string]any{"input": ints(tx), "class": "panic"}, Record: map[string]any{"kind": "meta", "rel": rel, "input": ints(x), "marker": marker, "n": n}, What: fmt.Sprintf("panic on %q: %s", tx, pm)})
		}
	}
	doC14 := func(x []byte, rel string, pad []byte) {
		var tx []byte
		limited := false
		rep := 1
		switch rel {
		case "crlf":
			if bytes.IndexByte(x, '\r') >= 0 {
				return
			}
			tx = bytes.ReplaceAll(x, []byte("\n"), []byte("\r\n"))
		case "cr":
			if bytes.IndexByte(x, '\r') >= 0 {
				return
			}
			tx = bytes.ReplaceAll(x, []byte("\n"), []byte("\r"))
		case "pad", "padlim":
			if len(pad) > 0 && pad[len(pad)-1] == '\r' && len(x) > 0 && x[0] == '\n' {
				return // CR + LF would fuse into one line ending: not "prepending blank lines"
			}
			if rel == "padlim" {
				// many blank lines in front of a small document, read block by block with a small buffer limit (hook SetVerifLimits):
				// blank lines between blocks are dropped as they are read, so however many there are they never make a block too large
				if len(x) > 80 || len(pad) == 0 || (pad[len(pad)-1] != '\n' && pad[len(pad)-1] != '\r') || (pad[len(pad)-1] == '\r' && pad[0] == '\n') {
					return
				}
				if len(pad) < 100 {
					rep = 600/len(pad) + 1
				}
				limited = true
			}
			tx = append(bytes.Repeat(pad, rep), x...)
		case "final":
			if len(x) > 0 && (x[len(x)-1] == '\n' || x[len(x)-1] == '\r') {
				return
			}
			tx = append(append([]byte(nil), x...), '\n')
		}
		res.Evaluations++
		rp := &metaReplay{Kind: "meta", Rel: rel, Input: ints(x), Pad: ints(pad)}
		if limited {
			rel = "pad" // the relation TLC checks is the padding relation; the replay record keeps the route
		}
		t := &metaTrace{Rel: rel, X: ints(x), TX: ints(tx), Arg: ints(pad), Shape: []int{}, Rep: rep}
		if rep > 1 {
			t.TX = []int{}
		}
		pm := guard(func() {
			ba, ra := commonmark.Parse(append([]byte(nil), x...))
			// the transformed input is parsed through the streaming entry point on every other input, over a reader
			// whose reads end right after each carriage return (CRLF split across reads, a lone CR with nothing behind it yet)
			var bb []*commonmark.RootBlock
			var rb commonmark.ReferenceMap
			if limited {
				commonmark.SetVerifLimits(16, 256)
				bb, rb, _ = streamParseFrom(&lineReader{data: append([]byte(nil), tx...), fixed: 7})
				commonmark.SetVerifLimits(0, 0)
			} else if len(x)%2 == 1 && bytes.IndexByte(tx, '\r') >= 0 {
				bb, rb, _ = streamParseEdgy(append([]byte(nil), tx...))
			} else {
				bb, rb = commonmark.Parse(append([]byte(nil), tx...))
			}
			switch rel {
			case "crlf", "cr":
				// x has LF endings only, so every CR in the output of the transformed input was copied from a line ending: each
				// copied line ending is mapped back to ONE LF (CRLF style: the pair; CR style: the byte) and nothing is collapsed -
				// a line ending too many or too few (a soft break behind a hard break, say) is a difference
				t.A = htmlIDs(ba, ra, ident, false)
				if rel == "crlf" {
					t.B = htmlIDs(bb, rb, func(h string) string {
						return strings.ReplaceAll(strings.ReplaceAll(h, "\r\n", "\n"), "\r", "\n")
					}, false)
				} else {
					t.B = htmlIDs(bb, rb, func(h string) string { return strings.ReplaceAll(h, "\r", "\n") }, false)
				}
			case "final":
				t.A = htmlIDs(ba, ra, normFinal, true)
				t.B = htmlIDs(bb, rb, normFinal, true)
			case "pad":
				rows := func(bs []*commonmark.RootBlock) [][]int {
					out := [][]int{}
					for _, b := range bs {
						out = append(out, []int{in.id(dumpTree(b)), int(b.StartOffset), int(b.EndOffset), b.StartLine})
					}
					return out
				}
				t.A, t.B = rows(ba), rows(bb)
			}
			write(t, rp, len(ba) >= 2 || bytes.Count(x, []byte("\n")) >= 2, string(tx))
			if len(ba) >= 2 && len(x) < 50 {
				res.sample(map[string]any{"rel": rel, "x": string(x), "tx": string(tx)})
			}
		})
		if pm != "" {
			res.addCandidate(Candidate{Sig: map[string]any{"input": ints(tx), "class": "panic"}, Record: map[string]any{"kind": "meta", "rel": rel, "input": ints(x), "pad": ints(pad)}, What: fmt.Sprintf("panic on %q: %s", tx, pm)})
		}
	}
	doC16 := func(x []byte) {
		res.Evaluations++
		rp := &metaReplay{Kind: "meta", Rel: "reparse", Input: ints(x)}
		t := &metaTrace{Rel: "reparse", X: ints(x), TX: []int{}, Arg: []int{}, Shape: []int{}}
		pm := guard(func() {
			// a document with carriage returns is parsed through the streaming entry point over a reader whose reads end
			// right after each CR; the block's Source is then parsed alone the same way
			var blocks []*commonmark.RootBlock
			var refs commonmark.ReferenceMap
			if bytes.IndexByte(x, '\r') >= 0 {
				blocks, refs, _ = streamParseEdgy(append([]byte(nil), x...))
			} else if len(x)%3 == 1 {
				// one line per Read; every block is kept until the last one has been returned (what a caller that collects the
				// blocks before rewriting them does), so a Source that a later Read overwrote is seen
				blocks, refs, _ = streamParseFrom(&lineReader{data: append([]byte(nil), x...)})
			} else {
				blocks, refs = commonmark.Parse(append([]byte(nil), x...))
			}
			a := [][]int{}
			b := [][]int{}
			for _, rb := range blocks {
				a = append(a, []int{int(rb.Kind()), int(rb.StartOffset), int(rb.EndOffset), in.id(dumpTree(rb))})
				// parse the block's Source alone, block by block, with the document's reference matcher
				p := commonmark.NewBlockParser(&edgeReader{data: append([]byte(nil), rb.Source...)})
				var subs []*commonmark.RootBlock
				for {
					sb, err := p.NextBlock()
					if err != nil {
						break
					}
					subs = append(subs, sb)
				}
				ip := &commonmark.InlineParser{ReferenceMatcher: refs}
				first := 0
				for i, sb := range subs {
					ip.Rewrite(sb)
					if i == 0 {
						first = in.id(dumpTree(sb))
					}
				}
				b = append(b, []int{len(subs), first})
			}
			t.A, t.B = a, b
			write(t, rp, len(blocks) >= 2, string(x))
			if len(blocks) >= 3 && len(x) < 60 {
				res.sample(map[string]any{"rel": "reparse", "x": string(x), "blocks": len(blocks)})
			}
		})
		if pm != "" {
			res.addCandidate(Candidate{Sig: map[string]any{"input": ints(x), "class": "panic"}, Record: map[string]any{"kind": "meta", "rel": "reparse", "input": ints(x)}, What: fmt.Sprintf("panic on %q: %s", x, pm)})
		}
	}

	markers := []string{"-", "+", "*", "1.", "1)", "12.", "007)", "123456789.", "999999999)"}
	pads := [][]byte{[]byte("\n"), []byte(" \n"), []byte("\n\t\n"), []byte("\r\n"), []byte("\r"), []byte("  \n\n")}

	if args[0] == "regen" {
		f, err := os.Open(args[2])
		if err != nil {
			die("%v", err)
		}
		sc := bufio.NewScanner(f)
		sc.Buffer(make([]byte, 1<<22), 1<<26)
		for sc.Scan() {
			var r metaReplay
			mustUnmarshal(sc.Bytes(), &r)
			x := bytesOf(r.Input)
			switch r.Rel {
			case "quote", "quotebare", "list":
				doC09(x, r.Rel, r.Marker, r.N)
			case "reparse":
				doC16(x)
			default:
				doC14(x, r.Rel, bytesOf(r.Pad))
			}
		}
		return res
	}
	thorough := os.Getenv("VERIF_TIER") == "thorough"
	src := newSource(9)
	seen := map[string]struct{}{}
	k := 0
	var emit func([]byte)
	switch args[1] {
	case "c09":
		emit = func(doc []byte) {
			if bytes.IndexByte(doc, '\t') >= 0 || len(doc) > 4500 {
				return
			}
			if _, dup := seen[string(doc)]; dup {
				return
			}
			seen[string(doc)] = struct{}{}
			x := append([]byte(nil), doc...)
			doC09(x, "quote", "", 0)
			bare := true
			for _, l := range splitLines(x) {
				if l[0] == ' ' {
					bare = false
				}
			}
			if bare {
				doC09(x, "quotebare", "", 0)
			}
			if listPre(x) {
				k++
				if thorough {
					for _, m := range markers {
						for n := 1; n <= 4; n++ {
							doC09(x, "list", m, n)
						}
					}
				} else {
					for j := 0; j < 4; j++ {
						doC09(x, "list", markers[(k+j*3)%len(markers)], 1+(k+j)%4)
					}
					// the widest marker with the widest padding (content column 14) and with the narrowest
					doC09(x, "list", markers[7+k%2], 4-3*(k%2))
					doC09(x, "list", markers[8-k%2], 4)
				}
			}
		}
	case "c14":
		emit = func(doc []byte) {
			if len(doc) > 600 {
				return
			}
			if _, dup := seen[string(doc)]; dup {
				return
			}
			seen[string(doc)] = struct{}{}
			x := append([]byte(nil), doc...)
			doC14(x, "crlf", nil)
			doC14(x, "cr", nil)
			doC14(x, "final", nil)
			k++
			doC14(x, "pad", pads[k%len(pads)])
			doC14(x, "padlim", pads[(k+3)%len(pads)])
			if thorough {
				doC14(x, "pad", pads[(k+1)%len(pads)])
				doC14(x, "pad", pads[(k+2)%len(pads)])
			}
		}
	case "c16":
		emit = func(doc []byte) {
			if len(doc) > 4500 {
				return
			}
			if _, dup := seen[string(doc)]; dup {
				return
			}
			seen[string(doc)] = struct{}{}
			doC16(append([]byte(nil), doc...))
		}
	default:
		die("unknown family %s", args[1])
	}
	for _, ex := range specExamples() {
		emit([]byte(ex))
		if thorough || args[1] == "c14" {
			allPrefixes([]byte(ex), emit)
		}
	}
	fragmentProducts(2, fragments, emit)
	if thorough {
		var lib []string
		for i := int(seed()) % 2; i < len(fragments); i += 2 {
			lib = append(lib, fragments[i])
		}
		fragmentProducts(3, lib, emit)
	}
	n := 12000
	if thorough {
		n = 300000
	}
	src.mixed(n, emit)
	src.structured(thorough, emit)
	exhaustive([]string{"a", " ", "\n", ">", "-", "#", "`", "1.", "*", "\\", "[", "]"}, map[bool]int{false: 4, true: 5}[thorough], emit)
	return res
}
