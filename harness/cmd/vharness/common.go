package main

import (
	"bufio"
	"encoding/json"
	"fmt"
	"hash/fnv"
	"os"
	"strconv"
	"strings"
)

// Candidate is a candidate violation. Sig identifies it for known-finding matching
// (keys: input, entry, deviation, class ...); Record is everything needed to replay it.
type Candidate struct {
	Sig    map[string]any `json:"sig"`
	Record map[string]any `json:"record"`
	What   string         `json:"what"`
}

// Result is what every sub-command reports.
type Result struct {
	Evaluations int            `json:"evaluations"`
	Nontrivial  int            `json:"nontrivial"`
	Traces      int            `json:"traces"`
	Samples     []any          `json:"samples"`
	Candidates  []Candidate    `json:"candidates"`
	NCandidates int            `json:"ncandidates"`
	Extra       map[string]any `json:"extra,omitempty"`
	Drift       []string       `json:"drift,omitempty"`

	distinct map[uint64]struct{}
	perClass map[string]int
}

const maxCandidates = 3000
const perClassCap = 40

func newResult() *Result {
	return &Result{distinct: map[uint64]struct{}{}, Extra: map[string]any{}, Samples: []any{}, Candidates: []Candidate{}}
}

// addCandidate keeps at most perClassCap candidates per signature class so that
// one frequent class cannot hide another behind the total cap.
func (r *Result) addCandidate(c Candidate) {
	r.NCandidates++
	class, _ := c.Sig["class"].(string)
	if d, ok := c.Sig["deviation"].(string); ok {
		class = "dev:" + d
	}
	if r.perClass == nil {
		r.perClass = map[string]int{}
	}
	r.perClass[class]++
	if r.perClass[class] <= perClassCap && len(r.Candidates) < maxCandidates {
		r.Candidates = append(r.Candidates, c)
	}
}

func (r *Result) sample(v any) {
	if len(r.Samples) < 8 {
		r.Samples = append(r.Samples, v)
	}
}

// nontrivial records a distinct non-trivial case by its key.
func (r *Result) nontrivialKey(key string) {
	h := fnv.New64a()
	h.Write([]byte(key))
	k := h.Sum64()
	if _, ok := r.distinct[k]; !ok {
		r.distinct[k] = struct{}{}
		r.Nontrivial++
	}
}

func die(format string, a ...any) {
	fmt.Fprintf(os.Stderr, format+"\n", a...)
	os.Exit(2)
}

// forEachTLCRecord calls f for every record TLC printed with PrintT(ToJson(...)):
// such lines are TLA+-quoted strings starting with "{ .
func forEachTLCRecord(path string, f func(raw []byte)) int {
	fh, err := os.Open(path)
	if err != nil {
		die("open %s: %v", path, err)
	}
	defer fh.Close()
	sc := bufio.NewScanner(fh)
	sc.Buffer(make([]byte, 1<<22), 1<<26)
	n := 0
	for sc.Scan() {
		line := sc.Text()
		if !strings.HasPrefix(line, "\"{") {
			continue
		}
		js, err := strconv.Unquote(line)
		if err != nil {
			die("unquote TLC record: %v: %.200s", err, line)
		}
		n++
		f([]byte(js))
	}
	if err := sc.Err(); err != nil {
		die("scan %s: %v", path, err)
	}
	return n
}

// parallelTLCRecords replays the records of the given TLC outputs on a fixed number of workers (record i goes to
// worker i mod W, each worker keeps its own Result and processes its records in file order) and merges the
// results in worker order, so that counts, samples and the candidate list are the same on every run.
func parallelTLCRecords(paths []string, check func(res *Result, raw []byte)) *Result {
	const W = 16
	chans := make([]chan []byte, W)
	results := make([]*Result, W)
	done := make(chan struct{}, W)
	for w := 0; w < W; w++ {
		chans[w] = make(chan []byte, 256)
		results[w] = newResult()
		go func(w int) {
			for raw := range chans[w] {
				check(results[w], raw)
			}
			done <- struct{}{}
		}(w)
	}
	i := 0
	for _, path := range paths {
		forEachTLCRecord(path, func(raw []byte) {
			chans[i%W] <- raw
			i++
		})
	}
	for w := 0; w < W; w++ {
		close(chans[w])
	}
	for w := 0; w < W; w++ {
		<-done
	}
	res := newResult()
	for _, r := range results {
		res.Evaluations += r.Evaluations
		for k := range r.distinct {
			if _, ok := res.distinct[k]; !ok {
				res.distinct[k] = struct{}{}
				res.Nontrivial++
			}
		}
		for _, smp := range r.Samples {
			res.sample(smp)
		}
		n := r.NCandidates
		for _, c := range r.Candidates {
			res.addCandidate(c)
		}
		res.NCandidates += n - len(r.Candidates)
		res.Drift = append(res.Drift, r.Drift...)
		for k, v := range r.Extra {
			if n, ok := v.(int); ok {
				prev, _ := res.Extra[k].(int)
				res.Extra[k] = prev + n
			}
		}
	}
	return res
}

func mustUnmarshal(raw []byte, v any) {
	if err := json.Unmarshal(raw, v); err != nil {
		die("unmarshal: %v: %.300s", err, raw)
	}
}

func ints(b []byte) []int {
	out := make([]int, len(b))
	for i, c := range b {
		out[i] = int(c)
	}
	return out
}

func bytesOf(v []int) []byte {
	out := make([]byte, len(v))
	for i, c := range v {
		out[i] = byte(c)
	}
	return out
}

func envInt(name string, def int) int {
	if s := os.Getenv(name); s != "" {
		if n, err := strconv.Atoi(s); err == nil {
			return n
		}
	}
	return def
}

func seed() int64 { return int64(envInt("VERIF_SEED", 1)) }

func readReplay(path string) map[string]any {
	data, err := os.ReadFile(path)
	if err != nil {
		die("read replay: %v", err)
	}
	var v struct {
		Record map[string]any `json:"record"`
	}
	mustUnmarshal(data, &v)
	return v.Record
}

// anyInts converts a decoded JSON array of numbers to []int.
func anyInts(v any) []int {
	arr, _ := v.([]any)
	out := make([]int, len(arr))
	for i, x := range arr {
		f, _ := x.(float64)
		out[i] = int(f)
	}
	return out
}

func anyStrings(v any) []string {
	arr, _ := v.([]any)
	out := make([]string, len(arr))
	for i, x := range arr {
		out[i], _ = x.(string)
	}
	return out
}

// shardWriter writes trace records round-robin into <base>.<k> files (one TLC process per shard)
// and the matching replay records into <base>.replay.<k> (same line number = same trace).
type shardWriter struct {
	files  []*os.File
	bufs   []*bufio.Writer
	rfiles []*os.File
	rbufs  []*bufio.Writer
	counts []int
	next   int
}

func newShardWriter(base string, n int) *shardWriter {
	sw := &shardWriter{}
	for k := 0; k < n; k++ {
		f, err := os.Create(fmt.Sprintf("%s.%d", base, k))
		if err != nil {
			die("%v", err)
		}
		rf, err := os.Create(fmt.Sprintf("%s.replay.%d", base, k))
		if err != nil {
			die("%v", err)
		}
		sw.files = append(sw.files, f)
		sw.bufs = append(sw.bufs, bufio.NewWriterSize(f, 1<<20))
		sw.rfiles = append(sw.rfiles, rf)
		sw.rbufs = append(sw.rbufs, bufio.NewWriterSize(rf, 1<<20))
		sw.counts = append(sw.counts, 0)
	}
	return sw
}

// write stores one trace and its replay record; returns (shard, 1-based line = TLC's tid).
func (sw *shardWriter) write(trace, replay any) (int, int) {
	k := sw.next
	sw.next = (sw.next + 1) % len(sw.files)
	tb, err := json.Marshal(trace)
	if err != nil {
		die("marshal trace: %v", err)
	}
	rb, err := json.Marshal(replay)
	if err != nil {
		die("marshal replay: %v", err)
	}
	sw.bufs[k].Write(tb)
	sw.bufs[k].WriteByte('\n')
	sw.rbufs[k].Write(rb)
	sw.rbufs[k].WriteByte('\n')
	sw.counts[k]++
	return k, sw.counts[k]
}

func (sw *shardWriter) close() {
	for k := range sw.files {
		sw.bufs[k].Flush()
		sw.files[k].Close()
		sw.rbufs[k].Flush()
		sw.rfiles[k].Close()
	}
}
