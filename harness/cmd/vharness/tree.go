package main

import (
	"bufio"
	"fmt"
	"os"
	"strings"
	"time"

	"zombiezen.com/go/commonmark"
)

// C02 / C03 / C05 / C13: record every root block of every explored input as a pre/post-order
// event stream (own traversal over Node.ChildCount/Child) for Tree.tla.
//
//   tree gen <base>                     explore inputs -> <base>.<k>, <base>.replay.<k>
//   tree regen <base> <replay.ndjson>   regenerate the traces of the given replay records (fresh process)

func init() { register("tree", cmdTree) }

type treeTrace struct {
	Src []int   `json:"src"`
	Evs []Event `json:"evs"`
}

type treeReplay struct {
	Kind  string `json:"kind"`
	Input []int  `json:"input"`
	Route int    `json:"route"` // 0 = Parse, 1 = NewBlockParser + Extract + Rewrite
	Root  int    `json:"root"`
}

var treeHangs int

// parseRoute parses under recover() and a watchdog: a parse that does not return within 20 s (normal time: microseconds) is reported
// like a panic - there is no tree to look at - and after three of them (each leaves a spinning goroutine behind) the run stops parsing
// anything that is not tiny.
func parseRoute(input []byte, route int) (blocks []*commonmark.RootBlock, pm string) {
	if treeHangs >= 3 && len(input) > 8 {
		return nil, ""
	}
	type out struct {
		blocks []*commonmark.RootBlock
		pm     string
	}
	ch := make(chan out, 1)
	go func() {
		var o out
		defer func() {
			if r := recover(); r != nil {
				o.pm = fmt.Sprint(r)
			}
			ch <- o
		}()
		if route == 0 {
			o.blocks, _ = commonmark.Parse(append([]byte(nil), input...))
		} else {
			o.blocks, _, _ = streamParseEdgy(append([]byte(nil), input...))
		}
	}()
	select {
	case o := <-ch:
		return o.blocks, o.pm
	case <-time.After(20 * time.Second):
		treeHangs++
		return nil, "the parser did not return within 20 s (no tree to examine)"
	}
}

func cmdTree(args []string) *Result {
	res := newResult()
	if len(args) < 2 {
		die("usage: tree gen|regen base [replay]")
	}
	sw := newShardWriter(args[1], envInt("VERIF_SHARDS", 8))
	defer sw.close()
	writeRoots := func(input []byte, route int, only int) {
		blocks, pm := parseRoute(input, route)
		if pm != "" {
			res.addCandidate(Candidate{Sig: map[string]any{"input": ints(input), "class": "panic"},
				Record: map[string]any{"kind": "tree", "input": ints(input), "route": route, "root": 0}, What: fmt.Sprintf("panic parsing %q: %s", input, pm)})
			return
		}
		for i, rb := range blocks {
			if only >= 0 && i != only {
				continue
			}
			if len(rb.Source) > 1500 {
				continue // keep TLC records small; long blocks are covered structurally by C01/C08/C16
			}
			evs := rootEvents(rb)
			sw.write(&treeTrace{Src: ints(rb.Source), Evs: evs}, &treeReplay{Kind: "tree", Input: ints(input), Route: route, Root: i})
			res.Traces++
			if route == 0 {
				var sb strings.Builder
				skeletonKey(rb.AsNode(), &sb)
				if nontrivialTree(rb.AsNode()) {
					res.nontrivialKey(sb.String())
				}
				if len(evs) > 16 && len(rb.Source) < 60 {
					res.sample(map[string]any{"source": string(rb.Source), "events": len(evs), "skeleton": sb.String()})
				}
			}
		}
	}
	switch args[0] {
	case "regen":
		f, err := os.Open(args[2])
		if err != nil {
			die("%v", err)
		}
		sc := bufio.NewScanner(f)
		sc.Buffer(make([]byte, 1<<22), 1<<26)
		for sc.Scan() {
			var r treeReplay
			mustUnmarshal(sc.Bytes(), &r)
			res.Evaluations++
			writeRoots(bytesOf(r.Input), r.Route, r.Root)
		}
	case "gen":
		seen := map[string]struct{}{}
		emit := func(doc []byte) {
			if _, dup := seen[string(doc)]; dup {
				return
			}
			seen[string(doc)] = struct{}{}
			res.Evaluations++
			d := append([]byte(nil), doc...)
			writeRoots(d, 0, -1)
			if res.Evaluations%4 == 0 {
				writeRoots(d, 1, -1)
			}
		}
		treeInputs(emit)
	}
	return res
}

// treeInputs: the exploration set shared by the tree-shaped properties.
func treeInputs(emit func([]byte)) {
	thorough := os.Getenv("VERIF_TIER") == "thorough"
	for _, ex := range specExamples() {
		emit([]byte(ex))
	}
	// fragment products: every sequence of <= 2 (quick) / 3 (thorough, strided) fragments
	for k := 1; k <= 2; k++ {
		fragmentProducts(k, fragments, emit)
	}
	src := newSource(2)
	if thorough {
		var lib []string
		for i := int(seed()) % 3; i < len(fragments); i += 3 {
			lib = append(lib, fragments[i])
		}
		fragmentProducts(3, lib, emit)
		for _, ex := range specExamples() {
			allPrefixes([]byte(ex), emit)
		}
	}
	// every fragment pair wrapped in each container kind
	fragmentProducts(2, fragments, func(doc []byte) {
		if src.rng.Intn(4) == 0 || thorough {
			emit(src.wrap(doc))
		}
	})
	n := 12000
	if thorough {
		n = 300000
	}
	src.mixed(n, emit)
	// structured families: nested inline constructs, links/definitions with every white-space layout in every
	// container, and products of (container prefix x content) lines
	src.structured(thorough, emit)
	// all short strings over an inline-rich alphabet (brackets, delimiters, escapes, multi-byte, NUL)
	maxLen := 4
	if thorough {
		maxLen = 5
	}
	exhaustive([]string{"*", "_", "[", "]", "(", ")", "`", "\\", "é", "a", " ", "\n", "!", "<", ">", "&", ";", "\x00"}, maxLen-1, emit)
	exhaustive([]string{"a", "\\", "é", "\x00", "\n", "> ", "- ", "#", " "}, maxLen+1, emit)
}
