package main

import (
	"bufio"
	"errors"
	"fmt"
	"hash/fnv"
	"os"
	"strings"

	"zombiezen.com/go/commonmark"
	"zombiezen.com/go/commonmark/format"
)

// C20, first clause (Format.tla).
//   format model <tlc outputs...>    direction A: replay Format.tla behaviours (Push / Pop / S sequences with a
//                                    failure point) on the real indenting writer (verif-tag export VerifWriter)
//   format gen <base>                direction B: format.Format on every explored input with a healthy writer
//                                    (twice, both writer flavours) and with a writer failing at the k-th call
//   format regen <base> <replay.ndjson>
//   format --replay <file>           replays a direction-A record

func init() { register("format", cmdFormat) }

// ---- scripted writers

type writeCall struct {
	data   []byte
	failed bool
}

// scriptWriter fails at its failAt-th call (1-based; 0 = never) with a fresh error value; a later call
// would fail with a different error. It records every call.
type scriptWriter struct {
	failAt int
	calls  []writeCall
	errs   []error
	all    []byte
}

func (w *scriptWriter) Write(p []byte) (int, error) {
	n := len(w.calls) + 1
	if w.failAt != 0 && n >= w.failAt {
		err := fmt.Errorf("scripted failure of call %d", n)
		w.errs = append(w.errs, err)
		w.calls = append(w.calls, writeCall{append([]byte(nil), p...), true})
		return 0, err
	}
	w.calls = append(w.calls, writeCall{append([]byte(nil), p...), false})
	w.all = append(w.all, p...)
	return len(p), nil
}

// errID: 0 nil, k = the error handed out by the k-th call, -1 anything else.
func (w *scriptWriter) errID(err error) int {
	if err == nil {
		return 0
	}
	for i, e := range w.errs {
		if err == e {
			return w.failAt + i
		}
	}
	for i, e := range w.errs {
		if errors.Is(err, e) {
			return -(w.failAt + i) - 1000 // wrapped: not the writer's error value itself
		}
	}
	return -1
}

// scriptStringWriter additionally implements io.StringWriter (the other path of newFormatWriter).
type scriptStringWriter struct{ *scriptWriter }

func (w scriptStringWriter) WriteString(s string) (int, error) { return w.Write([]byte(s)) }

func digest(p []byte) int {
	h := fnv.New32a()
	h.Write(p)
	return int(h.Sum32() & 0xfffff)
}

func callPairs(calls []writeCall) [][2]int {
	out := make([][2]int, len(calls))
	for i, c := range calls {
		out[i] = [2]int{len(c.data), digest(c.data)}
	}
	return out
}

// ---- direction A

type fmtModelRec struct {
	Ops    [][]any `json:"ops"`
	FailAt int     `json:"failAt"`
	Out    [][]int `json:"out"`
	Err    int     `json:"err"`
}

func runWriterOps(r *fmtModelRec, stringWriter bool) (calls []writeCall, errID int, pm string) {
	defer func() {
		if x := recover(); x != nil {
			pm = fmt.Sprint(x)
		}
	}()
	w := &scriptWriter{failAt: r.FailAt}
	var vw *format.VerifWriter
	if stringWriter {
		vw = format.NewVerifWriter(scriptStringWriter{w})
	} else {
		vw = format.NewVerifWriter(w)
	}
	for i, op := range r.Ops {
		name, _ := op[0].(string)
		switch name {
		case "push":
			vw.Push(string(bytesOf(anyInts(op[1]))))
		case "pop":
			vw.Pop()
		case "s":
			if i%2 == 0 {
				vw.S(string(bytesOf(anyInts(op[1]))))
			} else {
				vw.B(bytesOf(anyInts(op[1])))
			}
		}
	}
	return w.calls, w.errID(vw.Err()), ""
}

func fmtCheckModel(res *Result, r *fmtModelRec) {
	res.Evaluations++
	key := jsonString(r.Ops) + fmt.Sprint(r.FailAt)
	if len(r.Out) >= 3 {
		res.nontrivialKey(key)
	}
	if len(r.Ops) >= 3 && r.FailAt == 3 && len(r.Out) == 3 {
		res.sample(map[string]any{"ops": r.Ops, "failAt": r.FailAt, "calls": r.Out, "err": r.Err})
	}
	rec := map[string]any{"kind": "format-model", "rec": r}
	for _, sw := range []bool{false, true} {
		calls, id, pm := runWriterOps(r, sw)
		if pm != "" {
			res.addCandidate(Candidate{Sig: map[string]any{"class": "panic", "case": key}, Record: rec, What: "formatWriter panicked: " + pm})
			return
		}
		got := make([][]int, len(calls))
		for i, c := range calls {
			got[i] = ints(c.data)
		}
		// Verdicts come from what the property states (the writer protocol); a call sequence that merely
		// differs from the implementation-shaped machine is model drift, not a violation.
		firstFail := 0
		for i, c := range calls {
			if c.failed {
				firstFail = i + 1
				break
			}
		}
		class := ""
		switch {
		case firstFail > 0 && len(calls) > firstFail:
			class = "write-after-failure"
		case firstFail > 0 && id == 0:
			class = "failure-swallowed"
		case firstFail == 0 && id != 0:
			class = "error-without-failure"
		case id != firstFail:
			class = "wrong-error-returned"
		}
		if class != "" {
			res.addCandidate(Candidate{Sig: map[string]any{"class": class, "case": key}, Record: rec,
				What: fmt.Sprintf("ops %s failAt=%d stringWriter=%v: %s: formatWriter made calls %v (call %d failed) and kept error %d", jsonString(r.Ops), r.FailAt, sw, class, got, firstFail, id)})
			return
		}
		if fmt.Sprint(got) != fmt.Sprint(r.Out) || id != r.Err {
			if len(res.Drift) < 20 {
				res.Drift = append(res.Drift, fmt.Sprintf("formatWriter: ops %s failAt=%d stringWriter=%v: Format.tla calls %v err=%d, code made %v err=%d", jsonString(r.Ops), r.FailAt, sw, r.Out, r.Err, got, id))
			}
			n, _ := res.Extra["writer_machine_drift"].(int)
			res.Extra["writer_machine_drift"] = n + 1
			return
		}
	}
}

// ---- direction B

type fmtRun struct {
	K     int
	SW    int
	Ret   int
	Calls [][2]int
}

func (r fmtRun) MarshalJSON() ([]byte, error) {
	return []byte(fmt.Sprintf("[%d,%d,%d,%s]", r.K, r.SW, r.Ret, jsonString(r.Calls))), nil
}

type fmtTrace struct {
	H     [][2]int `json:"h"`
	H2    [][2]int `json:"h2"`
	O1    int      `json:"o1"`
	O2    int      `json:"o2"`
	Ret0  int      `json:"ret0"`
	Ret02 int      `json:"ret02"`
	D1    int      `json:"d1"`
	D2    int      `json:"d2"`
	Runs  []fmtRun `json:"runs"`
}

type fmtReplay struct {
	Kind  string `json:"kind"`
	Input []int  `json:"input"`
}

func dumpAll(blocks []*commonmark.RootBlock) int {
	var sb strings.Builder
	for _, b := range blocks {
		sb.WriteString(dumpRoot(b))
	}
	return digest([]byte(sb.String()))
}

func formatWith(blocks []*commonmark.RootBlock, failAt int, stringWriter bool) (w *scriptWriter, ret int) {
	w = &scriptWriter{failAt: failAt}
	var err error
	if stringWriter {
		err = format.Format(scriptStringWriter{w}, blocks)
	} else {
		err = format.Format(w, blocks)
	}
	return w, w.errID(err)
}

// failurePoints: every k up to min(n, dense) plus a seeded sample of later ones and n, n+1.
func failurePoints(n, dense int, src *inputSource) []int {
	var ks []int
	for k := 1; k <= n && k <= dense; k++ {
		ks = append(ks, k)
	}
	if n > dense {
		for i := 0; i < 4; i++ {
			ks = append(ks, dense+1+src.rng.Intn(n-dense))
		}
		ks = append(ks, n)
	}
	ks = append(ks, n+1)
	return ks
}

func runFormatTrace(input []byte, dense int, src *inputSource) (t *fmtTrace, pm string) {
	defer func() {
		if x := recover(); x != nil {
			pm = fmt.Sprint(x)
		}
	}()
	blocks, _ := commonmark.Parse(input)
	t = &fmtTrace{}
	t.D1 = dumpAll(blocks)
	w1, r1 := formatWith(blocks, 0, false)
	w2, r2 := formatWith(blocks, 0, true)
	t.H, t.H2, t.Ret0, t.Ret02 = callPairs(w1.calls), callPairs(w2.calls), r1, r2
	t.O1, t.O2 = digest(w1.all), digest(w2.all)
	for i, k := range failurePoints(len(w1.calls), dense, src) {
		sw := (i + k) % 2
		w, ret := formatWith(blocks, k, sw == 1)
		t.Runs = append(t.Runs, fmtRun{K: k, SW: sw, Ret: ret, Calls: callPairs(w.calls)})
	}
	t.D2 = dumpAll(blocks)
	return t, ""
}

func cmdFormat(args []string) *Result {
	res := newResult()
	if len(args) == 2 && args[0] == "--replay" {
		rec := readReplay(args[1])
		var r fmtModelRec
		mustUnmarshal([]byte(jsonString(rec["rec"])), &r)
		fmtCheckModel(res, &r)
		return res
	}
	if len(args) < 2 {
		die("usage: format model <tlc outputs...> | gen <base> | regen <base> <replay>")
	}
	if args[0] == "model" {
		for _, path := range args[1:] {
			forEachTLCRecord(path, func(raw []byte) {
				var r fmtModelRec
				mustUnmarshal(raw, &r)
				fmtCheckModel(res, &r)
			})
		}
		res.Traces = res.Evaluations
		return res
	}
	thorough := os.Getenv("VERIF_TIER") == "thorough"
	dense := 14
	if thorough {
		dense = 40
	}
	sw := newShardWriter(args[1], envInt("VERIF_SHARDS", 8))
	defer sw.close()
	src := newSource(20)
	runs := 0
	one := func(input []byte) {
		res.Evaluations++
		in := append([]byte(nil), input...)
		t, pm := runFormatTrace(in, dense, src)
		if pm != "" {
			res.addCandidate(Candidate{Sig: map[string]any{"input": ints(input), "class": "panic"}, Record: map[string]any{"kind": "format", "input": ints(input)},
				What: fmt.Sprintf("%q: panic %s", input, pm)})
			return
		}
		sw.write(t, &fmtReplay{Kind: "format", Input: ints(input)})
		res.Traces++
		runs += len(t.Runs)
		if len(t.H) >= 6 {
			res.nontrivialKey(string(input))
		}
		if len(input) < 30 && len(t.H) >= 8 && len(t.H) <= 12 {
			res.sample(map[string]any{"input": string(input), "healthy_calls": len(t.H), "failure_points": len(t.Runs), "run_k3": t.Runs[2]})
		}
	}
	switch args[0] {
	case "regen":
		f, err := os.Open(args[2])
		if err != nil {
			die("%v", err)
		}
		sc := bufio.NewScanner(f)
		sc.Buffer(make([]byte, 1<<24), 1<<28)
		for sc.Scan() {
			var r fmtReplay
			mustUnmarshal(sc.Bytes(), &r)
			one(bytesOf(r.Input))
		}
	case "gen":
		seen := map[string]struct{}{}
		emit := func(doc []byte) {
			if len(doc) > 600 {
				return
			}
			if _, dup := seen[string(doc)]; dup {
				return
			}
			seen[string(doc)] = struct{}{}
			one(doc)
		}
		for _, ex := range specExamples() {
			emit([]byte(ex))
		}
		n := 9000
		if thorough {
			n = 150000
		}
		src2 := newSource(21)
		src2.mixed(n, emit)
		src2.structured(thorough, emit)
		fragmentProducts(2, fragments, func(d []byte) {
			if thorough || src2.rng.Intn(4) == 0 {
				emit(d)
			}
		})
		exhaustive([]string{"> ", "- ", "1. ", "a", "\n", "  ", "`", "#", "*", "[", "]", "\x00", "\r"}, map[bool]int{false: 3, true: 4}[thorough], emit)
		fmt.Fprintf(os.Stderr, "format: %d inputs, %d failing runs\n", res.Evaluations, runs)
	}
	res.Extra["failing_runs"] = runs
	return res
}
