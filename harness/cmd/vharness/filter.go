package main

import (
	"bufio"
	"bytes"
	"fmt"
	"hash/fnv"
	"os"
	"strings"

	"zombiezen.com/go/commonmark"
)

// C17: record (predicate, output without filter, output with filter) for Filter.tla.
//
//   filter gen <base> [tlc outputs with raw vectors...]      filter regen <base> <replay.ndjson>

func init() { register("filter", cmdFilter) }

// predicate ids as in Filter.tla: 1 GFM, 2 always, 3 never, 4 {script}, 5 {b, script}
var filterByID = map[int]func([]byte) bool{
	1: commonmark.FilterTagGFM,
	2: func([]byte) bool { return true },
	3: func([]byte) bool { return false },
	4: func(t []byte) bool { return string(t) == "script" },
	5: func(t []byte) bool { return string(t) == "script" || string(t) == "b" },
}

type filterTrace struct {
	P     int   `json:"p"`
	Plain []int `json:"plain"`
	Filt  []int `json:"filt"`
}

type filterReplay struct {
	Kind  string `json:"kind"`
	Input []int  `json:"input"`
	P     int    `json:"p"`
	Soft  int    `json:"soft"`
}

func cmdFilter(args []string) *Result {
	res := newResult()
	if len(args) < 2 {
		die("usage: filter gen|regen base ...")
	}
	sw := newShardWriter(args[1], envInt("VERIF_SHARDS", 8))
	defer sw.close()
	seen := map[uint64]struct{}{}
	one := func(input []byte, p, soft int, dedupe bool) {
		var plain, filt []byte
		pm := ""
		func() {
			defer func() {
				if r := recover(); r != nil {
					pm = fmt.Sprint(r)
				}
			}()
			blocks, refs := commonmark.Parse(append([]byte(nil), input...))
			var b1, b2 bytes.Buffer
			(&commonmark.HTMLRenderer{ReferenceMap: refs, SoftBreakBehavior: commonmark.SoftBreakBehavior(soft)}).Render(&b1, blocks)
			(&commonmark.HTMLRenderer{ReferenceMap: refs, SoftBreakBehavior: commonmark.SoftBreakBehavior(soft), FilterTag: filterByID[p]}).Render(&b2, blocks)
			plain, filt = b1.Bytes(), b2.Bytes()
		}()
		rp := &filterReplay{Kind: "filter", Input: ints(input), P: p, Soft: soft}
		if pm != "" {
			res.addCandidate(Candidate{Sig: map[string]any{"input": ints(input), "class": "panic"}, Record: map[string]any{"kind": "filter", "input": ints(input), "p": p, "soft": soft}, What: fmt.Sprintf("%q: %s", input, pm)})
			return
		}
		res.Evaluations++
		if dedupe {
			h := fnv.New64a()
			h.Write([]byte{byte(p)})
			h.Write(plain)
			k := h.Sum64()
			if _, ok := seen[k]; ok {
				return
			}
			seen[k] = struct{}{}
		}
		sw.write(&filterTrace{P: p, Plain: ints(plain), Filt: ints(filt)}, rp)
		res.Traces++
		if !bytes.Equal(plain, filt) && p != 2 {
			res.nontrivialKey(fmt.Sprint(p, string(plain)))
			if len(input) < 60 {
				res.sample(map[string]any{"input": string(input), "predicate": p, "plain": string(plain), "filtered": string(filt)})
			}
		}
	}
	switch args[0] {
	case "regen":
		f, err := os.Open(args[2])
		if err != nil {
			die("%v", err)
		}
		sc := bufio.NewScanner(f)
		sc.Buffer(make([]byte, 1<<22), 1<<26)
		for sc.Scan() {
			var r filterReplay
			mustUnmarshal(sc.Bytes(), &r)
			one(bytesOf(r.Input), r.P, r.Soft, false)
		}
	case "gen":
		thorough := os.Getenv("VERIF_TIER") == "thorough"
		k := 0
		emit := func(doc []byte) {
			if len(doc) > 700 {
				return
			}
			d := append([]byte(nil), doc...)
			k++
			for _, p := range []int{1, 4, 5} {
				one(d, p, k%3, true)
			}
			one(d, 3, k%3, true)
			if k%7 == 0 || thorough {
				one(d, 2, k%3, true)
			}
		}
		// directed families are large: one rejecting predicate per document (rotating), 'never' for every fourth
		emitLight := func(doc []byte) {
			if thorough {
				emit(doc)
				return
			}
			d := append([]byte(nil), doc...)
			k++
			one(d, []int{1, 5, 4}[k%3], k%3, true)
			if k%4 == 0 {
				one(d, 3, k%3, true)
			}
		}
		// (A) the model's raw vectors, as an HTML block and as inline raw HTML
		for _, path := range args[2:] {
			forEachTLCRecord(path, func(raw []byte) {
				var r struct {
					Raw []int `json:"raw"`
				}
				mustUnmarshal(raw, &r)
				rb := bytesOf(r.Raw)
				emit(append(append([]byte("<div>\n"), rb...), '\n'))
				emit(append(append([]byte("x "), rb...), " y\n"...))
			})
		}
		// (B) arbitrary inputs rich in '<'
		for _, ex := range specExamples() {
			if strings.Contains(ex, "<") {
				emit([]byte(ex))
			}
		}
		src := newSource(17)
		n := 4000
		if thorough {
			n = 150000
		}
		pieces := []string{"<", ">", "<script>", "</script>", "<SCRIPT", "<!--", "-->", "--!>", "<!-->", "<!--->", "<![CDATA[", "]]>", "<?", "?>", "<!X", "<b", "<title>", "<xmp", "<style\n", "<iframe src=\"x\">",
			"<plaintext>", "<3", "<<", "\"", "'", "=", " ", "\n", "a", "<div>\n", "<pre>", "</pre>", "`", "<textarea>", "<noembed>", "<noframes>", "<a title=\">\">", "<script<script>", "/", "-", "!", "\f", "<script\f", "<XMP\f>"}
		for i := 0; i < n; i++ {
			var sb strings.Builder
			if src.rng.Intn(2) == 0 {
				sb.WriteString("<div>\n")
			}
			for j, m := 0, 1+src.rng.Intn(7); j < m; j++ {
				sb.WriteString(src.pick(pieces))
			}
			emit([]byte(sb.String()))
		}
		src.mixed(n, func(d []byte) {
			if bytes.IndexByte(d, '<') >= 0 {
				emit(d)
			}
		})
		// (C) directed: an allowed tag whose inside holds quotes, '=', '/' and a second '<' in every arrangement, then a rejected
		// tag, then a tail that could pair with the junk - where a scanner's idea of "the end of this tag" can drift from
		// the tokenizer's (which ends every tag at the first '>' outside a quoted attribute VALUE)
		opens := []string{"<div", "<a href"}
		victims := []string{"<script>alert(1)</script>", "<STYLE>"}
		tails := []string{"", " \"", "\">"}
		maxJunk := 3
		if thorough {
			maxJunk = 4
			opens = append(opens, "<b")
			victims = append(victims, "<iframe src=x>")
			tails = append(tails, " '>")
		}
		exhaustive([]string{" ", "\"", "'", "=", "x", "/", "<title", "\f", "<!--", ">", "=\">", "<!--\"", "<!x\""}, maxJunk, func(junk []byte) {
			j := string(junk)
			for oi, o := range opens {
				for vi, v := range victims {
					if (oi+vi+len(j))%2 == 1 && !thorough {
						continue
					}
					for _, t := range tails {
						line := o + j + "> " + v + t
						emitLight([]byte(line + "\n"))
						emitLight([]byte("x " + line + " y\n"))
						if strings.Contains(j, "<!--") || strings.Contains(j, "\"") {
							// the allowed tag and the rejected one as two separate inline tags with text between them
							emitLight([]byte("x " + o + j + "> and " + v + t + " y\n"))
						}
					}
				}
			}
		})
		// (D) directed: a tag, comment, declaration, processing instruction or CDATA section left open at the end of one raw
		// line and closed (or not) by later lines that may hold no '<' at all, followed by a line with rejected tags - the
		// scanner's state is carried from line to line, whatever a line contains
		openLines := []string{"<div", "<div class=\"a", "<!--", "<!-- c", "<!x", "<?p", "<![CDATA[", "<a b='", "<div\n<", "x"}
		midLines := []string{"", "y", "class=\"a\">", "c -->", "x>", "?>", "]]>", "'>", "\">", ">", "--", "->", "z\">z"}
		victimLines := []string{"<script>alert(1)</script>", "<STYLE>", "<title><xmp>"}
		for _, head := range []string{"<div>\n", "> <div>\n> ", "<table>\n"} {
			sep := "\n"
			if strings.HasPrefix(head, ">") {
				sep = "\n> "
			}
			for _, o := range openLines {
				o = strings.ReplaceAll(o, "\n", sep)
				for _, m1 := range midLines {
					for _, m2 := range []string{"", midLines[2], midLines[3], midLines[9]} {
						for vi, v := range victimLines {
							if !thorough && (len(o)+len(m1)+len(m2)+vi)%2 == 1 {
								continue
							}
							doc := head + o
							if m1 != "" {
								doc += sep + m1
							}
							if m2 != "" {
								doc += sep + m2
							}
							emitLight([]byte(doc + sep + v + "\n"))
						}
					}
				}
			}
		}
		src.structured(thorough, func(d []byte) {
			if bytes.IndexByte(d, '<') >= 0 {
				emitLight(d)
			}
		})
	}
	return res
}
