package main

import (
	"bufio"
	"fmt"
	"os"

	"zombiezen.com/go/commonmark"
)

// C18.
//   walk model <tlc outputs...>          direction A: replay Walk.tla behaviours on a virtual tree presented
//                                        through WalkOptions.ChildCount/Child over real Node identities
//   walk gen <base>                      direction B: seeded policies on real parsed trees (default accessors)
//   walk regen <base> <replay.ndjson>
//   walk --replay <file>                 replays a direction-A record

func init() { register("walk", cmdWalk) }

type walkRec struct {
	Par     []int   `json:"par"`
	Blk     []bool  `json:"blk"`
	VNode   int     `json:"vnode"` // the node presented as the zero Node (0: none, 1: the root, 2: the root's first child)
	Prune   []int   `json:"prune"`
	Abort   int     `json:"abort"`
	PreNil  bool    `json:"preNil"`
	PostNil bool    `json:"postNil"`
	Lazy    bool    `json:"lazy"` // the custom ChildCount reports no children for a node until its Pre callback has run
	Nest    []int   `json:"nest"` // nodes whose Pre callback walks their children itself, with the same WalkOptions value, and returns false
	Calls   [][]int `json:"calls"`
}

// node pool: distinct real block and inline nodes
var poolBlocks, poolInlines []commonmark.Node

func initPool() {
	if poolBlocks != nil {
		return
	}
	blocks, _ := commonmark.Parse([]byte("a\n\nb\n\nc\n\nd\n\ne\n\nf\n\ng\n\nh\n"))
	for _, rb := range blocks {
		poolBlocks = append(poolBlocks, rb.AsNode())
		poolInlines = append(poolInlines, rb.Child(0))
	}
}

// runVirtual runs the real Walk over the virtual tree of r and returns the observed calls.
func runVirtual(r *walkRec) (calls [][]int, pm string) {
	defer func() {
		if x := recover(); x != nil {
			pm = fmt.Sprint(x)
		}
	}()
	initPool()
	n := len(r.Par)
	nodes := make([]commonmark.Node, n+1)
	ids := map[commonmark.Node]int{}
	bi, ii := 0, 0
	for i := 1; i <= n; i++ {
		switch {
		case i == r.VNode:
			nodes[i] = commonmark.Node{}
		case r.Blk[i-1]:
			nodes[i] = poolBlocks[bi]
			bi++
		default:
			nodes[i] = poolInlines[ii]
			ii++
		}
		ids[nodes[i]] = i
	}
	kids := make([][]int, n+1)
	for i := 2; i <= n; i++ {
		kids[r.Par[i-1]] = append(kids[r.Par[i-1]], i)
	}
	prune := map[int]bool{}
	for _, p := range r.Prune {
		prune[p] = true
	}
	idOfBlock := func(b *commonmark.Block) int {
		if b == nil {
			return 0
		}
		return ids[b.AsNode()]
	}
	record := func(kind int, c *commonmark.Cursor) {
		id := ids[c.Node()]
		parent := 0
		if c.Index() >= 0 {
			parent = ids[c.Parent()]
		} else if c.Parent() != (commonmark.Node{}) {
			parent = -99 // the root must have no parent
		}
		calls = append(calls, []int{kind, id, parent, c.Index(), idOfBlock(c.ParentBlock())})
		if len(calls) > 4000 {
			panic("more than 4000 callbacks on a tree of at most a dozen nodes: the walk does not end")
		}
	}
	opened := map[int]bool{}
	nest := map[int]bool{}
	for _, x := range r.Nest {
		nest[x] = true
	}
	var opts *commonmark.WalkOptions
	opts = &commonmark.WalkOptions{
		ChildCount: func(nd commonmark.Node) int {
			if r.Lazy && !opened[ids[nd]] {
				return 0 // the children only become available through the node's Pre callback
			}
			return len(kids[ids[nd]])
		},
		Child: func(nd commonmark.Node, i int) commonmark.Node { return nodes[kids[ids[nd]][i]] },
	}
	if !r.PreNil {
		opts.Pre = func(c *commonmark.Cursor) bool {
			record(1, c)
			id := ids[c.Node()]
			opened[id] = true
			if nest[id] {
				for _, k := range kids[id] {
					commonmark.Walk(nodes[k], opts) // re-entrant use of the SAME options value
				}
				return false
			}
			return !prune[id]
		}
	}
	if !r.PostNil {
		opts.Post = func(c *commonmark.Cursor) bool {
			record(2, c)
			return ids[c.Node()] != r.Abort
		}
	}
	if len(r.Nest) > 0 {
		// the options value has been used for a complete walk before (whatever a walk leaves behind in it is there now)
		commonmark.Walk(nodes[1], opts)
		calls = nil
		opened = map[int]bool{}
	}
	commonmark.Walk(nodes[1], opts)
	return calls, ""
}

// modelHistory: the behaviours replayed just before the current one in this process. A violation may depend on
// them (state kept across Walk calls, e.g. after a walk that Post aborted), so they travel with the replay record.
var modelHistory []*walkRec

func walkCheckModel(res *Result, r *walkRec) {
	res.Evaluations++
	got, pm := runVirtual(r)
	rec := map[string]any{"kind": "walk-model", "rec": r, "prev": append([]*walkRec(nil), modelHistory...)}
	modelHistory = append(modelHistory, r)
	if len(modelHistory) > 2 {
		modelHistory = modelHistory[1:]
	}
	key := fmt.Sprint(r.Par, r.Blk, r.VNode, r.Prune, r.Abort, r.PreNil, r.PostNil, r.Lazy, r.Nest)
	if len(r.Par) >= 3 {
		res.nontrivialKey(key)
	}
	if len(r.Par) >= 4 && len(r.Prune) == 1 && r.Abort > 1 && !r.PreNil && !r.PostNil {
		res.sample(map[string]any{"par": r.Par, "blk": r.Blk, "vnode": r.VNode, "prune": r.Prune, "abort": r.Abort, "calls": r.Calls})
	}
	if pm != "" {
		res.addCandidate(Candidate{Sig: map[string]any{"class": "panic", "case": key}, Record: rec, What: "Walk panicked: " + pm})
		return
	}
	if fmt.Sprint(got) != fmt.Sprint(r.Calls) {
		res.addCandidate(Candidate{Sig: map[string]any{"case": key}, Record: rec,
			What: fmt.Sprintf("tree par=%v blk=%v vnode=%v prune=%v abort=%d preNil=%v postNil=%v lazy=%v nest=%v: spec calls %v, Walk made %v", r.Par, r.Blk, r.VNode, r.Prune, r.Abort, r.PreNil, r.PostNil, r.Lazy, r.Nest, r.Calls, got)})
	}
}

// ---- direction B: real trees, default accessors

type walkTrace struct {
	Par     []int   `json:"par"`
	Blk     []int   `json:"blk"`
	Prune   []int   `json:"prune"`
	Abort   int     `json:"abort"`
	PreNil  int     `json:"preNil"`
	PostNil int     `json:"postNil"`
	Hide    []int   `json:"hide"`
	Evs     [][]int `json:"evs"`
}

type walkReplay struct {
	Kind    string `json:"kind"`
	Input   []int  `json:"input"`
	Root    int    `json:"root"`
	Prune   []int  `json:"prune"`
	Abort   int    `json:"abort"`
	PreNil  int    `json:"preNil"`
	PostNil int    `json:"postNil"`
	// nodes whose children a custom ChildCount hides (WalkOptions.ChildCount set, WalkOptions.Child left nil)
	Hide []int `json:"hide"`
	// the walk made just before this one in the generating process (a violation may depend on it)
	Prev *walkReplay `json:"prev,omitempty"`
}

// number the nodes of a real tree in pre-order by the harness's own traversal
func numberTree(n commonmark.Node, parent int, par *[]int, blk *[]int, ids map[commonmark.Node]int) {
	id := len(*par) + 1
	ids[n] = id
	*par = append(*par, parent)
	b := 0
	if n.Block() != nil {
		b = 1
	}
	*blk = append(*blk, b)
	for i, c := 0, n.ChildCount(); i < c; i++ {
		numberTree(n.Child(i), id, par, blk, ids)
	}
}

func walkReal(rb *commonmark.RootBlock, rp *walkReplay) (t *walkTrace, pm string) {
	defer func() {
		if x := recover(); x != nil {
			pm = fmt.Sprint(x)
		}
	}()
	t = &walkTrace{Prune: rp.Prune, Abort: rp.Abort, PreNil: rp.PreNil, PostNil: rp.PostNil, Hide: rp.Hide, Evs: [][]int{}}
	if t.Prune == nil {
		t.Prune = []int{}
	}
	if t.Hide == nil {
		t.Hide = []int{}
	}
	ids := map[commonmark.Node]int{}
	numberTree(rb.AsNode(), 0, &t.Par, &t.Blk, ids)
	prune := map[int]bool{}
	for _, p := range rp.Prune {
		prune[p] = true
	}
	record := func(kind int, c *commonmark.Cursor) {
		parent := 0
		cons := 1
		if c.Parent() != (commonmark.Node{}) {
			parent = ids[c.Parent()]
			if c.Index() < 0 || c.Index() >= c.Parent().ChildCount() || c.Parent().Child(c.Index()) != c.Node() {
				cons = 0
			}
		} else if c.Index() >= 0 {
			cons = 0
		}
		pb := 0
		if b := c.ParentBlock(); b != nil {
			pb = ids[b.AsNode()]
		}
		t.Evs = append(t.Evs, []int{kind, ids[c.Node()], parent, c.Index(), pb, cons})
	}
	opts := &commonmark.WalkOptions{}
	if len(rp.Hide) > 0 {
		hide := map[int]bool{}
		for _, h := range rp.Hide {
			hide[h] = true
		}
		// only ChildCount is replaced; Child stays the default
		opts.ChildCount = func(n commonmark.Node) int {
			if hide[ids[n]] {
				return 0
			}
			return n.ChildCount()
		}
	}
	if rp.PreNil == 0 {
		opts.Pre = func(c *commonmark.Cursor) bool {
			record(1, c)
			return !prune[ids[c.Node()]]
		}
	}
	if rp.PostNil == 0 {
		opts.Post = func(c *commonmark.Cursor) bool {
			record(2, c)
			return ids[c.Node()] != rp.Abort
		}
	}
	commonmark.Walk(rb.AsNode(), opts)
	return t, ""
}

func cmdWalk(args []string) *Result {
	res := newResult()
	if len(args) == 2 && args[0] == "--replay" {
		rec := readReplay(args[1])
		var r walkRec
		mustUnmarshal([]byte(jsonString(rec["rec"])), &r)
		var prev []*walkRec
		if rec["prev"] != nil {
			mustUnmarshal([]byte(jsonString(rec["prev"])), &prev)
		}
		for _, p := range prev {
			runVirtual(p) // re-establish the history the case was observed after
		}
		walkCheckModel(res, &r)
		return res
	}
	if len(args) < 2 {
		die("usage: walk model|gen|regen ...")
	}
	switch args[0] {
	case "model":
		for _, path := range args[1:] {
			forEachTLCRecord(path, func(raw []byte) {
				var r walkRec
				mustUnmarshal(raw, &r)
				walkCheckModel(res, &r)
			})
		}
		res.Traces = res.Evaluations
		return res
	}
	sw := newShardWriter(args[1], envInt("VERIF_SHARDS", 8))
	defer sw.close()
	var last *walkReplay
	one := func(input []byte, rp *walkReplay) {
		if rp.Prev != nil && last == nil {
			// regenerating a single case: first repeat the walk that preceded it
			if pb, pm := parseRoute(bytesOf(rp.Prev.Input), 0); pm == "" && rp.Prev.Root < len(pb) {
				walkReal(pb[rp.Prev.Root], rp.Prev)
			}
		} else if last != nil {
			cp := *last
			cp.Prev = nil
			rp.Prev = &cp
		}
		defer func() { last = rp }()
		blocks, pm := parseRoute(input, 0)
		if pm != "" || rp.Root >= len(blocks) {
			return
		}
		res.Evaluations++
		t, pm := walkReal(blocks[rp.Root], rp)
		if pm != "" {
			res.addCandidate(Candidate{Sig: map[string]any{"input": ints(input), "class": "panic"}, Record: map[string]any{"kind": "walk", "input": ints(input)}, What: "Walk panicked: " + pm})
			return
		}
		if len(t.Par) > 1600 {
			return
		}
		sw.write(t, rp)
		res.Traces++
		if len(t.Par) >= 4 {
			res.nontrivialKey(fmt.Sprint(t.Par, t.Blk, t.Prune, t.Abort, t.PreNil, t.PostNil))
		}
	}
	switch args[0] {
	case "regen":
		f, err := os.Open(args[2])
		if err != nil {
			die("%v", err)
		}
		sc := bufio.NewScanner(f)
		sc.Buffer(make([]byte, 1<<22), 1<<26)
		for sc.Scan() {
			var r walkReplay
			mustUnmarshal(sc.Bytes(), &r)
			one(bytesOf(r.Input), &r)
		}
	case "gen":
		src := newSource(18)
		n := 6000
		if os.Getenv("VERIF_TIER") == "thorough" {
			n = 150000
		}
		docs := [][]byte{}
		for _, ex := range specExamples() {
			docs = append(docs, []byte(ex))
		}
		src.mixed(n, func(d []byte) { docs = append(docs, append([]byte(nil), d...)) })
		bigTrees(func(d []byte) { docs = append(docs, append([]byte(nil), d...)) })
		for _, d := range docs {
			blocks, pm := parseRoute(d, 0)
			if pm != "" {
				continue
			}
			for ri, rb := range blocks {
				cnt := 0
				var par, blk []int
				numberTree(rb.AsNode(), 0, &par, &blk, map[commonmark.Node]int{})
				cnt = len(par)
				for rep := 0; rep < 2; rep++ {
					rp := &walkReplay{Kind: "walk", Input: ints(d), Root: ri, Prune: []int{}}
					for i := 1; i <= cnt; i++ {
						if src.rng.Intn(5) == 0 {
							rp.Prune = append(rp.Prune, i)
						}
					}
					if src.rng.Intn(2) == 0 {
						rp.Abort = 1 + src.rng.Intn(cnt)
					}
					if src.rng.Intn(6) == 0 {
						rp.PreNil = 1
					}
					if src.rng.Intn(6) == 0 {
						rp.PostNil = 1
					}
					if rep == 1 && src.rng.Intn(3) == 0 {
						for i := 1; i <= cnt; i++ {
							if src.rng.Intn(4) == 0 {
								rp.Hide = append(rp.Hide, i)
							}
						}
					}
					one(d, rp)
				}
			}
		}
	}
	return res
}
