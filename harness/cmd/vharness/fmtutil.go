package main

import (
	"io"

	"zombiezen.com/go/commonmark"
	"zombiezen.com/go/commonmark/format"
)

func formatBlocks(w io.Writer, blocks []*commonmark.RootBlock) error {
	return format.Format(w, blocks)
}
