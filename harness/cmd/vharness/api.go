package main

import (
	"bufio"
	"bytes"
	"fmt"
	"io"
	"os"
	"strings"
	"sync"
	"time"

	"zombiezen.com/go/commonmark"
)

// C04: drive the whole public API on every explored input under every renderer configuration,
// inside recover() and under a watchdog; record the call history for Api.tla.
//
//   api gen <base> | api regen <base> <replay.ndjson>

func init() { register("api", cmdAPI) }

const (
	opParse = 1 + iota
	opNew
	opNext
	opExtract
	opRewrite
	opRender
	opAppend
	opFormat
	opWalk
)

var filterPreds = []func([]byte) bool{
	nil,
	commonmark.FilterTagGFM,
	func([]byte) bool { return true },
	func([]byte) bool { return false },
	func(t []byte) bool { return string(t) == "script" },
}

type apiTrace struct {
	Evs [][3]int `json:"evs"`
}

type apiReplay struct {
	Kind  string `json:"kind"`
	Input []int  `json:"input"`
}

// driveAPI runs the fixed driver history; events are appended under mu so the watchdog can read them.
func driveAPI(input []byte, mu *sync.Mutex, evs *[][3]int, cur *int) {
	call := func(op int, f func() int) (ok bool) {
		mu.Lock()
		*cur = op
		mu.Unlock()
		defer func() {
			if r := recover(); r != nil {
				mu.Lock()
				*evs = append(*evs, [3]int{3, op, 0})
				mu.Unlock()
				ok = false
			}
		}()
		r := f()
		mu.Lock()
		*evs = append(*evs, [3]int{5, op, r})
		mu.Unlock()
		return true
	}
	errCode := func(err error) int {
		switch err {
		case nil:
			return 0
		case io.EOF:
			return 1
		default:
			return 2
		}
	}
	var blocks []*commonmark.RootBlock
	var refs commonmark.ReferenceMap
	if !call(opParse, func() int { blocks, refs = commonmark.Parse(append([]byte(nil), input...)); return 0 }) {
		return
	}
	// block-by-block parsing followed by inline rewriting
	var p *commonmark.BlockParser
	call(opNew, func() int { p = commonmark.NewBlockParser(bytes.NewReader(input)); return 0 })
	var sblocks []*commonmark.RootBlock
	srefs := make(commonmark.ReferenceMap)
	eofs := 0
	for steps := 0; eofs < 3 && steps < 1000000; steps++ {
		var b *commonmark.RootBlock
		var err error
		if !call(opNext, func() int { b, err = p.NextBlock(); return errCode(err) }) {
			return
		}
		if err != nil {
			eofs++
			continue
		}
		sblocks = append(sblocks, b)
		if !call(opExtract, func() int { srefs.Extract(b.Source, b.AsNode()); return 0 }) {
			return
		}
	}
	// once more through a reader that never fails and always makes progress, but in the least convenient legal way (an empty read
	// before every two bytes, the last data together with io.EOF): still only blocks and end-of-input
	if len(input) <= 8192 {
		var p2 *commonmark.BlockParser
		call(opNew, func() int { p2 = commonmark.NewBlockParser(&dripReader{data: input}); return 0 })
		eofs2 := 0
		for steps := 0; eofs2 < 2 && steps < 1000000; steps++ {
			var err error
			if !call(opNext, func() int { _, err = p2.NextBlock(); return errCode(err) }) {
				return
			}
			if err != nil {
				eofs2++
			}
		}
	}
	ip := &commonmark.InlineParser{ReferenceMatcher: srefs}
	for _, b := range sblocks {
		b := b
		if !call(opRewrite, func() int { ip.Rewrite(b); return 0 }) {
			return
		}
	}
	for soft := 0; soft < 3; soft++ {
		for raw := 0; raw < 2; raw++ {
			for fi, f := range filterPreds {
				r := &commonmark.HTMLRenderer{ReferenceMap: refs, SoftBreakBehavior: commonmark.SoftBreakBehavior(soft), IgnoreRaw: raw == 1, FilterTag: f}
				call(opRender, func() int { return errCode(r.Render(io.Discard, blocks)) })
				if fi == 1 {
					rs := &commonmark.HTMLRenderer{ReferenceMap: srefs, SoftBreakBehavior: commonmark.SoftBreakBehavior(soft), IgnoreRaw: raw == 1, FilterTag: f}
					call(opAppend, func() int {
						var dst []byte
						for _, b := range sblocks {
							dst = rs.AppendBlock(dst[:0], b)
						}
						return 0
					})
				}
			}
		}
	}
	call(opFormat, func() int { return errCode(formatBlocks(io.Discard, blocks)) })
	call(opFormat, func() int { return errCode(formatBlocks(io.Discard, sblocks)) })
	for _, b := range blocks {
		b := b
		call(opWalk, func() int {
			n := 0
			commonmark.Walk(b.AsNode(), &commonmark.WalkOptions{Pre: func(*commonmark.Cursor) bool { n++; return true }, Post: func(*commonmark.Cursor) bool { return true }})
			return 0
		})
	}
	// user code that stops a traversal early (Post returns false while ancestors and siblings are pending), followed by
	// every consumer again on every block: whatever an abandoned traversal leaves behind must not reach the next call
	for i, b := range blocks {
		if i >= 6 {
			break
		}
		b := b
		stop := 1 + i%3
		call(opWalk, func() int {
			n := 0
			commonmark.Walk(b.AsNode(), &commonmark.WalkOptions{Post: func(*commonmark.Cursor) bool { n++; return n < stop }})
			return 0
		})
		r := &commonmark.HTMLRenderer{ReferenceMap: refs, FilterTag: filterPreds[1+i%4]}
		call(opAppend, func() int {
			var dst []byte
			for j := len(blocks) - 1; j >= 0; j-- {
				dst = r.AppendBlock(dst[:0], blocks[j])
			}
			return 0
		})
		call(opFormat, func() int { return errCode(formatBlocks(io.Discard, blocks[len(blocks)-1:])) })
		call(opWalk, func() int {
			commonmark.Walk(blocks[len(blocks)-1].AsNode(), &commonmark.WalkOptions{Pre: func(*commonmark.Cursor) bool { return true }})
			return 0
		})
	}
}

func runAPI(input []byte, watchdog time.Duration) *apiTrace {
	var mu sync.Mutex
	var evs [][3]int
	cur := 0
	done := make(chan struct{})
	go func() {
		defer close(done)
		driveAPI(input, &mu, &evs, &cur)
	}()
	select {
	case <-done:
	case <-time.After(watchdog):
		mu.Lock()
		evs = append(evs, [3]int{4, cur, 0})
		mu.Unlock()
	}
	mu.Lock()
	defer mu.Unlock()
	return &apiTrace{Evs: append([][3]int(nil), evs...)}
}

func deepInputs(thorough bool) [][]byte {
	ks := []int{50, 400, 1300}
	if thorough {
		ks = append(ks, 4000)
	}
	units := []string{">", "> ", "[", "![", "*", "_", "`", "- ", "1. ", "<", "(", "[a](", "\\", "&", "*a ", "_a ", "[a][", "<!--", "<a ", "``` ", "    ", "\t", "\n", "#", "**a*", "]", ")", "![[", "*_"}
	var out [][]byte
	for _, k := range ks {
		for _, u := range units {
			out = append(out, []byte(strings.Repeat(u, k)))
			out = append(out, []byte(strings.Repeat(u, k)+"a\n"))
			out = append(out, []byte(strings.Repeat(u, k)+"a"+strings.Repeat("]", k)))
		}
	}
	return out
}

func cmdAPI(args []string) *Result {
	res := newResult()
	if len(args) < 2 {
		die("usage: api gen|regen base [replay]")
	}
	sw := newShardWriter(args[1], envInt("VERIF_SHARDS", 8))
	defer sw.close()
	one := func(input []byte) {
		wd := 20 * time.Second
		if len(input) > 4096 {
			wd = 10 * time.Minute // hangs are only asserted for inputs <= 4 KiB
		}
		t := runAPI(input, wd)
		res.Evaluations++
		last := t.Evs[len(t.Evs)-1]
		if last[0] == 4 && len(input) > 4096 {
			return
		}
		sw.write(t, &apiReplay{Kind: "api", Input: ints(input)})
		res.Traces++
		if len(t.Evs) > 45 {
			res.nontrivialKey(string(input))
		}
		if len(input) < 40 && len(t.Evs) > 50 {
			res.sample(map[string]any{"input": string(input), "events": len(t.Evs)})
		}
	}
	switch args[0] {
	case "regen":
		f, err := os.Open(args[2])
		if err != nil {
			die("%v", err)
		}
		sc := bufio.NewScanner(f)
		sc.Buffer(make([]byte, 1<<24), 1<<28)
		for sc.Scan() {
			var r apiReplay
			mustUnmarshal(sc.Bytes(), &r)
			one(bytesOf(r.Input))
		}
	case "gen":
		thorough := os.Getenv("VERIF_TIER") == "thorough"
		seen := map[string]struct{}{}
		emit := func(doc []byte) {
			if _, dup := seen[string(doc)]; dup {
				return
			}
			seen[string(doc)] = struct{}{}
			one(append([]byte(nil), doc...))
		}
		for _, ex := range specExamples() {
			allPrefixes([]byte(ex), emit)
		}
		src := newSource(4)
		n := 6000
		if thorough {
			n = 200000
		}
		src.mixed(n, emit)
		src.structured(thorough, emit)
		fragmentProducts(2, fragments, emit)
		exhaustive([]string{"`", "[", "]", "(", "<", "\\", "\n", "\r", "\x00", "\xff", "*", "&", "a", " ", ">", "-"}, map[bool]int{false: 3, true: 4}[thorough], emit)
		for _, d := range deepInputs(thorough) {
			emit(d)
		}
		for _, d := range largeInputs() {
			emit(d)
		}
		fmt.Fprintf(os.Stderr, "api: %d inputs\n", res.Evaluations)
	}
	return res
}
