package main

import (
	"fmt"
	"io"
	"os"

	"zombiezen.com/go/commonmark"
)

// dump: debugging aid - prints the canonical dump of every root block of stdin (or of the argument string).
func init() {
	register("dump", func(args []string) *Result {
		var in []byte
		if len(args) > 0 {
			in = []byte(args[0])
		} else {
			in, _ = io.ReadAll(os.Stdin)
		}
		blocks, refs := commonmark.Parse(in)
		for _, b := range blocks {
			fmt.Fprint(os.Stderr, dumpRoot(b))
		}
		fmt.Fprint(os.Stderr, dumpRefMap(refs))
		var out []byte
		r := &commonmark.HTMLRenderer{ReferenceMap: refs}
		for _, b := range blocks {
			out = r.AppendBlock(out, b)
			out = append(out, '\n')
		}
		fmt.Fprintf(os.Stderr, "%s", out)
		return newResult()
	})
}
