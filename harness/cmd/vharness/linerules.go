package main

import (
	"bytes"
	"fmt"

	"zombiezen.com/go/commonmark"
)

// C15: replay LineRules.tla behaviours into the real recognisers (verif-tag exports)
// and, end to end, into the block parser on one-line documents.

func init() { register("linerules", cmdLineRules) }

type lrRec struct {
	Rule  string  `json:"rule"`
	B     []int   `json:"b"`
	R     []lrRes `json:"r"`
	Out   []int   `json:"out"`
	Is    bool    `json:"is"`
	End   int     `json:"end"`
	Bits  []int   `json:"bits"`
	Runes [][]int `json:"runes"`
}

type lrRes struct {
	End     int   `json:"end"`
	Level   int   `json:"level"`
	Content []int `json:"content"`
	C       int   `json:"c"`
	N       int   `json:"n"`
	Info    []int `json:"info"`
	M       *struct {
		D   int `json:"d"`
		N   int `json:"n"`
		End int `json:"end"`
	} `json:"m"`
	Tb bool `json:"tb"`
}

var eols = [][]byte{nil, {'\n'}, {'\r'}, {'\r', '\n'}}

// firstBlock returns the first root block through the streaming block parser (no inline parsing).
func firstBlock(doc []byte) *commonmark.RootBlock {
	b, err := commonmark.NewBlockParser(bytes.NewReader(doc)).NextBlock()
	if err != nil {
		return nil
	}
	return b
}

func unparsedText(rb *commonmark.RootBlock) []byte {
	var out []byte
	for i := 0; i < rb.ChildCount(); i++ {
		c := rb.Child(i).Inline()
		if c != nil && c.Kind() != commonmark.InfoStringKind {
			out = append(out, rb.Source[c.Span().Start:c.Span().End]...)
		}
	}
	return out
}

func cmdLineRules(args []string) *Result {
	res := newResult()
	if len(args) == 2 && args[0] == "--replay" {
		rec := readReplay(args[1])
		raw := []byte(jsonString(rec["rec"]))
		var r lrRec
		mustUnmarshal(raw, &r)
		lrCheck(res, &r)
		return res
	}
	for _, path := range args {
		forEachTLCRecord(path, func(raw []byte) {
			var r lrRec
			mustUnmarshal(raw, &r)
			lrCheck(res, &r)
		})
	}
	res.Traces = res.Evaluations
	return res
}

func lrFail(res *Result, r *lrRec, line []byte, class string, format string, a ...any) {
	res.addCandidate(Candidate{
		Sig:    map[string]any{"input": ints(line), "rule": r.Rule, "class": class},
		Record: map[string]any{"rec": r, "line": string(line)},
		What:   fmt.Sprintf("%s %q: ", r.Rule, line) + fmt.Sprintf(format, a...),
	})
}

func lrCheck(res *Result, r *lrRec) {
	body := bytesOf(r.B)
	switch r.Rule {
	case "bytes":
		for c := 0; c < 256; c++ {
			res.Evaluations++
			res.nontrivialKey(fmt.Sprint("byte", c))
			if got := commonmark.VerifByteClass(byte(c)); got != r.Bits[c] {
				lrFail(res, r, []byte{byte(c)}, fmt.Sprintf("byteclass-%#x", c), "byte class bits: spec %06b, code %06b (1 punct, 2 control, 4 hex, 8 space/tab/eol, 16 letter, 32 digit)", r.Bits[c], got)
			}
		}
		for _, t := range r.Runes {
			res.Evaluations++
			res.nontrivialKey(fmt.Sprint("rune", t[0]))
			want := t[1] | t[2]<<1
			if got := commonmark.VerifRuneClass(rune(t[0])); got != want {
				lrFail(res, r, []byte(string(rune(t[0]))), fmt.Sprintf("runeclass-U+%04X", t[0]), "U+%04X: spec whitespace=%d punctuation=%d, code bits %02b", t[0], t[1], t[2], got)
			}
		}
		res.sample(map[string]any{"rule": "bytes", "checked": "256 bytes x 6 classifiers + rune table"})
	case "uri":
		res.Evaluations++
		got := commonmark.NormalizeURI(string(body))
		want := string(bytesOf(r.Out))
		if got != string(body) {
			res.nontrivialKey("uri" + string(body))
		}
		if len(body) == 5 {
			res.sample(map[string]any{"rule": "uri", "in": string(body), "out": want})
		}
		if got != want {
			lrFail(res, r, body, "uri", "NormalizeURI: spec %q, code %q", want, got)
		}
	case "email":
		res.Evaluations++
		got := commonmark.IsEmailAddress(string(body))
		if r.Is {
			res.nontrivialKey("email" + string(body))
			res.sample(map[string]any{"rule": "email", "in": string(body)})
		}
		if got != r.Is {
			lrFail(res, r, body, "email", "IsEmailAddress: spec %v, code %v", r.Is, got)
		}
	case "autolink":
		res.Evaluations++
		got := commonmark.VerifAutolink(body)
		if r.End >= 0 {
			res.nontrivialKey("autolink" + string(body))
			res.sample(map[string]any{"rule": "autolink", "in": string(body), "end": r.End})
		}
		if got != r.End {
			lrFail(res, r, body, "autolink", "autolink end: spec %d, code %d", r.End, got)
		}
		// end to end: an autolink at the start of a paragraph
		if len(body) > 0 && body[0] == '<' && !bytes.ContainsAny(body, "\n\r") {
			doc := append(append([]byte{}, body...), '\n')
			blocks, _ := commonmark.Parse(doc)
			isAuto := false
			if len(blocks) == 1 && blocks[0].Kind() == commonmark.ParagraphKind && blocks[0].ChildCount() > 0 {
				if c := blocks[0].Child(0).Inline(); c.Kind() == commonmark.AutolinkKind && c.Span().Start == 0 && c.Span().End == r.End {
					isAuto = true
				}
			}
			if isAuto != (r.End >= 0) && !(len(blocks) == 1 && blocks[0].Kind() == commonmark.HTMLBlockKind) {
				lrFail(res, r, doc, "autolink-e2e", "Parse: autolink node [0,%d) expected=%v, present=%v", r.End, r.End >= 0, isAuto)
			}
		}
	default:
		for e, eol := range eols {
			line := append(append([]byte{}, body...), eol...)
			want := r.R[e]
			res.Evaluations++
			switch r.Rule {
			case "thematic":
				got := commonmark.VerifThematicBreak(line)
				if want.End >= 0 {
					res.nontrivialKey("tb" + string(line))
					res.sample(map[string]any{"rule": "thematic", "line": string(line), "end": want.End})
				}
				if got != want.End {
					lrFail(res, r, line, "thematic", "thematic break end: spec %d, code %d", want.End, got)
				}
				if rb := firstBlock(line); (rb != nil && rb.Kind() == commonmark.ThematicBreakKind) != (want.End >= 0) {
					lrFail(res, r, line, "thematic-e2e", "block parser: thematic break expected=%v", want.End >= 0)
				}
			case "atx":
				lvl, cs, ce := commonmark.VerifATXHeading(line)
				var content []byte
				if lvl > 0 {
					content = line[cs:ce]
					res.nontrivialKey("atx" + string(line))
				}
				wc := bytesOf(want.Content)
				if want.Level > 0 && len(wc) > 1 {
					res.sample(map[string]any{"rule": "atx", "line": string(line), "level": want.Level, "content": string(wc)})
				}
				if lvl != want.Level || !bytes.Equal(content, wc) {
					class := "atx"
					if atxEscapedSpace(lvl, want.Level, content, wc) {
						class = "atx-escaped-trailing-space"
					}
					lrFail(res, r, line, class, "ATX heading: spec level %d content %q, code level %d content %q", want.Level, wc, lvl, content)
				}
				rb := firstBlock(line)
				if want.Level > 0 {
					if rb == nil || rb.Kind() != commonmark.ATXHeadingKind || rb.HeadingLevel() != want.Level || !bytes.Equal(unparsedText(rb), wc) {
						got := "nil"
						if rb != nil {
							got = fmt.Sprintf("kind %v level %d content %q", rb.Kind(), rb.HeadingLevel(), unparsedText(rb))
						}
						class := "atx-e2e"
						if rb != nil && rb.Kind() == commonmark.ATXHeadingKind && atxEscapedSpace(rb.HeadingLevel(), want.Level, unparsedText(rb), wc) {
							class = "atx-escaped-trailing-space"
						}
						lrFail(res, r, line, class, "block parser: want ATX level %d content %q, got %s", want.Level, wc, got)
					}
				} else if rb != nil && rb.Kind() == commonmark.ATXHeadingKind {
					lrFail(res, r, line, "atx-e2e", "block parser: ATX heading not expected")
				}
			case "setext":
				got := commonmark.VerifSetextUnderline(line)
				if want.Level > 0 {
					res.nontrivialKey("setext" + string(line))
					res.sample(map[string]any{"rule": "setext", "line": string(line), "level": want.Level})
				}
				if got != want.Level {
					lrFail(res, r, line, "setext", "setext underline level: spec %d, code %d", want.Level, got)
				}
				doc := append([]byte("a\n"), line...)
				rb := firstBlock(doc)
				if rb == nil || (rb.Kind() == commonmark.SetextHeadingKind) != (want.Level > 0) || rb.HeadingLevel() != want.Level {
					lrFail(res, r, doc, "setext-e2e", "block parser: setext level %d expected", want.Level)
				}
			case "fence":
				c, n, is, ie := commonmark.VerifCodeFence(line)
				var info []byte
				if n > 0 && is >= 0 {
					info = line[is:ie]
				}
				wi := bytesOf(want.Info)
				if want.N > 0 {
					res.nontrivialKey("fence" + string(line))
					if len(wi) > 0 {
						res.sample(map[string]any{"rule": "fence", "line": string(line), "n": want.N, "info": string(wi)})
					}
				}
				if n != want.N || (n > 0 && int(c) != want.C) || !bytes.Equal(info, wi) {
					lrFail(res, r, line, "fence", "code fence: spec char %d n %d info %q, code char %d n %d info %q", want.C, want.N, wi, c, n, info)
				}
				rb := firstBlock(line)
				isF := rb != nil && rb.Kind() == commonmark.FencedCodeBlockKind
				if isF != (want.N > 0) {
					lrFail(res, r, line, "fence-e2e", "block parser: fenced code block expected=%v", want.N > 0)
				} else if isF {
					var gi []byte
					if inf := rb.InfoString(); inf != nil {
						gi = rb.Source[inf.Span().Start:inf.Span().End]
					}
					if !bytes.Equal(gi, wi) {
						lrFail(res, r, line, "fence-e2e", "block parser: info string want %q got %q", wi, gi)
					}
				}
			case "marker":
				d, n, end := commonmark.VerifListMarker(line)
				if want.M.End >= 0 {
					res.nontrivialKey("marker" + string(line))
					if want.M.N > 0 {
						res.sample(map[string]any{"rule": "marker", "line": string(line), "n": want.M.N, "delim": want.M.D})
					}
				}
				if end != want.M.End || (end >= 0 && (int(d) != want.M.D || n != want.M.N)) {
					lrFail(res, r, line, "marker", "list marker: spec delim %d n %d end %d, code delim %d n %d end %d", want.M.D, want.M.N, want.M.End, d, n, end)
				}
				rb := firstBlock(line)
				isL := rb != nil && rb.Kind() == commonmark.ListKind
				wantL := want.M.End >= 0 && !want.Tb
				if isL != wantL {
					lrFail(res, r, line, "marker-e2e", "block parser: list expected=%v", wantL)
				} else if isL {
					item := rb.Child(0).Block()
					ordered := want.M.D == '.' || want.M.D == ')'
					wn := -1
					if ordered {
						wn = want.M.N
					}
					if item.IsOrderedList() != ordered || item.ListItemNumber(rb.Source) != wn {
						lrFail(res, r, line, "marker-e2e", "block parser: item ordered=%v number=%d, want ordered=%v number=%d", item.IsOrderedList(), item.ListItemNumber(rb.Source), ordered, wn)
					}
				}
			}
		}
	}
}

// atxEscapedSpace recognises exactly one deviation: the code keeps ONE space or tab after content
// that ends in an odd number of backslashes (it treats backslash-space as an escape), everything
// else being as the spec says.
func atxEscapedSpace(gotLevel, wantLevel int, got, want []byte) bool {
	if gotLevel != wantLevel || len(got) != len(want)+1 || !bytes.HasPrefix(got, want) {
		return false
	}
	if last := got[len(got)-1]; last != ' ' && last != '\t' {
		return false
	}
	n := 0
	for n < len(want) && want[len(want)-1-n] == '\\' {
		n++
	}
	return n%2 == 1
}
