---------------------------- MODULE Render ----------------------------
(* The HTML renderer as a fold over the pre/post-order event stream of a root block (C10).

   The expected output is defined from what the PUBLIC node API reports: node kinds, HeadingLevel,
   ordered/tight flags, item numbers, IndentWidth, leaf text, decoded destination / title / info-string text,
   LinkReference (looked up in the reference map) - under a configuration
        cfg = [soft \in {0 preserve, 1 space, 2 harden}, raw \in {0 keep, 1 IgnoreRaw},
               filt \in {0 nil, 1 GFM, 2 always, 3 never, 4 {script}}].
   Instead of building the expected bytes and comparing afterwards, the fold MATCHES the actual output as it
   goes (state.pos); this lets raw HTML under a tag filter be specified as "the raw bytes, except that a '<'
   may appear as &lt;" (which '<' is C17's business) while everything else is exact.

   Event: <<e, k, lvl, flags, num, ind, hd, ht, t, ref, dest, title, info>>
     e = 1 enter / 2 leave; k = kind code (blocks 1..12, inlines 100+); flags bit0 ordered, bit1 tight;
     num = ListItemNumber (for a list: of its first item); ind = IndentWidth; hd/ht = destination / title present;
     t = source bytes of a leaf (Text, CharRef, RawHTML, SoftBreak); ref = LinkReference; dest/title = decoded text;
     info = decoded info string (code blocks); for an autolink dest = text of its only child.
*)
EXTENDS Bytes, LineDefs, TLC, Json

CONSTANT File
Traces == ndJsonDeserialize(File)

Para == 1  Hr == 2  Atx == 3  Setext == 4  ICode == 5  FCode == 6  HtmlB == 7  RefDef == 8  Quote == 9  Item == 10  List == 11  Marker == 12
Text == 101  Soft == 102  Hard == 103  Indent == 104  CharRef == 105  Info == 106  Emph == 107  Strong == 108  Link == 109  Image == 110
Dest == 111  Title == 112  Label == 113  CodeSpan == 114  Autolink == 115  HtmlTag == 116  RawHtml == 117  Unparsed == 118

\* ---- strings as byte sequences
S(str) == CASE str = "p" -> <<112>> [] str = "hr" -> <<104, 114>> [] str = "pre" -> <<112, 114, 101>> [] str = "code" -> <<99, 111, 100, 101>>
            [] str = "blockquote" -> <<98, 108, 111, 99, 107, 113, 117, 111, 116, 101>> [] str = "ol" -> <<111, 108>> [] str = "ul" -> <<117, 108>>
            [] str = "li" -> <<108, 105>> [] str = "em" -> <<101, 109>> [] str = "strong" -> <<115, 116, 114, 111, 110, 103>>
            [] str = "a" -> <<97>> [] str = "img" -> <<105, 109, 103>>
            [] str = "&amp;" -> <<38, 97, 109, 112, 59>> [] str = "&lt;" -> <<38, 108, 116, 59>> [] str = "&gt;" -> <<38, 103, 116, 59>>
            [] str = "&quot;" -> <<38, 113, 117, 111, 116, 59>> [] str = "&#39;" -> <<38, 35, 51, 57, 59>> [] str = "&#34;" -> <<38, 35, 51, 52, 59>>
            [] str = "<br>\n" -> <<60, 98, 114, 62, 10>>
            [] str = " href=\"" -> <<32, 104, 114, 101, 102, 61, 34>> [] str = " src=\"" -> <<32, 115, 114, 99, 61, 34>>
            [] str = " title=\"" -> <<32, 116, 105, 116, 108, 101, 61, 34>> [] str = " alt=\"" -> <<32, 97, 108, 116, 61, 34>>
            [] str = " start=\"" -> <<32, 115, 116, 97, 114, 116, 61, 34>>
            [] str = " class=\"language-" -> <<32, 99, 108, 97, 115, 115, 61, 34, 108, 97, 110, 103, 117, 97, 103, 101, 45>>
            [] str = "mailto:" -> <<109, 97, 105, 108, 116, 111, 58>>
            [] str = "\">" -> <<34, 62>> [] str = "\"" -> <<34>> [] str = ">" -> <<62>> [] str = "</" -> <<60, 47>> [] str = "<" -> <<60>>
H(level) == <<104, 48 + (IF level \in 1..5 THEN level ELSE 6)>>

RECURSIVE MapCat(_, _)
MapCat(F(_), s) == IF s = <<>> THEN <<>> ELSE F(Head(s)) \o MapCat(F, Tail(s))
EscTextByte(b) == CASE b = 38 -> S("&amp;") [] b = 39 -> S("&#39;") [] b = 60 -> S("&lt;") [] b = 62 -> S("&gt;") [] b = 34 -> S("&quot;") [] OTHER -> <<b>>
EscAttrByte(b) == CASE b = 38 -> S("&amp;") [] b = 39 -> S("&#39;") [] b = 60 -> S("&lt;") [] b = 62 -> S("&gt;") [] b = 34 -> S("&#34;") [] OTHER -> <<b>>
EscapeText(s) == MapCat(EscTextByte, s)
EscapeAttr(s) == MapCat(EscAttrByte, s)
RECURSIVE Decimal(_)
Decimal(n) == IF n < 10 THEN <<48 + n>> ELSE Decimal(n \div 10) \o <<48 + (n % 10)>>
Repeat(b, n) == [i \in 1..n |-> b]

\* first word of the info string: split on Unicode white space (strings.Fields)
WsLen(s, i) ==      \* length of the white-space character starting at s[i], 0 if none
  LET c == s[i]  B(k) == IF i + k <= Len(s) THEN s[i + k] ELSE -1 IN
  IF c \in {9, 10, 11, 12, 13, 32} THEN 1
  ELSE IF c = 194 /\ B(1) \in {133, 160} THEN 2
  ELSE IF c = 225 /\ B(1) = 154 /\ B(2) = 128 THEN 3
  ELSE IF c = 226 /\ B(1) = 128 /\ (B(2) \in 128..138 \/ B(2) \in {168, 169, 175}) THEN 3
  ELSE IF c = 226 /\ B(1) = 129 /\ B(2) = 159 THEN 3
  ELSE IF c = 227 /\ B(1) = 128 /\ B(2) = 128 THEN 3
  ELSE 0
RECURSIVE SkipWs(_, _), WordEnd(_, _)
SkipWs(s, i) == IF i <= Len(s) /\ WsLen(s, i) > 0 THEN SkipWs(s, i + WsLen(s, i)) ELSE i
WordEnd(s, i) == IF i <= Len(s) /\ WsLen(s, i) = 0 THEN WordEnd(s, i + 1) ELSE i
FirstWord(s) == LET a == SkipWs(s, 1) IN SubSeq(s, a, WordEnd(s, a) - 1)

\* reference map lookup: refs = << <<key, dest, title, hasTitle>>, ... >>; a missing key gives the empty definition
Lookup(refs, key) == LET Sx == {i \in 1..Len(refs) : refs[i][1] = key} IN
                     IF Sx = {} THEN <<key, <<>>, <<>>, 0>> ELSE refs[CHOOSE i \in Sx : TRUE]

\* ---- matching state
HasAt(out, pos, bs) == pos + Len(bs) <= Len(out) /\ \A i \in 1..Len(bs) : out[pos + i] = bs[i]
Put(st, out, bs) == IF ~st.ok THEN st
                    ELSE IF HasAt(out, st.pos, bs) THEN [st EXCEPT !.pos = @ + Len(bs)]
                    ELSE [st EXCEPT !.ok = FALSE, !.why = "output-differs-from-the-tree's-canonical-serialization"]
\* raw HTML under a tag filter: the same bytes, except that '<' may appear as &lt;
RECURSIVE PutFiltered(_, _, _, _)
PutFiltered(st, out, raw, i) ==
  IF ~st.ok \/ i > Len(raw) THEN st
  ELSE IF raw[i] = 60 /\ HasAt(out, st.pos, S("&lt;")) THEN PutFiltered([st EXCEPT !.pos = @ + 4], out, raw, i + 1)
  ELSE IF HasAt(out, st.pos, <<raw[i]>>) THEN PutFiltered([st EXCEPT !.pos = @ + 1], out, raw, i + 1)
  ELSE [st EXCEPT !.ok = FALSE, !.why = "filtered-raw-html-differs-by-more-than-escaped-angle-brackets"]

GenLt(cfg) == IF cfg.filt = 2 THEN S("&lt;") ELSE S("<")          \* only the 'always' predicate rejects generated names
OpenAttr(cfg, name) == GenLt(cfg) \o name
Open(cfg, name) == OpenAttr(cfg, name) \o S(">")
Close(cfg, name) == GenLt(cfg) \o <<47>> \o name \o S(">")

\* frame: [k, tight]; st: [pos, ok, why, stack, skip (depth of a subtree that produces nothing), img (depth inside an image), alt]
TightParent(st) == LET p == st.stack[Len(st.stack)] IN p.k \in {List, Item} /\ p.tight
Push(st, k, tight) == [st EXCEPT !.stack = Append(@, [k |-> k, tight |-> tight])]
Pop(st) == [st EXCEPT !.stack = SubSeq(@, 1, Len(@) - 1)]

LinkDef(ev, refs) == IF ev[10] # <<>> THEN Lookup(refs, ev[10]) ELSE <<<<>>, ev[11], ev[12], ev[8]>>
LinkAttrs(ev, refs, first) ==
  LET d == LinkDef(ev, refs) IN
  first \o EscapeAttr(Normalize(d[2])) \o S("\"") \o (IF d[4] = 1 THEN S(" title=\"") \o EscapeAttr(d[3]) \o S("\"") ELSE <<>>)

Enter(st, out, cfg, refs, ev) ==
  LET k == ev[2]  lvl == ev[3]  ordered == ev[4] % 2 = 1  tight == (ev[4] \div 2) % 2 = 1  t == ev[9] IN
  IF st.skip > 0 THEN [st EXCEPT !.skip = @ + 1]
  ELSE IF st.img > 0 THEN      \* inside an image: descendants only contribute to the alt text
       (CASE k \in {Text} -> [st EXCEPT !.alt = @ \o EscapeText(t), !.img = @ + 1]
          [] k = CharRef -> [st EXCEPT !.alt = @ \o t, !.img = @ + 1]
          [] k \in {Indent, Soft, Hard} -> [st EXCEPT !.alt = @ \o <<32>>, !.img = @ + 1]
          [] k \in {Dest, Title, Label} -> [st EXCEPT !.skip = 1]
          [] OTHER -> [st EXCEPT !.img = @ + 1])
  ELSE
  CASE k = Para -> Push(IF TightParent(st) THEN st ELSE Put(st, out, Open(cfg, S("p"))), k, FALSE)
    [] k = Hr -> [Put(st, out, Open(cfg, S("hr"))) EXCEPT !.skip = 1]
    [] k \in {Atx, Setext} -> Push(Put(st, out, Open(cfg, H(lvl))), k, FALSE)
    [] k \in {ICode, FCode} ->
         LET w == FirstWord(ev[13])
             cls == IF k = FCode /\ ev[7] = 1 /\ w # <<>> THEN S(" class=\"language-") \o EscapeAttr(w) \o S("\"") ELSE <<>>
         IN Push(Put(st, out, Open(cfg, S("pre")) \o OpenAttr(cfg, S("code")) \o cls \o S(">")), k, FALSE)
    [] k = Quote -> Push(Put(st, out, Open(cfg, S("blockquote"))), k, FALSE)
    [] k = List -> Push(Put(st, out, IF ordered
                                     THEN OpenAttr(cfg, S("ol")) \o (IF ev[5] >= 0 /\ ev[5] # 1 THEN S(" start=\"") \o Decimal(ev[5]) \o S("\"") ELSE <<>>) \o S(">")
                                     ELSE Open(cfg, S("ul"))), k, tight)
    [] k = Item -> Push(Put(st, out, Open(cfg, S("li"))), k, tight)
    [] k = HtmlB -> IF cfg.raw = 1 THEN [st EXCEPT !.skip = 1] ELSE Push(st, k, FALSE)
    [] k \in {Text, Unparsed} -> Push(Put(st, out, EscapeText(t)), k, FALSE)
    [] k = CharRef -> Push(Put(st, out, t), k, FALSE)
    [] k = RawHtml -> Push(IF cfg.raw = 1 THEN st ELSE IF cfg.filt = 0 THEN Put(st, out, t) ELSE PutFiltered(st, out, t, 1), k, FALSE)
    \* inside a code block the (synthetic, zero-length) soft break is the line ending of the last code line, in every configuration
    [] k = Soft -> Push(Put(st, out, IF st.stack[Len(st.stack)].k \in {ICode, FCode} THEN (IF t = <<>> THEN <<10>> ELSE t)
                                     ELSE IF cfg.soft = 2 THEN Open(cfg, <<98, 114>>) \o <<10>> ELSE IF cfg.soft = 1 THEN <<32>> ELSE IF t = <<>> THEN <<10>> ELSE t), k, FALSE)
    [] k = Hard -> Push(Put(st, out, Open(cfg, <<98, 114>>) \o <<10>>), k, FALSE)
    [] k = Indent -> Push(Put(st, out, Repeat(32, ev[6])), k, FALSE)
    [] k = Emph -> Push(Put(st, out, Open(cfg, S("em"))), k, FALSE)
    [] k = Strong -> Push(Put(st, out, Open(cfg, S("strong"))), k, FALSE)
    [] k = CodeSpan -> Push(Put(st, out, Open(cfg, S("code"))), k, FALSE)
    [] k = Link -> Push(Put(st, out, LinkAttrs(ev, refs, OpenAttr(cfg, S("a")) \o S(" href=\"")) \o S(">")), k, FALSE)
    [] k = Image -> [Push(Put(st, out, LinkAttrs(ev, refs, OpenAttr(cfg, S("img")) \o S(" src=\""))), k, FALSE) EXCEPT !.img = 1, !.alt = <<>>]
    [] k = Autolink -> [Put(st, out, OpenAttr(cfg, S("a")) \o S(" href=\"") \o (IF IsEmail(ev[11]) THEN S("mailto:") ELSE <<>>)
                                      \o EscapeAttr(Normalize(ev[11])) \o S("\">") \o EscapeAttr(ev[11]) \o Close(cfg, S("a"))) EXCEPT !.skip = 1]
    [] k = HtmlTag -> Push(st, k, FALSE)
    [] OTHER -> [st EXCEPT !.skip = 1]       \* reference definitions, list markers, info strings, destinations, titles, labels

Leave(st, out, cfg) ==
  IF st.skip > 0 THEN [st EXCEPT !.skip = @ - 1]
  ELSE IF st.img > 1 THEN [st EXCEPT !.img = @ - 1]
  ELSE IF st.img = 1 THEN       \* leaving the image itself
       Pop([Put([st EXCEPT !.img = 0], out, S(" alt=\"") \o st.alt \o S("\">")) EXCEPT !.alt = <<>>])
  ELSE
  LET f == st.stack[Len(st.stack)]  k == f.k  base == Pop(st) IN
  CASE k = Para -> IF TightParent(base) THEN base ELSE Put(base, out, Close(cfg, S("p")))
    [] k \in {ICode, FCode} -> Put(base, out, Close(cfg, S("code")) \o Close(cfg, S("pre")))
    [] k = Quote -> Put(base, out, Close(cfg, S("blockquote")))
    [] k = Item -> Put(base, out, Close(cfg, S("li")))
    [] k = Emph -> Put(base, out, Close(cfg, S("em")))
    [] k = Strong -> Put(base, out, Close(cfg, S("strong")))
    [] k = CodeSpan -> Put(base, out, Close(cfg, S("code")))
    [] k = Link -> Put(base, out, Close(cfg, S("a")))
    [] OTHER -> base

\* headings and lists need their level / kind at Leave: kept in the frame via the tight field is not enough, so the
\* event stream repeats lvl / flags on the leave event (ev[3], ev[4])
LeaveEv(st, out, cfg, ev) ==
  IF st.skip > 0 \/ st.img > 0 THEN Leave(st, out, cfg)
  ELSE LET k == st.stack[Len(st.stack)].k IN
       IF k \in {Atx, Setext} THEN Put(Pop(st), out, Close(cfg, H(ev[3])))
       ELSE IF k = List THEN Put(Pop(st), out, Close(cfg, IF ev[4] % 2 = 1 THEN S("ol") ELSE S("ul")))
       ELSE Leave(st, out, cfg)

RECURSIVE Fold(_, _, _, _, _, _)
Fold(st, out, cfg, refs, evs, i) ==
  IF i > Len(evs) THEN st
  ELSE Fold(IF evs[i][1] = 1 THEN Enter(st, out, cfg, refs, evs[i]) ELSE LeaveEv(st, out, cfg, evs[i]), out, cfg, refs, evs, i + 1)

S0 == [pos |-> 0, ok |-> TRUE, why |-> "", stack |-> <<[k |-> 0, tight |-> FALSE]>>, skip |-> 0, img |-> 0, alt |-> <<>>]
BlockVerdict(out, cfg, refs, evs) ==
  LET st == Fold(S0, out, cfg, refs, evs, 1) IN
  IF ~st.ok THEN st.why ELSE IF st.pos # Len(out) THEN "output-has-extra-bytes" ELSE "ok"

RECURSIVE JoinParts(_, _)
JoinParts(parts, i) == IF i > Len(parts) THEN <<>> ELSE (IF i > 1 THEN <<10, 10>> ELSE <<>>) \o parts[i] \o JoinParts(parts, i + 1)

\* record: refs, blocks = <<evs>> (one event stream per root block),
\*         runs = <<[cfg, parts (AppendBlock per root), out (Render), out2 (second Render), same (dumps unchanged)]>>
RunVerdict(t, r) ==
  LET bad == {i \in 1..Len(t.blocks) : BlockVerdict(r.parts[i], r.cfg, t.refs, t.blocks[i]) # "ok"} IN
  IF Len(r.parts) # Len(t.blocks) THEN "record"
  ELSE IF bad # {} THEN BlockVerdict(r.parts[CHOOSE i \in bad : TRUE], r.cfg, t.refs, t.blocks[CHOOSE i \in bad : TRUE])
  ELSE IF r.out # JoinParts(r.parts, 1) THEN "render-is-not-the-blank-line-join-of-the-blocks"
  ELSE IF r.out2 # r.out THEN "rendering-not-deterministic"
  ELSE IF r.same # 1 THEN "rendering-modified-the-tree-or-source"
  ELSE "ok"
Verdict(t) ==
  LET bad == {j \in 1..Len(t.runs) : RunVerdict(t, t.runs[j]) # "ok"} IN
  IF bad = {} THEN "ok" ELSE RunVerdict(t, t.runs[CHOOSE j \in bad : \A m \in bad : j <= m])

VARIABLES tid, verdict
vars == <<tid, verdict>>
Init == \E k \in 1..Len(Traces) : tid = k /\ verdict = "init"
Next == verdict = "init" /\ verdict' = Verdict(Traces[tid]) /\ UNCHANGED tid
Accepted == verdict \in {"init", "ok"}
=============================================================================
