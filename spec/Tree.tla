---------------------------- MODULE Tree ----------------------------
(* Pushdown acceptor over the pre/post-order event stream of one root block of a parsed tree.

   It is used in two ways.
   (a) Trace validation (C02, C03, C05, C13): the harness walks every real root block with its own
       recursive traversal over Node.ChildCount/Child and logs Enter/Leave events with spans and
       accessor values; each recorded root block is a separate initial state; one event per step.
       Problems found are accumulated per property family in bad02 / bad03 / bad05 / bad13.
   (b) Generation (model-level lemmas): GenNext builds every event stream that the local enabling
       conditions allow, up to MaxNodes nodes over a source of SrcLen bytes; invariants state the
       GLOBAL facts consumers rely on (no byte claimed twice, renderer/extractor/formatter never
       index a missing child).

   Frames: [k kind, s, e span, n children so far, prev kind of last child, last end of last child,
            ul under a link, a1 a2 a3 accessors, kids kinds of children]
   Node kinds: blocks 1..12 = BlockKind; inlines 100 + InlineKind; 0 = the document (virtual parent of the root).
*)
EXTENDS Bytes, TLC, Json

CONSTANTS File,       \* ndjson file of recorded root blocks (trace mode)
          MaxNodes, SrcLen, GenKinds   \* generator mode

Traces == ndJsonDeserialize(File)

Para == 1  Hr == 2  Atx == 3  Setext == 4  ICode == 5  FCode == 6  HtmlB == 7  RefDef == 8  Quote == 9  Item == 10  List == 11  Marker == 12
Text == 101  Soft == 102  Hard == 103  Indent == 104  CharRef == 105  Info == 106  Emph == 107  Strong == 108  Link == 109  Image == 110
Dest == 111  Title == 112  Label == 113  CodeSpan == 114  Autolink == 115  HtmlTag == 116  RawHtml == 117  Unparsed == 118
DOC == 0

IsBlockKind(k) == k >= 1 /\ k <= 12
Phrasing == {Text, Soft, Hard, Indent, CharRef, Emph, Strong, Link, Image, CodeSpan, Autolink, HtmlTag}
ContainerBlocks == {Para, Hr, Atx, Setext, ICode, FCode, HtmlB, RefDef, Quote, List}

\* ------------------------------------------------------------------ C05: the documented node grammar
\* May a node of kind c be the idx-th (1-based) child of a node of kind p, the previous sibling having kind prev (0 if none)?
MayContain(p, idx, prev, c) ==
  CASE p = DOC -> c \in ContainerBlocks
    [] p = Quote -> c \in ContainerBlocks
    [] p = List -> c = Item
    [] p = Item -> IF idx = 1 THEN c = Marker ELSE c \in ContainerBlocks
    [] p \in {Para, Atx, Setext, Emph, Strong} -> c \in Phrasing
    [] p = ICode -> c \in {Text, Indent, Soft}
    [] p = FCode -> IF c = Info THEN idx = 1 ELSE c \in {Text, Indent, Soft}
    [] p = HtmlB -> c \in {RawHtml, Indent}
    [] p = RefDef -> (idx = 1 /\ c = Label) \/ (idx = 2 /\ c = Dest) \/ (idx = 3 /\ c = Title)
    [] p \in {Link, Image} -> \/ c \in Phrasing /\ prev \notin {Dest, Title, Label}
                              \/ c = Dest /\ prev \notin {Dest, Title, Label}
                              \/ c = Title /\ prev \notin {Title, Label}
                              \/ c = Label /\ prev \notin {Dest, Title, Label}
    [] p \in {Dest, Title, Info} -> c \in {Text, CharRef, Indent}
    [] p = Label -> c \in {Text, Indent}
    [] p = CodeSpan -> c \in {Text, Indent}
    [] p = Autolink -> c = Text /\ idx = 1
    [] p = HtmlTag -> c \in {RawHtml, Indent}
    [] OTHER -> FALSE      \* leaves: Hr, Marker, Text, Soft, Hard, Indent, CharRef, RawHtml, Unparsed

MinChildren(k) == CASE k = List -> 1 [] k = Item -> 1 [] k = RefDef -> 2 [] k = Autolink -> 1 [] OTHER -> 0
IsTextLeafKind(k) == k >= 101 \/ k = Marker

\* accessors agree with the shape
AccessorsOK(k, a1, a2, a3, parent) ==
  /\ (k = Atx => a1 \in 1..6) /\ (k = Setext => a1 \in 1..2) /\ (IsBlockKind(k) /\ k \notin {Atx, Setext} => a1 = 0)
  /\ (k = Item => a2 = parent.a2)                                        \* item agrees with its list on ordered/tight
  /\ (k = Item /\ a2 % 2 = 1 => a3 \in 0..999999999)
  /\ (IsBlockKind(k) /\ ~(k = Item /\ a2 % 2 = 1) => a3 = -1)
  /\ (IsBlockKind(k) /\ k \notin {List, Item} => a2 = 0)
  /\ (k \in {Link, Image} /\ a2 % 2 = 1 => a2 = 1)                        \* reference links have no destination/title
  /\ (k = Label /\ parent.k \in {Link, Image} => parent.a2 = 1)          \* a full reference names a key
  /\ (k = Dest /\ parent.k \in {Link, Image} => (parent.a2 \div 2) % 2 = 1 /\ parent.a2 % 2 = 0)
  /\ (k = Title /\ parent.k \in {Link, Image} => (parent.a2 \div 4) % 2 = 1 /\ parent.a2 % 2 = 0)

\* ------------------------------------------------------------------ C13: the span delimits the construct's syntax
STAR == 42  USCORE == 95  BTICK == 96  LBR == 91  RBR == 93  RPAREN == 41  BANG == 33  LT == 60  GT == 62  AMP == 38
SEMI == 59  BSL == 92  GTQ == 62  EQ == 61  DASH == 45  TILDE == 126
RunFrom(src, i, c) == LET S == {k \in 0..(Len(src) - i + 1) : \A j \in 0..(k-1) : src[i+j] = c} IN CHOOSE k \in S : \A m \in S : m <= k
RunBack(src, i, c) == LET S == {k \in 0..i : \A j \in 0..(k-1) : src[i-j] = c} IN CHOOSE k \in S : \A m \in S : m <= k
\* x = Src[s+1..e] (1-based) is the text of the node; B(i) its i-th byte
ShapeOK(src, k, s, e, a1) ==
  LET n == e - s
      B(i) == src[s + i]
      last == src[e]
  IN CASE k = Emph -> n >= 3 /\ B(1) \in {STAR, USCORE} /\ last = B(1)
       [] k = Strong -> n >= 5 /\ B(1) \in {STAR, USCORE} /\ B(2) = B(1) /\ last = B(1) /\ src[e-1] = B(1)
       [] k = CodeSpan -> n >= 2 /\ B(1) = BTICK /\ last = BTICK
                          /\ LET a == RunFrom(src, s+1, BTICK)  b == RunBack(src, e, BTICK) IN a = b /\ 2 * a <= n
       [] k = Link -> n >= 2 /\ B(1) = LBR /\ last \in {RBR, RPAREN}
       [] k = Image -> n >= 3 /\ B(1) = BANG /\ B(2) = LBR /\ last \in {RBR, RPAREN}
       [] k = HtmlTag -> n >= 2 /\ B(1) = LT /\ last = GT
       \* <...> around an absolute URI or an e-mail address: no white space and no further angle bracket inside
       [] k = Autolink -> n >= 2 /\ B(1) = LT /\ last = GT /\ \A i \in 2..(n-1) : B(i) \notin {LT, GT, 32, 9, 10, 13}
       \* ONE character reference: & then a name or #digits or #xhex (letters and digits only) then ;
       [] k = CharRef -> n >= 3 /\ B(1) = AMP /\ last = SEMI
                         /\ \A i \in 2..(n-1) : B(i) \in (48..57) \cup (65..90) \cup (97..122) \/ (i = 2 /\ B(i) = 35)
       \* a backslash, or two or more spaces, WITH the line ending (exactly one: LF, CR or CRLF)
       [] k = Hard -> LET eol == IF n >= 2 /\ src[e-1] = 13 /\ last = 10 THEN 2 ELSE IF n >= 1 /\ last \in {10, 13} THEN 1 ELSE 0
                          m == n - eol
                      IN eol > 0 /\ ((m = 1 /\ B(1) = BSL) \/ (m >= 2 /\ \A i \in 1..m : B(i) = 32))
       [] k = Marker -> \/ n = 1 /\ B(1) \in {DASH, 43, STAR}
                        \/ n >= 2 /\ n <= 10 /\ last \in {46, 41} /\ \A i \in 1..(n-1) : B(i) \in 48..57
       [] k = Atx -> n >= a1 /\ (\A i \in 1..a1 : B(i) = 35) /\ (n = a1 \/ B(a1+1) # 35)
       [] k = Setext -> LET T == {i \in 1..n : B(i) \notin {32, 9, 10, 13}} IN
                        T # {} /\ LET m == CHOOSE i \in T : \A j \in T : j <= i IN B(m) = (IF a1 = 1 THEN EQ ELSE DASH)
       [] k = FCode -> n >= 3 /\ B(1) \in {BTICK, TILDE} /\ B(2) = B(1) /\ B(3) = B(1)
       [] k = Quote -> n >= 1 /\ B(1) = GTQ
       [] OTHER -> TRUE

\* ------------------------------------------------------------------ state
VARIABLES tid, l, stack, cover, utf, bad02, bad03, bad05, bad13, nodes
vars == <<tid, l, stack, cover, utf, bad02, bad03, bad05, bad13, nodes>>

Src == Traces[tid].src
Evs == Traces[tid].evs
Top == stack[Len(stack)]
DocFrame(n) == [k |-> DOC, s |-> 0, e |-> n, n |-> 0, prev |-> 0, last |-> 0, ul |-> FALSE, a1 |-> 0, a2 |-> 0, a3 |-> 0, kids |-> <<>>]

First(S, old) == IF old # "" \/ S = {} THEN old ELSE CHOOSE x \in S : TRUE

\* Enter a node: every enabling condition is LOCAL (parent frame only)
EnterFrame(src, u, ev, p) ==
  LET k == ev[2]  s == ev[3]  e == ev[4]
      valid == 0 <= s /\ s <= e /\ e <= Len(src)
      p02 == (IF ~valid THEN {"invalid-span"} ELSE {})
        \cup (IF s < p.s \/ e > p.e THEN {"outside-parent"} ELSE {})
        \cup (IF s < p.last THEN {"sibling-overlap-or-disorder"} ELSE {})
        \cup (IF p.k = DOC /\ valid /\ (e # Len(src) \/ \E i \in 1..s : src[i] \notin {32, 9}) THEN {"root-shape"} ELSE {})
        \cup (IF u /\ valid /\ ~(CharBoundary(src, s) /\ CharBoundary(src, e)) THEN {"inside-multibyte-character"} ELSE {})
      p05 == (IF ~MayContain(p.k, p.n + 1, p.prev, k) THEN {"grammar"} ELSE {})
        \cup (IF k = Link /\ p.ul THEN {"link-in-link"} ELSE {})
        \cup (IF k = Unparsed THEN {"unparsed"} ELSE {})
        \cup (IF ~AccessorsOK(k, ev[5], ev[6], ev[7], p) THEN {"accessor"} ELSE {})
      p13 == IF valid /\ s < e /\ ~ShapeOK(src, k, s, e, ev[5]) THEN {"shape"}
             ELSE IF valid /\ s = e /\ k \in {Emph, Strong, CodeSpan, Link, Image, Autolink, HtmlTag, CharRef, Hard, Marker, Atx, Setext, FCode, Quote} THEN {"empty-span"} ELSE {}
  IN [p02 |-> p02, p05 |-> p05, p13 |-> p13,
      parent |-> [p EXCEPT !.n = @ + 1, !.prev = k, !.last = IF e > @ THEN e ELSE @, !.kids = Append(@, k)],
      frame |-> [k |-> k, s |-> s, e |-> e, n |-> 0, prev |-> 0, last |-> s, ul |-> p.ul \/ k = Link,
                 a1 |-> ev[5], a2 |-> ev[6], a3 |-> ev[7], kids |-> <<>>]]

Enter(src, ev) ==
  LET r == EnterFrame(src, utf, ev, Top) IN
  /\ stack' = Append([stack EXCEPT ![Len(stack)] = r.parent], r.frame)
  /\ bad02' = First(r.p02, bad02) /\ bad05' = First(r.p05, bad05) /\ bad13' = First(r.p13, bad13)
  /\ UNCHANGED <<cover, bad03>>
  /\ nodes' = nodes + 1

\* consumer preconditions (html_renderer.go, references.go, format/format.go index children by position)
ConsumerPre(f) ==
  /\ (f.k = Autolink => f.kids = <<Text>>)
  /\ (f.k = RefDef => Len(f.kids) \in {2, 3} /\ f.kids[1] = Label /\ f.kids[2] = Dest /\ (Len(f.kids) = 3 => f.kids[3] = Title))
  /\ (f.k = Item => Len(f.kids) >= 1 /\ f.kids[1] = Marker)
  /\ (f.k = List => Len(f.kids) >= 1 /\ \A i \in 1..Len(f.kids) : f.kids[i] = Item)
  /\ (f.k = FCode => \A i \in 2..Len(f.kids) : f.kids[i] # Info)

Leave(src) ==
  LET f == Top
      leaf == f.n = 0 /\ IsTextLeafKind(f.k)
      okspan == 0 <= f.s /\ f.s <= f.e /\ f.e <= Len(src)
      dbl == leaf /\ okspan /\ \E i \in (f.s+1)..f.e : cover[i] >= 1
      few == f.n < MinChildren(f.k)
  IN /\ Len(stack) > 1
     /\ stack' = SubSeq(stack, 1, Len(stack) - 1)
     /\ cover' = IF leaf /\ okspan THEN [i \in 1..Len(src) |-> IF i > f.s /\ i <= f.e THEN cover[i] + 1 ELSE cover[i]] ELSE cover
     /\ bad03' = IF dbl THEN First({"byte-covered-by-two-leaves"}, bad03) ELSE bad03
     /\ bad05' = IF few THEN First({"too-few-children"}, bad05) ELSE IF ~ConsumerPre(f) THEN First({"consumer-precondition"}, bad05) ELSE bad05
     /\ UNCHANGED <<bad02, bad13, nodes>>

IsAlnumHigh(b) == b >= 128 \/ (b >= 48 /\ b <= 57) \/ (b >= 65 /\ b <= 90) \/ (b >= 97 /\ b <= 122)

\* ------------------------------------------------------------------ (a) trace validation
TraceInit == \E k \in 1..Len(Traces) :
          /\ tid = k /\ l = 0 /\ utf = FALSE /\ nodes = 0
          /\ bad02 = "" /\ bad03 = "" /\ bad05 = "" /\ bad13 = ""
          /\ cover = <<>> /\ stack = <<>>
Begin == /\ l = 0 /\ l' = 1
         /\ utf' = ValidUTF8(Src)
         /\ cover' = [i \in 1..Len(Src) |-> 0]
         /\ stack' = <<DocFrame(Len(Src))>>
         /\ UNCHANGED <<tid, bad02, bad03, bad05, bad13, nodes>>
Step == /\ l >= 1 /\ l <= Len(Evs)
        /\ l' = l + 1 /\ UNCHANGED <<tid, utf>>
        /\ IF Evs[l][1] = 1 THEN Enter(Src, Evs[l]) ELSE Leave(Src)
Finish == /\ l = Len(Evs) + 1 /\ Len(stack) = 1
          /\ l' = l + 1
          /\ bad03' = IF \E i \in 1..Len(Src) : IsAlnumHigh(Src[i]) /\ cover[i] = 0
                      THEN First({"text-byte-not-covered-by-any-leaf"}, bad03) ELSE bad03
          /\ bad05' = IF stack[1].n # 1 THEN First({"root-count"}, bad05) ELSE bad05
          /\ UNCHANGED <<tid, stack, cover, utf, bad02, bad13, nodes>>
TraceNext == Begin \/ Step \/ Finish
TraceSpec == TraceInit /\ [][TraceNext]_vars

\* evaluated once, in the final state of a trace, so that a rejected trace is reported once
AtEnd == l = Len(Evs) + 2
OK02 == AtEnd => bad02 = ""
OK03 == AtEnd => bad03 = ""
OK05 == AtEnd => bad05 = ""
OK13 == AtEnd => bad13 = ""

\* ------------------------------------------------------------------ (b) generation: model-level lemmas
GenSrc == [i \in 1..SrcLen |-> 97]
GenInit == /\ tid = 0 /\ l = 0 /\ utf = TRUE /\ nodes = 0
           /\ bad02 = "" /\ bad03 = "" /\ bad05 = "" /\ bad13 = ""
           /\ cover = [i \in 1..SrcLen |-> 0] /\ stack = <<DocFrame(SrcLen)>>
\* enter any node that the LOCAL conditions of families C02 and C05 allow (accessors fixed to legal values)
GenEnter == /\ nodes < MaxNodes
            /\ \E k \in GenKinds, s \in 0..SrcLen, e \in 0..SrcLen :
                 LET a1 == IF k = Atx \/ k = Setext THEN 1 ELSE 0
                     a2 == IF k = Item THEN Top.a2 ELSE 0
                     a3 == IF IsBlockKind(k) THEN -1 ELSE 0
                     ev == <<1, k, s, e, a1, a2, a3>>
                     r == EnterFrame(GenSrc, TRUE, ev, Top)
                 IN /\ s <= e /\ (SrcLen = 0 => s = 0 /\ e = 0)
                    /\ (Top.k = DOC => Top.n = 0 /\ (SrcLen > 0 => s = 0 /\ e = SrcLen))
                    /\ r.p02 = {} /\ r.p05 = {}
                    /\ Enter(GenSrc, ev)
            /\ UNCHANGED <<tid, l, utf>>
GenLeave == /\ Len(stack) > 1 /\ Top.n >= MinChildren(Top.k)
            /\ Leave(GenSrc) /\ UNCHANGED <<tid, l, utf>>
GenNext == GenEnter \/ GenLeave
\* GLOBAL facts that follow from the local conditions
NoDoubleCover == \A i \in 1..Len(cover) : cover[i] <= 1
StackNested == \A i \in 2..Len(stack) : stack[i-1].s <= stack[i].s /\ stack[i].e <= stack[i-1].e
ConsumersSafe == bad05 = "" /\ bad03 = ""
=============================================================================
