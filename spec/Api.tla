---------------------------- MODULE Api ----------------------------
(* Legal call histories of the public API (C04: parsing, rendering, formatting and walking are total).

   Operations: 1 Parse, 2 NewBlockParser, 3 NextBlock, 4 Extract, 5 Rewrite, 6 Render(cfg), 7 AppendBlock(cfg),
               8 Format, 9 Walk (the user's Post callback may stop it early: it still returns, and whatever it leaves behind
               must not be seen by any later call), 10 NewBlockParser / 11 NextBlock on a SECOND parser value over another input:
               parser values are independent, so a caller may hold several and advance them in any order between each other's calls.
   Every Call(op) is followed by exactly one Return(op, r).  Panic and Timeout are NOT actions of the
   specification, so a recorded history containing one is not a behaviour.  Results (reader and writer never
   fail): NextBlock returns a block (0) or end-of-input (1) and nothing else; after end-of-input every further
   NextBlock returns end-of-input; Render, Format report no error (0).

   State: busy (the outstanding call, 0 if none), parser (one of "none" | "open" | "eof" per parser value), n (events consumed).
   The generator config explores all histories up to MaxEvents and checks the protocol invariants;
   trace mode folds the recorded history through the same Step relation (one state per recorded input).
   Recorded events: <<1, op, arg>> call, <<2, op, r>> return, <<5, op, r>> call immediately followed by its
   return (the library is sequential), <<3, op, _>> panic, <<4, op, _>> watchdog timeout.
*)
EXTENDS Integers, Sequences, FiniteSets, TLC, Json

CONSTANTS File, MaxEvents

Ops == 1..11
PIdx(op) == IF op \in {10, 11} THEN 2 ELSE 1      \* which parser value a NewBlockParser / NextBlock call is about
IsNew(op) == op \in {2, 10}
IsNext(op) == op \in {3, 11}
ResultOK(op, r, parser) ==
  IF IsNext(op) THEN r \in {0, 1} /\ (parser[PIdx(op)] = "eof" => r = 1)
  ELSE r = 0
CallOK(op, s) ==
  /\ s.busy = 0
  /\ (IsNext(op) => s.parser[PIdx(op)] # "none")
AfterReturn(op, r, s) ==
  [s EXCEPT !.busy = 0,
            !.parser[PIdx(op)] = IF IsNew(op) THEN "open" ELSE IF IsNext(op) /\ r = 1 THEN "eof" ELSE @]
\* one recorded event: new state, or the reason it is not a step of the specification
Step(s, ev) ==
  LET k == ev[1]  op == ev[2]  r == ev[3] IN
  IF s.bad # "" THEN s
  ELSE IF k = 3 THEN [s EXCEPT !.bad = "panic"]
  ELSE IF k = 4 THEN [s EXCEPT !.bad = "timeout"]
  ELSE IF op \notin Ops THEN [s EXCEPT !.bad = "unknown-operation"]
  ELSE IF k = 1 THEN (IF CallOK(op, s) THEN [s EXCEPT !.busy = op] ELSE [s EXCEPT !.bad = "call-while-busy-or-out-of-order"])
  ELSE IF k = 2 THEN (IF s.busy # op THEN [s EXCEPT !.bad = "return-without-call"]
                      ELSE IF ~ResultOK(op, r, s.parser) THEN [s EXCEPT !.bad = "unexpected-result"]
                      ELSE AfterReturn(op, r, s))
  ELSE IF k = 5 THEN (IF ~CallOK(op, s) THEN [s EXCEPT !.bad = "call-while-busy-or-out-of-order"]
                      ELSE IF ~ResultOK(op, r, s.parser) THEN [s EXCEPT !.bad = "unexpected-result"]
                      ELSE AfterReturn(op, r, s))
  ELSE [s EXCEPT !.bad = "unknown-event"]
S0 == [busy |-> 0, parser |-> <<"none", "none">>, bad |-> ""]
RECURSIVE Fold(_, _, _)
Fold(s, evs, i) == IF i > Len(evs) THEN s ELSE Fold(Step(s, evs[i]), evs, i + 1)
HistoryVerdict(evs) == LET s == Fold(S0, evs, 1) IN
                       IF s.bad # "" THEN s.bad ELSE IF s.busy # 0 THEN "call-never-returned" ELSE "ok"

\* ---- generator: all legal histories (model-level sanity of the protocol)
VARIABLES s, hist, tid, verdict
vars == <<s, hist, tid, verdict>>
GenInit == s = S0 /\ hist = <<>> /\ tid = 0 /\ verdict = "ok"
GenNext == /\ Len(hist) < MaxEvents
           /\ \E k \in {1, 2, 5}, op \in {1, 2, 3, 6, 7, 8, 9, 10, 11}, r \in {0, 1} :
                LET t == Step(s, <<k, op, r>>) IN
                /\ t.bad = ""
                /\ s' = t /\ hist' = Append(hist, <<k, op, r>>)
           /\ UNCHANGED <<tid, verdict>>
\* every generated history is accepted by the fold; EOF is persistent; at most one outstanding call
FoldAgrees == HistoryVerdict(hist) \in {"ok", "call-never-returned"} /\ Fold(S0, hist, 1) = s
EofPersistent == \A i, j \in 1..Len(hist) : (i < j /\ IsNext(hist[i][2]) /\ hist[j][2] = hist[i][2] /\ hist[i][1] \in {2, 5} /\ hist[j][1] \in {2, 5}
                                             /\ hist[i][3] = 1
                                             /\ ~\E m \in (i+1)..(j-1) : IsNew(hist[m][2]) /\ PIdx(hist[m][2]) = PIdx(hist[i][2])) => hist[j][3] = 1
\* parser values are independent: what one of them is told never changes the state of the other
ParsersIndependent == [][\A q \in 1..2 : s'.parser[q] # s.parser[q] =>
                             Len(hist') = Len(hist) + 1 /\ PIdx(hist'[Len(hist')][2]) = q /\ (IsNew(hist'[Len(hist')][2]) \/ IsNext(hist'[Len(hist')][2]))]_vars

\* ---- driver generator (direction A): every legal sequence of exactly MaxEvents operations. The harness executes each sequence on a set
\* of inputs (Extract acts on the last block NextBlock returned, Rewrite on every block returned so far, Render / AppendBlock / Format / Walk
\* on the in-memory parse if there is one, else on the blocks returned so far - rewritten or not) and records the history for validation.
\* "Total" is a statement about every call history, not only about the customary one.
DrvNext == /\ Len(hist) < MaxEvents
           /\ \E op \in Ops :
                /\ CallOK(op, s)
                /\ (op \in {4, 5} => s.parser[1] # "none")
                /\ s' = [s EXCEPT !.parser[PIdx(op)] = IF IsNew(op) THEN "open" ELSE @]
                /\ hist' = Append(hist, <<5, op, 0>>)
           /\ UNCHANGED <<tid, verdict>>
DrvEmit == Len(hist) = MaxEvents => PrintT(ToJson([ops |-> [i \in 1..Len(hist) |-> hist[i][2]]]))

\* ---- trace validation
Traces == ndJsonDeserialize(File)
TraceInit == (\E k \in 1..Len(Traces) : tid = k /\ verdict = "init") /\ s = S0 /\ hist = <<>>
TraceNext == verdict = "init" /\ verdict' = HistoryVerdict(Traces[tid].evs) /\ UNCHANGED <<tid, s, hist>>
Accepted == verdict \in {"init", "ok"}
=============================================================================
