---------------------------- MODULE FullTrace ----------------------------
(* Full.tla evaluated on recorded documents (direction B for the model itself): every record {id, src} of File is its
   own initial state; one step computes Model(src) and prints it. Used to validate the composed model against the
   652 examples of the CommonMark 0.30 specification (the harness compares the model's HTML with the example's). *)
EXTENDS Integers, Sequences, FiniteSets, TLC, Json

CONSTANT File
Traces == ndJsonDeserialize(File)

VARIABLES tid, done, doc
F == INSTANCE Full WITH MaxLines <- 0, ShapeSetName <- "none"

Init == \E k \in 1..Len(Traces) : tid = k /\ done = FALSE /\ doc = <<>>
Next == /\ ~done
        /\ done' = TRUE
        /\ PrintT(ToJson([id |-> Traces[tid].id, html |-> F!Model(Traces[tid].src).html]))
        /\ UNCHANGED <<tid, doc>>
=============================================================================
