---------------------------- MODULE RefsInc ----------------------------
(* The reference machinery as the API exposes it: an INCREMENTAL state machine (Refs.tla is its
   document-level, functional view).

   The library never sees "a document with its definitions": a caller owns
     - root blocks (from NextBlock), each either a definition block or a paragraph with a use,
     - reference maps (ReferenceMap values; Extract adds a block's definitions, first wins),
     - ONE InlineParser value whose ReferenceMatcher field the caller may point at any map (or leave nil)
       before each Rewrite call.
   State: maps[d] for two documents d = 1, 2 (key -> destination), which definition blocks were extracted,
   which use blocks were rewritten and what each use became at the time of its Rewrite call.
   Actions (one per API call):
     Extract(i)        maps[doc[i].d] gains the block's definition unless the key is present (first wins).
                       Within one document definitions are extracted in source order (that is what the
                       property's "extracting definitions from the root blocks in order" quantifies over);
                       a block may be extracted again (a no-op: the key is present).
     Rewrite(i, sel)   the parser's ReferenceMatcher is set to nil (sel = 0) or to maps[sel] (the LIVE map,
                       not a snapshot) and the block is rewritten: the use becomes a reference link iff its
                       normalized label is a key of that map NOW. Nothing is remembered from earlier calls.
   Theorems checked by TLC on every reachable state:
     MapIsFirstWins    maps[d] = MapOf(the definitions of d extracted so far)   (C12: "the map equals extracting ...")
     Monotone          (action property) keys are never removed or re-bound
     StandardAgrees    a use rewritten against its own document's map after all of that document's definitions
                       were extracted has the document-level meaning Refs.Resolve gives it
     LinkNamesKey      a use that became a link names a key of the matcher it was rewritten against
   Named deviation MemoDeviation (off in every property configuration): answers of the matcher are cached per
   normalized label on the parser value and never invalidated - what a "memoizing" InlineParser does. With it
   TLC finds StandardAgrees and LinkNamesKey violated (selftest), which shows the theorems bite.

   Every complete behaviour is emitted (direction A): the harness performs exactly these calls on real root
   blocks with one InlineParser value and compares every use after its Rewrite call.
*)
EXTENDS Refs

CONSTANTS MaxReextract,   \* how many repeated Extract calls a behaviour may contain
          IncStyles,      \* reference styles the generator uses (subset of 1..3)
          IncContainers,  \* containers of definitions the generator uses (subset of 0..1)
          IncLabelSet,    \* "aAb" | "aA"
          MemoDeviation   \* BOOLEAN, see above

VARIABLES phase,      \* "build" | "run" | "done"
          maps,       \* [1..2 -> function key -> dest]
          nextract,   \* [1..Len(doc) -> number of Extract calls on the block]
          ures,       \* [1..Len(doc) -> -1 not rewritten | 0 stayed text | 1 became a reference link]
          usel,       \* [1..Len(doc) -> the matcher selection of the Rewrite call]
          uafter,     \* [1..Len(doc) -> TRUE iff all definitions of the use's document had been extracted at the call]
          hist,       \* the calls, in order: <<"X", i>> | <<"W", i, sel>>
          memo        \* the deviation's cache: function key -> BOOLEAN
ivars == <<doc, tid, verdict, phase, maps, nextract, ures, usel, uafter, hist, memo>>

IncLabels == IF IncLabelSet = "aA" THEN {<<"a">>, <<"A">>} ELSE {<<"a">>, <<"A">>, <<"b">>}
EmptyFn == [x \in {} |-> 0]

DefIdx(d) == {i \in 1..Len(doc) : doc[i].t = "def" /\ doc[i].d = d}
UseIdx == {i \in 1..Len(doc) : doc[i].t = "use"}
\* the items of document d, in order (for the document-level meaning)
DocOf(d) == SelectSeq(doc, LAMBDA it : it.d = d)
ExtractedDefs(d) == SelectSeq([i \in 1..Len(doc) |-> IF i \in DefIdx(d) /\ nextract[i] > 0 THEN doc[i] ELSE [t |-> "skip"]],
                              LAMBDA it : it.t = "def")

IncInit == /\ doc = <<>> /\ tid = 0 /\ verdict = "ok" /\ phase = "build"
           /\ maps = [d \in 1..2 |-> EmptyFn] /\ nextract = <<>> /\ ures = <<>> /\ usel = <<>> /\ uafter = <<>>
           /\ hist = <<>> /\ memo = EmptyFn

\* documents: items of document 1 first, then those of document 2; containers 0 (root) and 1 (block quote)
Build == /\ phase = "build" /\ Len(doc) < MaxItems
         /\ \E d \in 1..2 :
              /\ (Len(doc) > 0 => d >= doc[Len(doc)].d)
              /\ (Len(doc) = 0 => d = 1)
              /\ \/ /\ NDefs(doc) < MaxDefs
                    /\ \E l \in IncLabels, c \in IncContainers :
                         doc' = Append(doc, [t |-> "def", label |-> l, dest |-> NDefs(doc) + 1, container |-> c, style |-> 0, d |-> d])
                 \/ /\ NUses(doc) < MaxUses
                    /\ \E l \in IncLabels, st \in IncStyles :
                         doc' = Append(doc, [t |-> "use", label |-> l, dest |-> 0, container |-> 0, style |-> st, d |-> d])
         /\ UNCHANGED <<tid, verdict, phase, maps, nextract, ures, usel, uafter, hist, memo>>

Start == /\ phase = "build" /\ NUses(doc) >= 1
         /\ phase' = "run"
         /\ nextract' = [i \in 1..Len(doc) |-> 0]
         /\ ures' = [i \in 1..Len(doc) |-> -1]
         /\ usel' = [i \in 1..Len(doc) |-> 0]
         /\ uafter' = [i \in 1..Len(doc) |-> FALSE]
         /\ UNCHANGED <<doc, tid, verdict, maps, hist, memo>>

Extract(i) ==
  /\ phase = "run" /\ doc[i].t = "def"
  /\ \A j \in DefIdx(doc[i].d) : j < i => nextract[j] > 0          \* source order within a document
  /\ \/ nextract[i] = 0
     \/ nextract[i] = 1 /\ Cardinality({j \in 1..Len(doc) : nextract[j] > 1}) < MaxReextract
  /\ LET d == doc[i].d
         k == Normalize(doc[i].label)
     IN maps' = [maps EXCEPT ![d] = IF k \in DOMAIN maps[d] THEN maps[d] ELSE maps[d] @@ (k :> doc[i].dest)]
  /\ nextract' = [nextract EXCEPT ![i] = @ + 1]
  /\ hist' = Append(hist, <<"X", i, 0>>)
  /\ UNCHANGED <<doc, tid, verdict, phase, ures, usel, uafter, memo>>

Answer(k, sel) == IF sel = 0 THEN FALSE
                  ELSE IF MemoDeviation /\ k \in DOMAIN memo THEN memo[k]
                  ELSE k \in DOMAIN maps[sel]

Rewrite(i, sel) ==
  /\ phase = "run" /\ doc[i].t = "use" /\ ures[i] = -1
  /\ LET k == Normalize(doc[i].label)
     IN /\ ures' = [ures EXCEPT ![i] = IF Answer(k, sel) THEN 1 ELSE 0]
        /\ memo' = IF MemoDeviation /\ sel # 0 /\ k \notin DOMAIN memo THEN memo @@ (k :> (k \in DOMAIN maps[sel])) ELSE memo
  /\ usel' = [usel EXCEPT ![i] = sel]
  /\ uafter' = [uafter EXCEPT ![i] = \A j \in DefIdx(doc[i].d) : nextract[j] > 0]
  /\ hist' = Append(hist, <<"W", i, sel>>)
  /\ UNCHANGED <<doc, tid, verdict, phase, maps, nextract>>

Complete == phase = "run" /\ (\A i \in UseIdx : ures[i] # -1) /\ (\A d \in 1..2 : \A i \in DefIdx(d) : nextract[i] > 0)
Finish == /\ Complete /\ phase' = "done"
          /\ UNCHANGED <<doc, tid, verdict, maps, nextract, ures, usel, uafter, hist, memo>>

IncNext == \/ Build \/ Start \/ Finish
           \/ \E i \in 1..Len(doc) : Extract(i)
           \/ \E i \in 1..Len(doc), sel \in 0..2 : Rewrite(i, sel)

\* ---- theorems
MapIsFirstWins == phase # "build" => \A d \in 1..2 : maps[d] = MapOf(ExtractedDefs(d))
Monotone == [][\A d \in 1..2 : \A k \in DOMAIN maps[d] : k \in DOMAIN maps'[d] /\ maps'[d][k] = maps[d][k]]_ivars
\* the document-level meaning (Refs.tla) of use i
DocLevel(i) == IF Resolve(DocOf(doc[i].d), doc[i]) # 0 THEN 1 ELSE 0
StandardAgrees == phase # "build" =>
                    \A i \in UseIdx : ures[i] # -1 /\ usel[i] = doc[i].d /\ uafter[i] => ures[i] = DocLevel(i)
LinkNamesKey == phase # "build" =>
                  \A i \in UseIdx : ures[i] = 1 => usel[i] # 0 /\ Normalize(doc[i].label) \in DOMAIN maps[usel[i]]
KeysNormalizedInc == \A d \in 1..2 : \A k \in DOMAIN maps[d] : Normalize(k) = k

\* ---- direction A
IncEmit == phase = "done" =>
           PrintT(ToJson([doc |-> doc, hist |-> hist,
                          res |-> [i \in 1..Len(doc) |-> ures[i]],
                          doclevel |-> [i \in 1..Len(doc) |-> IF doc[i].t = "use" THEN DocLevel(i) ELSE 0],
                          standard |-> [i \in 1..Len(doc) |-> IF doc[i].t = "use" /\ usel[i] = doc[i].d /\ uafter[i] THEN 1 ELSE 0],
                          keyof |-> [i \in 1..Len(doc) |-> Normalize(doc[i].label)],
                          map1 |-> {<<k, maps[1][k]>> : k \in DOMAIN maps[1]},
                          map2 |-> {<<k, maps[2][k]>> : k \in DOMAIN maps[2]}]))
=============================================================================
