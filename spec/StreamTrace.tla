---------------------------- MODULE StreamTrace ----------------------------
(* Trace validation for C01 and C08: executions recorded from the real parser (harness command
   `stream`) are checked against the ABSTRACT layer of Stream.tla - what a caller may observe.

   Every recorded execution is a separate initial state (tid); acceptance of the whole execution is
   evaluated in one step (in Next, i.e. on a worker thread), giving verdict = "ok" or the name of
   the violated clause.  INVARIANT Accepted;  tlc -continue reports every rejected trace.

   C01 record: in (input bytes), entry (0 Parse, 1 NewBlockParser over a one-shot reader, 2 one line per Read,
               3 three bytes per Read, 4 / 5 data with EOF / drip reader, 6 other parser values at work between the calls; blocks are inspected after the last one was returned), recs [so, eo, line, len(Source),
               aliased, clipped], srcs (Source bytes), same (caller's buffer unchanged after parse +
               render + format), nul, err; long = 1 -> bytes not shipped, derived flags der/tailb.
   C08 record: cut, fail, exp/expr (interned dumps of Parse(input[0..cut)) and its reference map),
               expb (interned block-level dumps), evs = [1,req,n,flag] read | [2,dump] block | [3,err],
               fin/finr (streamed blocks after Extract+Rewrite, reference map), after (reads after latch);
               lim = 1: a schedule of Stream.tla with a small MaxBuf replayed with the same limits (hook SetVerifLimits); the
               model expects the line starting at upto to be dropped: exp/expb are those of input[0..upto), the error
               must be "line eline: block too large" ([3, 4, line]).
*)
EXTENDS Bytes, TLC, Json

CONSTANTS File, Mode      \* Mode \in {"c01", "c08"}

Traces == ndJsonDeserialize(File)

Min(S) == CHOOSE x \in S : \A y \in S : x <= y
RECURSIVE SumN(_, _)
SumN(evs, i) == IF i > Len(evs) THEN 0 ELSE (IF evs[i][1] = 1 THEN evs[i][3] ELSE 0) + SumN(evs, i+1)

\* ------------------------------------------------------------------ C01: Emit sequence is a legal tiling
C01Check(t) ==
  LET x == t.in
      recs == t.recs
      n == Len(recs)
      So(k) == recs[k][1]   Eo(k) == recs[k][2]   Line(k) == recs[k][3]   SrcLen(k) == recs[k][4]
      PrevEnd(k) == IF k = 1 THEN 0 ELSE Eo(k-1)
  IN
  IF \E k \in 1..n : ~(So(k) < Eo(k) /\ Eo(k) <= t.n /\ PrevEnd(k) <= So(k)) THEN "ranges-not-ordered"
  ELSE IF t.same # 1 THEN "caller-buffer-modified"
  ELSE IF t.err # 1 THEN "not-end-of-input"
  ELSE IF t.entry = 0 /\ t.nul = 0 /\ (\E k \in 1..n : recs[k][5] # 1) THEN "source-not-aliasing-caller-buffer"
  ELSE IF t.long = 1 THEN
       IF \E k \in 1..n : t.der[k][1] # 1 THEN "gap-not-blank"
       ELSE IF \E k \in 1..n : t.der[k][2] # 1 THEN "start-line-wrong"
       ELSE IF \E k \in 1..n : t.der[k][3] # 1 THEN "source-differs-from-input-range"
       ELSE IF t.tailb # 1 THEN "tail-not-blank"
       ELSE IF t.nul = 0 /\ (\E k \in 1..n : SrcLen(k) # Eo(k) - So(k)) THEN "length-mismatch"
       ELSE "ok"
  ELSE
       IF \E k \in 1..n : ~IsBlank(Sub(x, PrevEnd(k), So(k))) THEN "gap-not-blank"
       ELSE IF \E k \in 1..n : Line(k) # 1 + LineEndings(Sub(x, 0, So(k))) THEN "start-line-wrong"
       ELSE IF \E k \in 1..n : t.srcs[k] # ReplaceNUL(Sub(x, So(k), Eo(k))) THEN "source-differs-from-input-range"
       ELSE IF \E k \in 1..n : SrcLen(k) # (Eo(k) - So(k)) + 2 * NulCount(Sub(x, So(k), Eo(k))) THEN "length-mismatch"
       ELSE IF ~IsBlank(Sub(x, IF n = 0 THEN 0 ELSE Eo(n), Len(x))) THEN "tail-not-blank"
       ELSE "ok"

\* ------------------------------------------------------------------ C08: StreamAbs
C08Check(t) ==
  LET evs == t.evs
      bidx == {i \in 1..Len(evs) : evs[i][1] = 2}
      eidx == {i \in 1..Len(evs) : evs[i][1] = 3}
      ridx == {i \in 1..Len(evs) : evs[i][1] = 1}
      blocks == SelectSeq(evs, LAMBDA e : e[1] = 2)
      wantErr == IF t.lim = 1 THEN 4 ELSE IF t.fail = 1 THEN 2 ELSE 1    \* 4 = "line N: block too large" (Stream.tla, size limit)
      latch == {i \in ridx : evs[i][4] # 0}
  IN
  IF \E i \in bidx, j \in eidx : j < i THEN "block-after-error"
  ELSE IF [k \in 1..Len(blocks) |-> blocks[k][2]] # t.expb THEN "blocks-not-those-of-the-prefix"
  ELSE IF \E i \in eidx : evs[i][2] # wantErr THEN "wrong-error-value"
  ELSE IF t.lim = 1 /\ (\E i \in eidx : evs[i][3] # t.eline) THEN "too-large-names-the-wrong-line"
  ELSE IF Cardinality(eidx) # 4 THEN "error-not-persistent"
  ELSE IF t.fin # t.exp THEN "trees-differ-from-in-memory-parse"
  ELSE IF t.finr # t.expr THEN "reference-map-differs"
  ELSE IF t.after # 0 THEN "read-after-latch"
  ELSE IF latch # {} /\ (\E i \in ridx : i > Min(latch)) THEN "read-after-latch"
  ELSE IF \E i \in ridx : evs[i][3] > evs[i][2] THEN "reader-protocol"
  ELSE "ok"

Check(t) == IF Mode = "c01" THEN C01Check(t) ELSE C08Check(t)

VARIABLES tid, verdict
vars == <<tid, verdict>>
Init == \E k \in 1..Len(Traces) : tid = k /\ verdict = "init"
Next == verdict = "init" /\ verdict' = Check(Traces[tid]) /\ UNCHANGED tid
Spec == Init /\ [][Next]_vars
Accepted == verdict \in {"init", "ok"}
=============================================================================
