---------------------------- MODULE FullDirected ----------------------------
(* Full.tla evaluated on DIRECTED documents: byte strings written by the harness (`vharness full dirgen`) rather than
   composed from line shapes - documents no shape set can hold because what matters in them is a COUNT: code fences,
   backtick strings, delimiter runs and indentation of 255 / 256 / 257 characters (a length kept in a narrow integer
   wraps there), ten-digit list markers, seven '#', closing fences one shorter / equal / longer than a long opening one.
   Every record {id, src} of File is its own initial state; one step prints ModelOf(src) - the complete expectation
   (block skeleton, inline structure, HTML per root block) in the vocabulary of Full.tla's own Emit, so the harness
   compares it with the real parser exactly as it compares the generated documents. *)
EXTENDS Integers, Sequences, FiniteSets, TLC, Json

CONSTANT File
Traces == ndJsonDeserialize(File)

VARIABLES tid, done, doc
F == INSTANCE Full WITH MaxLines <- 0, ShapeSetName <- "none"

Init == \E k \in 1..Len(Traces) : tid = k /\ done = FALSE /\ doc = <<>>
Next == /\ ~done
        /\ done' = TRUE
        /\ PrintT(ToJson(F!ModelOf(Traces[tid].src)))
        /\ UNCHANGED <<tid, doc>>
=============================================================================
