---------------------------- MODULE Proto ----------------------------
(* The two abstract layers that the bounded implementation-shaped models (Format.tla's writer machine, Stream.tla's
   buffer machine) are checked against, as integer machines whose invariants are INDUCTIVE - discharged by Apalache
   for any number of steps (not only up to TLC's bounds):

   Writer protocol (C20, first clause): calls are issued one at a time; the failAt-th call fails (0: never); after a
   failure nothing more is written and the error returned is that first failure's identity.

   Tiling (C01): root blocks are emitted left to right over an input of length N; each block [s, e) starts at or after the
   cursor, is non-empty, and moves the cursor to e; StartLine never decreases.
*)
EXTENDS Integers

CONSTANTS
  \* @type: Int;
  N,
  \* @type: Int;
  FailAt

VARIABLES
  \* @type: Int;
  calls,
  \* @type: Int;
  err,
  \* @type: Int;
  cursor,
  \* @type: Int;
  lastStart,
  \* @type: Int;
  lastEnd,
  \* @type: Int;
  line,
  \* @type: Int;
  lastLine

ConstInit == N \in 0..1000000 /\ FailAt \in 0..1000000

Init == /\ calls = 0 /\ err = 0
        /\ cursor = 0 /\ lastStart = 0 /\ lastEnd = 0 /\ line = 1 /\ lastLine = 1

\* the formatter issues a write only while no error is latched
Write == /\ err = 0
         /\ calls' = calls + 1
         /\ err' = IF calls + 1 = FailAt THEN FailAt ELSE 0
         /\ UNCHANGED <<cursor, lastStart, lastEnd, line, lastLine>>

\* a root block [s, e) beginning on line ln
Emit == \E s \in 0..N, e \in 0..N, ln \in 1..(N + 1) :
          /\ s >= cursor /\ s < e
          /\ ln >= line /\ ln <= 1 + s             \* at most one line ending per byte before s
          /\ lastStart' = s /\ lastEnd' = e /\ cursor' = e
          /\ lastLine' = ln /\ line' = ln
          /\ UNCHANGED <<calls, err>>

Next == Write \/ Emit

\* ---- the properties
NoWriteAfterFailure == err # 0 => calls = FailAt
ErrIsFirstFailure == err \in {0, FailAt} /\ (err # 0 <=> (FailAt # 0 /\ calls >= FailAt))
Ordered == lastStart <= lastEnd /\ lastEnd <= cursor /\ cursor <= N /\ lastLine <= line
\* ---- the inductive invariant (types + the properties; nothing else is needed)
IndInv == /\ calls >= 0 /\ err >= 0
          /\ NoWriteAfterFailure /\ ErrIsFirstFailure
          /\ (FailAt # 0 /\ err = 0 => calls < FailAt)
          /\ cursor >= 0 /\ lastStart >= 0 /\ lastEnd >= 0 /\ line >= 1 /\ lastLine >= 1
          /\ Ordered
IndInit == /\ calls \in 0..2000000 /\ err \in 0..1000000
           /\ cursor \in 0..1000000 /\ lastStart \in 0..1000000 /\ lastEnd \in 0..1000000 /\ line \in 1..1000001 /\ lastLine \in 1..1000001
           /\ IndInv
=============================================================================
