---------------------------- MODULE LineDefs ----------------------------
(* The pure (variable-free) definitions of LineRules.tla: byte classes, the five line recognisers,
   URI normalisation, e-mail address and autolink syntax (CommonMark 0.30 sections 2.1, 4.1-4.5, 5.2, 6.5;
   RFC 3986 character sets). Shared by LineRules.tla (C15), Render.tla (C10) and Blocks.tla. *)
EXTENDS Bytes

TAB == 9  BS == 92  BT == 96  TILDE == 126      \* SP, LF, CR, HASH come from Bytes
IsWS(b) == b \in {SP, TAB}
IsEOL(b) == b \in {LF, CR}
Digits == 48..57
Letters == (65..90) \cup (97..122)
Alnum == Digits \cup Letters

\* ---------------------------------------------------------------- 2.1 classes, all 256 bytes
AsciiPunct == (33..47) \cup (58..64) \cup (91..96) \cup (123..126)
AsciiControl == (0..31) \cup {127}
HexDigits == Digits \cup (65..70) \cup (97..102)
SpaceTabEOL == {SP, TAB, LF, CR}
ByteBits(c) == (IF c \in AsciiPunct THEN 1 ELSE 0) + (IF c \in AsciiControl THEN 2 ELSE 0)
             + (IF c \in HexDigits THEN 4 ELSE 0) + (IF c \in SpaceTabEOL THEN 8 ELSE 0)
             + (IF c \in Letters THEN 16 ELSE 0) + (IF c \in Digits THEN 32 ELSE 0)
\* Unicode whitespace: Zs, tab, LF, FF, CR.  Unicode punctuation: ASCII punctuation or Pc Pd Pe Pf Pi Po Ps.
\* sample code points <<cp, whitespace?, punctuation?>>
RuneTable == << <<9, 1, 0>>, <<10, 1, 0>>, <<12, 1, 0>>, <<13, 1, 0>>, <<32, 1, 0>>, <<11, 0, 0>>, <<0, 0, 0>>,
                <<160, 1, 0>>, <<5760, 1, 0>>, <<8192, 1, 0>>, <<8202, 1, 0>>, <<8239, 1, 0>>, <<8287, 1, 0>>, <<12288, 1, 0>>,
                <<8203, 0, 0>>, <<8232, 0, 0>>, <<8233, 0, 0>>, <<133, 0, 0>>,
                <<33, 0, 1>>, <<36, 0, 1>>, <<43, 0, 1>>, <<60, 0, 1>>, <<94, 0, 1>>, <<96, 0, 1>>, <<124, 0, 1>>, <<126, 0, 1>>, <<95, 0, 1>>,
                <<171, 0, 1>>, <<187, 0, 1>>, <<8212, 0, 1>>, <<8220, 0, 1>>, <<8221, 0, 1>>, <<8230, 0, 1>>, <<12289, 0, 1>>, <<161, 0, 1>>, <<167, 0, 1>>,
                <<8364, 0, 0>>, <<163, 0, 0>>, <<215, 0, 0>>, <<169, 0, 0>>, <<176, 0, 0>>,
                <<97, 0, 0>>, <<48, 0, 0>>, <<233, 0, 0>>, <<945, 0, 0>>, <<20013, 0, 0>>, <<65533, 0, 0>> >>

\* ---------------------------------------------------------------- helpers
\* body of a line = the line without its ending
EolLen(l) == IF Len(l) >= 2 /\ l[Len(l)-1] = CR /\ l[Len(l)] = LF THEN 2
             ELSE IF Len(l) >= 1 /\ IsEOL(l[Len(l)]) THEN 1 ELSE 0
Body(l) == SubSeq(l, 1, Len(l) - EolLen(l))
InDomain(b) == b = <<>> \/ ~IsWS(b[1])
CountOf(b, c) == Cardinality({i \in 1..Len(b) : b[i] = c})
Max(S) == CHOOSE x \in S : \A y \in S : y <= x
Min(S) == CHOOSE x \in S : \A y \in S : x <= y
\* length of the maximal run of c at the start of b
LeadRun(b, c) == Max({k \in 0..Len(b) : \A j \in 1..k : b[j] = c})
\* b[1..RStrip(b)] has no trailing space/tab;  LStrip(b) = first index that is not space/tab
RStrip(b) == Min({k \in 0..Len(b) : \A j \in (k+1)..Len(b) : IsWS(b[j])})
LStrip(b) == Max({k \in 1..(Len(b)+1) : \A j \in 1..(k-1) : IsWS(b[j])})
Trim(b) == LET e == RStrip(b)  s == LStrip(b) IN IF s > e THEN <<>> ELSE SubSeq(b, s, e)

\* ---------------------------------------------------------------- 4.1 thematic break
\* three or more matching -, _ or * characters, each followed optionally by spaces or tabs
ThematicChar(b) == {c \in {45, 95, 42} : (\A i \in 1..Len(b) : b[i] = c \/ IsWS(b[i])) /\ CountOf(b, c) >= 3}
IsThematic(b) == ThematicChar(b) # {}
\* the recogniser reports the index just after the last marker character
ThematicEnd(b) == IF IsThematic(b) THEN Max({i \in 1..Len(b) : ~IsWS(b[i])}) ELSE -1

\* ---------------------------------------------------------------- 4.2 ATX heading
AtxLevel(b) == LET n == LeadRun(b, HASH) IN
               IF n >= 1 /\ n <= 6 /\ (Len(b) = n \/ IsWS(b[n+1])) THEN n ELSE 0
\* optional closing sequence: trailing run of # preceded by a space or tab; content is trimmed
AtxContent(b) ==
  LET n == AtxLevel(b)
      raw == SubSeq(b, n+1, Len(b))
      e0 == RStrip(raw)
      rs == Min({k \in 1..(e0+1) : \A j \in k..e0 : raw[j] = HASH})     \* start of the trailing # run, e0+1 if none
      hasClosing == rs <= e0 /\ rs >= 2 /\ IsWS(raw[rs-1])
      e1 == IF hasClosing THEN RStrip(SubSeq(raw, 1, rs-1)) ELSE e0
  IN Trim(SubSeq(raw, 1, e1))

\* ---------------------------------------------------------------- 4.3 setext heading underline
SetextLevel(b) ==
  IF b = <<>> \/ b[1] \notin {61, 45} THEN 0
  ELSE LET k == LeadRun(b, b[1]) IN
       IF \A j \in (k+1)..Len(b) : IsWS(b[j]) THEN (IF b[1] = 61 THEN 1 ELSE 2) ELSE 0

\* ---------------------------------------------------------------- 4.5 code fence
FenceRec(b) ==
  IF b = <<>> \/ b[1] \notin {BT, TILDE} THEN [c |-> 0, n |-> 0, info |-> <<>>]
  ELSE LET c == b[1]
           n == LeadRun(b, c)
           info == Trim(SubSeq(b, n+1, Len(b)))
       IN IF n < 3 \/ (c = BT /\ \E i \in 1..Len(info) : info[i] = BT)
          THEN [c |-> 0, n |-> 0, info |-> <<>>]
          ELSE [c |-> c, n |-> n, info |-> info]

\* ---------------------------------------------------------------- 5.2 list marker (on the full line)
\* bullet: - + *   ordered: 1-9 digits then . or )   -- and then a space, tab, line ending or end of line
FollowOK(l, i) == i > Len(l) \/ l[i] \in SpaceTabEOL
RECURSIVE DigitsValue(_, _)
DigitsValue(l, k) == IF k = 0 THEN 0 ELSE DigitsValue(l, k-1) * 10 + (l[k] - 48)
MarkerRec(l) ==
  IF l = <<>> THEN [d |-> 0, n |-> 0, end |-> -1]
  ELSE IF l[1] \in {45, 43, 42} THEN
       IF FollowOK(l, 2) THEN [d |-> l[1], n |-> 0, end |-> 1] ELSE [d |-> 0, n |-> 0, end |-> -1]
  ELSE LET k == Max({j \in 0..Len(l) : \A i \in 1..j : l[i] \in Digits}) IN
       IF k >= 1 /\ k <= 9 /\ k < Len(l) /\ l[k+1] \in {46, 41} /\ FollowOK(l, k+2)
       THEN [d |-> l[k+1], n |-> DigitsValue(l, k), end |-> k+1]
       ELSE [d |-> 0, n |-> 0, end |-> -1]

\* ---------------------------------------------------------------- URI normalisation
\* keep RFC 3986 reserved/unreserved characters and well-formed %HH; percent-encode everything else
\* (UTF-8 bytes, upper-case hex); an undecodable byte is U+FFFD first.
SafeSet == Alnum \cup {59, 47, 63, 58, 64, 38, 61, 43, 36, 44, 45, 95, 46, 33, 126, 42, 39, 40, 41, 35}
HexChar(x) == IF x < 10 THEN 48 + x ELSE 55 + x
Pct(byte) == <<37, HexChar(byte \div 16), HexChar(byte % 16)>>
FFFD == Pct(239) \o Pct(191) \o Pct(189)
IsCont(x) == x >= 128 /\ x <= 191
\* width of the well-formed UTF-8 sequence starting at s[i] (Go's utf8 acceptance ranges), or 0 if s[i] is not the
\* start of one (such a byte decodes to U+FFFD on its own)
SeqWidth(s, i) ==
  LET c == s[i]
      B(k) == IF i + k <= Len(s) THEN s[i + k] ELSE -1
      In(x, lo, hi) == x >= lo /\ x <= hi
  IN IF c < 128 THEN 1
     ELSE IF In(c, 194, 223) /\ IsCont(B(1)) THEN 2
     ELSE IF c = 224 /\ In(B(1), 160, 191) /\ IsCont(B(2)) THEN 3
     ELSE IF (In(c, 225, 236) \/ In(c, 238, 239)) /\ IsCont(B(1)) /\ IsCont(B(2)) THEN 3
     ELSE IF c = 237 /\ In(B(1), 128, 159) /\ IsCont(B(2)) THEN 3
     ELSE IF c = 240 /\ In(B(1), 144, 191) /\ IsCont(B(2)) /\ IsCont(B(3)) THEN 4
     ELSE IF In(c, 241, 243) /\ IsCont(B(1)) /\ IsCont(B(2)) /\ IsCont(B(3)) THEN 4
     ELSE IF c = 244 /\ In(B(1), 128, 143) /\ IsCont(B(2)) /\ IsCont(B(3)) THEN 4
     ELSE 0
RECURSIVE PctAll(_)
PctAll(bs) == IF bs = <<>> THEN <<>> ELSE Pct(Head(bs)) \o PctAll(Tail(bs))
RECURSIVE NormURI(_, _)
NormURI(s, i) ==
  IF i > Len(s) THEN <<>>
  ELSE LET c == s[i] IN
    IF c = 37 THEN
       IF i + 2 <= Len(s) /\ s[i+1] \in HexDigits /\ s[i+2] \in HexDigits
       THEN <<37, s[i+1], s[i+2]>> \o NormURI(s, i+3)
       ELSE <<37, 50, 53>> \o NormURI(s, i+1)
    ELSE IF c \in SafeSet THEN <<c>> \o NormURI(s, i+1)
    ELSE LET w == SeqWidth(s, i) IN
         IF w = 0 THEN FFFD \o NormURI(s, i+1)
         ELSE PctAll(SubSeq(s, i, i + w - 1)) \o NormURI(s, i + w)
Normalize(s) == NormURI(s, 1)
\* output language: safe characters and well-formed escapes only
RECURSIVE WellFormedURI(_, _)
WellFormedURI(s, i) ==
  IF i > Len(s) THEN TRUE
  ELSE IF s[i] = 37 THEN i + 2 <= Len(s) /\ s[i+1] \in HexDigits /\ s[i+2] \in HexDigits /\ WellFormedURI(s, i+3)
  ELSE s[i] \in SafeSet /\ WellFormedURI(s, i+1)

\* ---------------------------------------------------------------- e-mail address (spec's regular expression)
LocalChars == Alnum \cup {46, 33, 35, 36, 37, 38, 39, 42, 43, 47, 61, 63, 94, 95, 96, 123, 124, 125, 126, 45}
\* label = [a-zA-Z0-9](?:[a-zA-Z0-9-]{0,61}[a-zA-Z0-9])?
IsLabel(s, a, b) == /\ b >= a /\ b - a + 1 <= 63
                    /\ s[a] \in Alnum /\ s[b] \in Alnum
                    /\ \A i \in a..b : s[i] \in Alnum \cup {45}
\* domain = label(.label)*  over s[a..b]
IsDomain(s, a, b) == /\ b >= a
                     /\ LET dots == {i \in a..b : s[i] = 46}
                            starts == {a} \cup {i + 1 : i \in dots}
                        IN \A st \in starts :
                             LET en == Min({i - 1 : i \in {d \in dots : d >= st}} \cup {b}) IN IsLabel(s, st, en)
IsEmail(s) == \E at \in 2..(Len(s)-1) :
                 /\ s[at] = 64
                 /\ \A i \in 1..(at-1) : s[i] \in LocalChars
                 /\ IsDomain(s, at+1, Len(s))

\* ---------------------------------------------------------------- autolink  <scheme:...>  or  <email>
\* returns the length of the autolink at the start of text t, or -1
SchemeChars == Alnum \cup {43, 46, 45}
AutolinkEnd(t) ==
  IF t = <<>> \/ t[1] # 60 THEN -1
  ELSE LET closes == {i \in 2..Len(t) : t[i] = 62} IN
       IF closes = {} THEN -1
       ELSE LET gt == Min(closes)
                inner == SubSeq(t, 2, gt-1)
                colon == {i \in 1..Len(inner) : inner[i] = 58}
                isURI == /\ colon # {}
                         /\ LET k == Min(colon) - 1 IN        \* scheme length
                              /\ k >= 2 /\ k <= 32
                              /\ inner[1] \in Letters
                              /\ \A i \in 1..k : inner[i] \in SchemeChars
                         /\ \A i \in 1..Len(inner) : inner[i] \notin AsciiControl \cup {SP, 60}
            IN IF isURI \/ IsEmail(inner) THEN gt ELSE -1

=============================================================================
