---------------------------- MODULE Bytes ----------------------------
(* Shared byte-level vocabulary: bytes are integers 0..255, byte strings are sequences.
   Line endings (LF, CR, CRLF each count once), blank-ness, NUL padding / replacement (parse.go
   padNulls, unpaddedNullLength, fillNulls), UTF-8 character boundaries. No variables. *)
EXTENDS Integers, Sequences, FiniteSets

LF == 10  CR == 13  SP == 32  NUL == 0  HASH == 35  TICK == 96

IsBlankByte(b) == b \in {SP, 9, LF, CR}
IsBlank(s) == \A k \in 1..Len(s) : IsBlankByte(s[k])

\* ---------- NUL padding (parse.go padNulls / unpaddedNullLength / fillNulls) ----------
RECURSIVE Pad(_)
Pad(s) == IF s = <<>> THEN <<>> ELSE (IF Head(s) = NUL THEN <<NUL, NUL, NUL>> ELSE <<Head(s)>>) \o Pad(Tail(s))
NulCount(s) == Cardinality({k \in 1..Len(s) : s[k] = NUL})
Unpadded(s) == Len(s) - (NulCount(s) \div 3) * 2
Fill(s) == [k \in 1..Len(s) |-> IF s[k] = NUL THEN (CASE (Cardinality({j \in 1..k : s[j] = NUL /\ \A m \in j..k : s[m] = NUL}) % 3) = 1 -> 239
                                                     [] (Cardinality({j \in 1..k : s[j] = NUL /\ \A m \in j..k : s[m] = NUL}) % 3) = 2 -> 191
                                                     [] OTHER -> 189) ELSE s[k]]
LineCount(s) == Cardinality({k \in 1..Len(s) : s[k] = LF \/ (s[k] = CR /\ (k = Len(s) \/ s[k+1] # LF))})

Sub(s, a, b) == SubSeq(s, a+1, b)   \* 0-based half-open [a,b)


\* index (1-based) just after the first line of x (line = up to and including LF, CR or CRLF)
RECURSIVE FirstLineEnd(_, _)
FirstLineEnd(x, i) == IF i > Len(x) THEN Len(x)
                      ELSE IF x[i] = LF THEN i
                      ELSE IF x[i] = CR THEN (IF i < Len(x) /\ x[i+1] = LF THEN i + 1 ELSE i)
                      ELSE FirstLineEnd(x, i + 1)
\* the lines of x, each with its line ending (LF, CR and CRLF are one ending each)
RECURSIVE SplitLines(_)
SplitLines(x) == IF x = <<>> THEN <<>>
                 ELSE LET e == FirstLineEnd(x, 1) IN <<SubSeq(x, 1, e)>> \o SplitLines(SubSeq(x, e + 1, Len(x)))
RECURSIVE Concat(_)
Concat(ls) == IF ls = <<>> THEN <<>> ELSE Head(ls) \o Concat(Tail(ls))
LineBody(l) == IF Len(l) >= 2 /\ l[Len(l)-1] = CR /\ l[Len(l)] = LF THEN SubSeq(l, 1, Len(l) - 2)
               ELSE IF Len(l) >= 1 /\ l[Len(l)] \in {LF, CR} THEN SubSeq(l, 1, Len(l) - 1) ELSE l

\* the bytes a caller sees for input bytes x: every NUL replaced by U+FFFD (EF BF BD)
ReplaceNUL(x) == Fill(Pad(x))
\* number of line endings in x, LF / CR / CRLF counting once each (same as LineCount; spec-side name)
LineEndings(x) == LineCount(x)
\* UTF-8: continuation bytes are 10xxxxxx
IsContinuation(b) == b >= 128 /\ b <= 191
\* x is well-formed UTF-8 (no overlong/surrogate checks: structural validity is what span boundaries need)
RECURSIVE ValidUTF8From(_, _)
ValidUTF8From(x, i) ==
  IF i > Len(x) THEN TRUE
  ELSE LET b == x[i]
           need == IF b < 128 THEN 0 ELSE IF b >= 194 /\ b <= 223 THEN 1 ELSE IF b >= 224 /\ b <= 239 THEN 2
                   ELSE IF b >= 240 /\ b <= 244 THEN 3 ELSE -1
       IN need >= 0 /\ i + need <= Len(x) /\ (\A j \in (i+1)..(i+need) : IsContinuation(x[j])) /\ ValidUTF8From(x, i + need + 1)
ValidUTF8(x) == ValidUTF8From(x, 1)
\* 0-based offset o is a character boundary of x
CharBoundary(x, o) == o = Len(x) \/ o = 0 \/ ~IsContinuation(x[o+1])
=============================================================================
