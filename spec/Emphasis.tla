---------------------------- MODULE Emphasis ----------------------------
(* CommonMark 0.30, section 6.2 "Emphasis and strong emphasis" and the appendix
   "An algorithm for parsing nested emphasis and links", procedure *process emphasis*.

   The text is a sequence of SYMBOLS (strings), one per character:
     "*" "_"           delimiter characters
     "a"               an ASCII letter
     " "               a space
     "."               an ASCII punctuation character
     "NBSP"            U+00A0, Unicode whitespace (Zs), 2 bytes in UTF-8
     "LAQUO"           U+00AB, Unicode punctuation (Pi), 2 bytes
     "EACUTE"          U+00E9, a letter, 2 bytes
     "FF" "TAB"        U+000C, U+0009: ASCII characters that are Unicode whitespace without being a space
     "EMSP"            U+2003 (Zs), 3 bytes;  "EMDASH" U+2014 (Pd), 3 bytes;  "EURO" U+20AC (Sc: a symbol, not punctuation), 3 bytes
   Positions are 1-based character indices; the harness maps them to byte offsets.

   Proc        = the procedure WITHOUT the openers_bottom search bound (reference semantics, C11)
   ProcBounded = the procedure WITH openers_bottom keyed as the spec text says
                 (delimiter character, closer length mod 3, closer can-open), the bound being a
                 stack ELEMENT (identified by id), not an index.
   Invariant BoundSound: ProcBounded = Proc on every generated string.
*)
EXTENDS Integers, Sequences, FiniteSets, TLC, Json

CONSTANTS Alphabet, MaxLen

\* Unicode whitespace (section 2.1): Zs, tab, line feed, form feed, carriage return. Unicode punctuation: ASCII punctuation or
\* the general categories Pc Pd Pe Pf Pi Po Ps - a currency sign (Sc) is NOT punctuation in 0.30.
Class(c) == CASE c \in {" ", "NBSP", "FF", "TAB", "EMSP"} -> "ws"
              [] c \in {"*", "_", ".", "LAQUO", "EMDASH"} -> "punct"
              [] OTHER -> "other"
IsDelim(c) == c \in {"*", "_"}

\* beginning and end of the text count as whitespace
ClassAt(s, i) == IF i < 1 \/ i > Len(s) THEN "ws" ELSE Class(s[i])

RECURSIVE RunEnd(_, _)
RunEnd(s, i) == IF i + 1 <= Len(s) /\ s[i+1] = s[i] THEN RunEnd(s, i+1) ELSE i + 1

\* delimiter run occupying characters [i, j)
MkDelim(s, i, j) ==
  LET before == ClassAt(s, i-1)
      after  == ClassAt(s, j)
      lf == after # "ws" /\ (after # "punct" \/ before # "other")      \* left-flanking
      rf == before # "ws" /\ (before # "punct" \/ after # "other")     \* right-flanking
      ch == s[i]
      canOpen  == IF ch = "*" THEN lf ELSE lf /\ (~rf \/ before = "punct")
      canClose == IF ch = "*" THEN rf ELSE rf /\ (~lf \/ after = "punct")
  IN [ch |-> ch, lo |-> i, hi |-> j, n |-> j - i, open |-> canOpen, close |-> canClose, id |-> i]

RECURSIVE Delims(_, _)
Delims(s, i) == IF i > Len(s) THEN <<>>
                ELSE IF IsDelim(s[i]) THEN LET j == RunEnd(s, i) IN <<MkDelim(s, i, j)>> \o Delims(s, j)
                ELSE Delims(s, i+1)

\* rules 9 and 10 use the ORIGINAL run lengths n
Match(o, c) == /\ o.ch = c.ch /\ o.open /\ c.close
               /\ \/ ~o.close /\ ~c.open
                  \/ (o.n + c.n) % 3 # 0
                  \/ o.n % 3 = 0 /\ c.n % 3 = 0

RemoveRange(q, a, b) == SubSeq(q, 1, a-1) \o SubSeq(q, b+1, Len(q))

RECURSIVE FirstCloser(_, _)
FirstCloser(dl, cur) == IF cur > Len(dl) THEN 0 ELSE IF dl[cur].close THEN cur ELSE FirstCloser(dl, cur+1)

\* nearest matching opener below c, not going below index `bottom` and stopping at (excluding)
\* the element whose id is `stopId` (0 = none)
RECURSIVE FindOpener(_, _, _, _, _)
FindOpener(dl, j, c, bottom, stopId) ==
  IF j < bottom THEN 0
  ELSE IF dl[j].id = stopId THEN 0
  ELSE IF Match(dl[j], dl[c]) THEN j
  ELSE FindOpener(dl, j-1, c, bottom, stopId)

\* result of matching opener j with closer c: <<node, new stack, new current position>>
Pair(dl, j, c) ==
  LET k == IF dl[j].hi - dl[j].lo >= 2 /\ dl[c].hi - dl[c].lo >= 2 THEN 2 ELSE 1
      node == <<k, dl[j].hi - k, dl[c].lo + k>>
      o2 == [dl[j] EXCEPT !.hi = @ - k]
      c2 == [dl[c] EXCEPT !.lo = @ + k]
      pre == SubSeq(dl, 1, j-1)
      post == SubSeq(dl, c+1, Len(dl))
      oSeq == IF o2.hi = o2.lo THEN <<>> ELSE <<o2>>
      cSeq == IF c2.hi = c2.lo THEN <<>> ELSE <<c2>>
  IN <<node, pre \o oSeq \o cSeq \o post, Len(pre) + Len(oSeq) + 1>>

RECURSIVE Proc(_, _, _)
Proc(dl, cur, out) ==
  LET c == FirstCloser(dl, cur) IN
  IF c = 0 THEN out ELSE
  LET j == FindOpener(dl, c-1, c, 1, 0) IN
  IF j = 0 THEN
     IF dl[c].open THEN Proc(dl, c+1, out) ELSE Proc(RemoveRange(dl, c, c), c, out)
  ELSE LET p == Pair(dl, j, c) IN Proc(p[2], p[3], out \cup {p[1]})

\* openers_bottom key, as in the spec text
Key(d) == <<d.ch, d.n % 3, d.open>>
Keys == {<<ch, m, o>> : ch \in {"*", "_"}, m \in 0..2, o \in BOOLEAN}

RECURSIVE ProcB(_, _, _, _)
ProcB(dl, cur, ob, out) ==
  LET c == FirstCloser(dl, cur) IN
  IF c = 0 THEN out ELSE
  LET j == FindOpener(dl, c-1, c, 1, ob[Key(dl[c])]) IN
  IF j = 0 THEN
     LET ob2 == [ob EXCEPT ![Key(dl[c])] = IF c > 1 THEN dl[c-1].id ELSE @] IN
     IF dl[c].open THEN ProcB(dl, c+1, ob2, out) ELSE ProcB(RemoveRange(dl, c, c), c, ob2, out)
  ELSE LET p == Pair(dl, j, c) IN ProcB(p[2], p[3], ob, out \cup {p[1]})

Emph(s)  == Proc(Delims(s, 1), 1, {})
EmphB(s) == ProcB(Delims(s, 1), 1, [k \in Keys |-> 0], {})

\* any two results are nested or disjoint
Laminar(S) == \A a, b \in S : a = b \/ a[3] <= b[2] \/ b[3] <= a[2]
                              \/ (a[2] <= b[2] /\ b[3] <= a[3]) \/ (b[2] <= a[2] /\ a[3] <= b[3])
\* every result is delimited by the same delimiter character on both sides
Delimited(s, S) == \A a \in S : /\ IsDelim(s[a[2]]) /\ s[a[2]] = s[a[3]-1]
                                /\ a[1] = 2 => (s[a[2]+1] = s[a[2]] /\ s[a[3]-2] = s[a[2]])
                                /\ a[3] - a[2] >= 2 * a[1] + 1

(* Contexts in which the string is embedded as a paragraph:
   1: a s a      2: s alone (only when the line is plain paragraph text)      3: . s .        *)
Ctx(s, k) == CASE k = 1 -> <<"a">> \o s \o <<"a">>
               [] k = 2 -> s
               [] k = 3 -> <<".">> \o s \o <<".">>

\* the line `s` is paragraph text whose inline content is exactly s:
\* no leading/trailing space (stripped by the block phase), not a thematic break, not a bullet item
OnlyOf(s, set) == \A i \in 1..Len(s) : s[i] \in set
Count(s, c) == Cardinality({i \in 1..Len(s) : s[i] = c})
PlainLine(s) == /\ Len(s) > 0
                /\ s[1] \notin {" ", "NBSP", "TAB", "FF", "EMSP"} /\ s[Len(s)] \notin {" ", "TAB"}
                /\ ~(OnlyOf(s, {"*", " ", "TAB"}) /\ Count(s, "*") >= 3)
                /\ ~(OnlyOf(s, {"_", " ", "TAB"}) /\ Count(s, "_") >= 3)
                /\ ~(s[1] = "*" /\ (Len(s) = 1 \/ s[2] \in {" ", "TAB"}))

VARIABLES s, res
vars == <<s, res>>
Results(t) == [k \in 1..3 |-> IF k # 2 \/ PlainLine(t) THEN Emph(Ctx(t, k)) ELSE {}]
Init == s = <<>> /\ res = [k \in 1..3 |-> {}]
Next == /\ Len(s) < MaxLen
        /\ \E c \in Alphabet : s' = Append(s, c)
        /\ res' = Results(s')
Spec == Init /\ [][Next]_vars

BoundSound == \A k \in 1..3 : (k # 2 \/ PlainLine(s)) => EmphB(Ctx(s, k)) = res[k]
WellFormed == \A k \in 1..3 : Laminar(res[k]) /\ Delimited(Ctx(s, k), res[k])

Emit == PrintT(ToJson([s |-> s, p |-> PlainLine(s), r |-> res]))

(* Long paragraphs: hundreds of delimiter runs in one paragraph (the delimiter stack is only processed at the end of the paragraph
   or at a link, so every run scanned so far is on it). The generator builds a short unit u over the alphabet; the strings are
   frame(u repeated k times) for k in Reps and three frames: bare; inside an outer emphasis "*a " ... " a*"; followed by
   "**a** _a_" (constructs that must still be recognised after everything before them). *)
CONSTANTS Reps
RECURSIVE RepSeq(_, _)
RepSeq(u, k) == IF k = 0 THEN <<>> ELSE u \o RepSeq(u, k - 1)
Frame(f, u, k) == CASE f = 1 -> RepSeq(u, k)
                    [] f = 2 -> <<"*", "a", " ">> \o RepSeq(u, k) \o <<" ", "a", "*">>
                    [] f = 3 -> RepSeq(u, k) \o <<" ", "*", "*", "a", "*", "*", " ", "_", "a", "_">>
LongNext == /\ Len(s) < MaxLen
            /\ \E c \in Alphabet : s' = Append(s, c)
            /\ UNCHANGED res
HasDelim(u) == \E i \in 1..Len(u) : IsDelim(u[i])
LongEmit == (s # <<>> /\ HasDelim(s)) =>
              \A k \in Reps, f \in 1..3 :
                 LET t == Frame(f, s, k) IN PrintT(ToJson([s |-> t, p |-> PlainLine(t), r |-> Results(t)]))
LongBoundSound == (s # <<>> /\ HasDelim(s)) => \A k \in Reps : EmphB(Ctx(Frame(2, s, k), 1)) = Emph(Ctx(Frame(2, s, k), 1))
=============================================================================
