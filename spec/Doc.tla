---------------------------- MODULE Doc ----------------------------
(* Abstract CommonMark documents, their canonical serialization under explicit choice points, and the HTML
   they denote (C06; input source for C20).

   A block node is <<kind, attr, kids>>:
     <<"para", i, _>>  <<"atx", <<level, i>>, _>>  <<"setext", <<level, i>>, _>>  <<"hr", _, _>>
     <<"fence", <<info, c>>, _>>  <<"icode", c, _>>  <<"html", h, _>>
     <<"quote", _, kids>>  <<"ul", tight, items>>  <<"ol", tight, items>>  <<"li", _, kids>>
   i indexes the inline library Inl (text, escapes, entities, emphasis, code spans, inline / reference links,
   images, autolinks, raw tags, hard and soft breaks, multi-line links / code spans / tags), c the code-content
   library, h the HTML-block library. A reference definition "[r]: /ru "rt"" is appended when a reference
   snippet is used.

   Serialize(doc, ch) produces lines under the choice vector ch (bullet character, ordered delimiter and start,
   list padding 1-4, fence character and length, leading spaces 0-3, indentation of quote and list markers,
   lazy paragraph continuation, ATX closing sequence, setext underline length, thematic break spelling, tab for
   indented code, blank lines between root blocks, LF / CRLF / CR, final newline). Denote(doc, eol) is the
   CommonMark 0.30 HTML mapping in the renderer's dialect, one string per root block. The serializer only emits
   spellings whose meaning is fixed by the spec text: the libraries are chosen so that no paragraph line can be
   read as a block start, fences are longer than any run inside, and the generator forbids the compositions
   whose meaning depends on more than the rule being exercised (see CanAddLeaf / CanClose).

   The generator machine (AddLeaf, Open, OpenItem, Close) builds every document up to MaxNodes / MaxDepth over
   the configured leaf set; Emit prints md and expected HTML for complete documents.
*)
EXTENDS Integers, Sequences, FiniteSets, TLC, Json

CONSTANTS MaxNodes, MaxDepth, LeafSet, ChoiceSet

\* ------------------------------------------------------------------ libraries
\* inline snippets: lines of markdown (continuation lines may be written lazily), html as a function of the EOL, uses reference r
Sn(lines, html, ref) == [lines |-> lines, html |-> html, ref |-> ref]
Inl(i, e) ==
  CASE i = 1 -> Sn(<<"a">>, "a", FALSE)
    [] i = 2 -> Sn(<<"a", "b">>, "a" \o e \o "b", FALSE)                                     \* soft break
    [] i = 3 -> Sn(<<"*e* and **s**">>, "<em>e</em> and <strong>s</strong>", FALSE)
    [] i = 4 -> Sn(<<"_e_ __s__ *a **b** c*">>, "<em>e</em> <strong>s</strong> <em>a <strong>b</strong> c</em>", FALSE)
    [] i = 5 -> Sn(<<"`c d` `` ` ``">>, "<code>c d</code> <code>`</code>", FALSE)
    [] i = 6 -> Sn(<<"[t](/u) [t](/u \"ti\")">>, "<a href=\"/u\">t</a> <a href=\"/u\" title=\"ti\">t</a>", FALSE)
    [] i = 7 -> Sn(<<"[t](</u v>) ![i](/s)">>, "<a href=\"/u%20v\">t</a> <img src=\"/s\" alt=\"i\">", FALSE)
    [] i = 8 -> Sn(<<"<http://x.y/z> <m@x.y>">>, "<a href=\"http://x.y/z\">http://x.y/z</a> <a href=\"mailto:m@x.y\">m@x.y</a>", FALSE)
    [] i = 9 -> Sn(<<"x <b>r</b> y">>, "x <b>r</b> y", FALSE)
    [] i = 10 -> Sn(<<"a\\", "b">>, "a<br>\nb", FALSE)                                         \* backslash hard break
    [] i = 11 -> Sn(<<"a  ", "b">>, "a<br>\nb", FALSE)                                          \* two-space hard break
    [] i = 12 -> Sn(<<"\\*\\_\\#\\[\\]\\<\\>\\&\\\\\\`\\!\\-\\+\\.\\(\\)\\\"\\'">>, "*_#[]&lt;&gt;&amp;\\`!-+.()&quot;&#39;", FALSE)
    [] i = 13 -> Sn(<<"&amp; &copy; &#65; &#x42; &ampx;">>, "&amp; &copy; &#65; &#x42; &amp;ampx;", FALSE)
    [] i = 14 -> Sn(<<"[t][r] [r][] [r]">>, "<a href=\"/ru\" title=\"rt\">t</a> <a href=\"/ru\" title=\"rt\">r</a> <a href=\"/ru\" title=\"rt\">r</a>", TRUE)
    [] i = 15 -> Sn(<<"[t", "u](/u", "\"ti", "tle\") z">>, "<a href=\"/u\" title=\"ti" \o e \o "tle\">t" \o e \o "u</a> z", FALSE)
    [] i = 16 -> Sn(<<"`c", "d` z">>, "<code>c d</code> z", FALSE)
    [] i = 17 -> Sn(<<"x <b", "y=\"1\"> z">>, "x <b" \o e \o "y=\"1\"> z", FALSE)
    [] i = 18 -> Sn(<<"a < b > c & d \" e ' f">>, "a &lt; b &gt; c &amp; d &quot; e &#39; f", FALSE)
    [] i = 19 -> Sn(<<"![i *e*](/s \"ti\") ![r]">>, "<img src=\"/s\" title=\"ti\" alt=\"i e\"> <img src=\"/ru\" title=\"rt\" alt=\"r\">", TRUE)
    [] i = 20 -> Sn(<<"[r", "][r]">>, "<a href=\"/ru\" title=\"rt\">r" \o e \o "</a>", TRUE)
    \* text that would start a block if its first character were not escaped, first on the paragraph's first line (directly behind a
    \* container marker when the paragraph opens an item or a quote) and first on a continuation line
    [] i = 21 -> Sn(<<"\\- a">>, "- a", FALSE)
    [] i = 22 -> Sn(<<"\\> a">>, "&gt; a", FALSE)
    [] i = 23 -> Sn(<<"\\~~~ a">>, "~~~ a", FALSE)
    [] i = 24 -> Sn(<<"\\# a">>, "# a", FALSE)
    [] i = 25 -> Sn(<<"a", "\\===">>, "a" \o e \o "===", FALSE)
    [] i = 26 -> Sn(<<"a", "\\- b">>, "a" \o e \o "- b", FALSE)
    \* an escaped backslash before an escaped punctuation character, and an escaped ampersand before an entity name, in a destination and a title
    [] i = 27 -> Sn(<<"[t](/a\\\\\\*b \"c\\\\\\*d \\&amp;\")">>, "<a href=\"/a%5C*b\" title=\"c\\*d &amp;amp;\">t</a>", FALSE)
    \* shortcut and collapsed references whose label (= text) is broken across lines
    [] i = 28 -> Sn(<<"[r", "s] [r", "s][]">>, "<a href=\"/rs\" title=\"st\">r" \o e \o "s</a> <a href=\"/rs\" title=\"st\">r" \o e \o "s</a>", TRUE)
NInl == 28
SingleLine(i) == Len(Inl(i, "\n").lines) = 1
\* code content: lines, and their escaped html (each line followed by the EOL)
Code(c) == CASE c = 1 -> [lines |-> <<"x">>, html |-> <<"x">>]
             [] c = 2 -> [lines |-> <<"*not em* <b> &amp;", "", "  y">>, html |-> <<"*not em* &lt;b&gt; &amp;amp;", "", "  y">>]
             [] c = 3 -> [lines |-> <<"``` ~~~ [l]: /u", "# h">>, html |-> <<"``` ~~~ [l]: /u", "# h">>]
             [] c = 4 -> [lines |-> <<" x", " x", " x", " ```">>, html |-> <<" x", " x", " x", " ```">>]      \* a fence-like line behind indented lines
             \* a line of spaces only is content, not a blank line (outside list items, where the parser reads such a line as empty)
             [] c = 5 -> [lines |-> <<"x", "  ", "y">>, html |-> <<"x", "  ", "y">>]
NCode == 5
Html(h) == CASE h = 1 -> <<"<div>", "raw *x*", "</div>">>
             [] h = 2 -> <<"<!-- c", "", "*y* -->">>
             [] h = 3 -> <<"<pre>", "", "    z", "</pre>">>

\* ------------------------------------------------------------------ choice vectors
Default == [bullet |-> "-", odelim |-> ".", ostart |-> 1, pad |-> 1, fch |-> "`", flen |-> 4, lead |-> 0, qlead |-> 0, llead |-> 0,
            lazy |-> FALSE, atxclose |-> FALSE, setextlen |-> 3, hr |-> "***", tab |-> FALSE, blank2 |-> FALSE, eol |-> "\n", final |-> TRUE]
Choices ==
  CASE ChoiceSet = "default" -> {Default}
    [] ChoiceSet = "single" ->
         {Default,
          [Default EXCEPT !.bullet = "*"], [Default EXCEPT !.bullet = "+"], [Default EXCEPT !.odelim = ")"], [Default EXCEPT !.ostart = 7], [Default EXCEPT !.ostart = 123456789], [Default EXCEPT !.ostart = 99999998],
          [Default EXCEPT !.pad = 2], [Default EXCEPT !.pad = 3], [Default EXCEPT !.pad = 4],
          [Default EXCEPT !.fch = "~"], [Default EXCEPT !.flen = 5], [Default EXCEPT !.lead = 1], [Default EXCEPT !.lead = 3],
          [Default EXCEPT !.qlead = 3], [Default EXCEPT !.llead = 2], [Default EXCEPT !.lazy = TRUE], [Default EXCEPT !.atxclose = TRUE],
          [Default EXCEPT !.setextlen = 1], [Default EXCEPT !.hr = "---"], [Default EXCEPT !.hr = "_ _ _"], [Default EXCEPT !.tab = TRUE],
          [Default EXCEPT !.blank2 = TRUE], [Default EXCEPT !.eol = "\r\n"], [Default EXCEPT !.eol = "\r"], [Default EXCEPT !.final = FALSE]}
    [] ChoiceSet = "pairs" ->
         {[Default EXCEPT !.bullet = b, !.pad = p, !.llead = l, !.lazy = z, !.eol = e] :
             b \in {"-", "*"}, p \in {1, 3}, l \in {0, 3}, z \in BOOLEAN, e \in {"\n", "\r\n"}}
         \cup {[Default EXCEPT !.fch = f, !.flen = n, !.lead = l, !.qlead = q, !.odelim = d, !.ostart = s] :
             f \in {"`", "~"}, n \in {4, 6}, l \in {0, 2}, q \in {0, 2}, d \in {".", ")"}, s \in {1, 12}}

\* ------------------------------------------------------------------ serialization
Ln(s, lz) == [s |-> s, lz |-> lz]
Blank == Ln("", FALSE)
RECURSIVE Spaces(_)
Spaces(n) == IF n = 0 THEN "" ELSE " " \o Spaces(n - 1)
RECURSIVE Rep(_, _)
Rep(s, n) == IF n = 0 THEN "" ELSE s \o Rep(s, n - 1)
\* prefix every line of a container's content; blank lines get the trimmed prefix, lazy paragraph lines none
PrefixLines(first, cont, blankp, lines, lazy) ==
  [k \in 1..Len(lines) |->
     IF lines[k].s = "" THEN Ln(blankp, FALSE)
     ELSE IF k = 1 THEN Ln(first \o lines[k].s, FALSE)
     ELSE IF lazy /\ lines[k].lz THEN lines[k]
     ELSE Ln(cont \o lines[k].s, lines[k].lz)]
ParaLines(ls) == [k \in 1..Len(ls) |-> Ln(ls[k], k > 1)]
Plain(ls) == [k \in 1..Len(ls) |-> Ln(ls[k], FALSE)]
Digit(d) == CASE d = 0 -> "0" [] d = 1 -> "1" [] d = 2 -> "2" [] d = 3 -> "3" [] d = 4 -> "4" [] d = 5 -> "5" [] d = 6 -> "6" [] d = 7 -> "7" [] d = 8 -> "8" [] d = 9 -> "9"
RECURSIVE Digits(_)
Digits(n) == IF n < 10 THEN Digit(n) ELSE Digits(n \div 10) \o Digit(n % 10)

\* a block that follows a list must not be indented: leading spaces would make it part of the last item
AfterList(kids, i, ch) == IF i > 1 /\ kids[i-1][1] \in {"ul", "ol"} THEN [ch EXCEPT !.lead = 0] ELSE ch
RECURSIVE Ser(_, _, _, _), SerSeq(_, _, _, _, _, _), SerItems(_, _, _, _, _, _)
\* inList: the block stands inside a list item (thematic breaks must then not look like list markers)
Ser(nd, ch0, inList, inQ) ==
  LET k == nd[1]
      ch == [ch0 EXCEPT !.lead = IF inList THEN 0 ELSE @]       \* leading spaces would change an item's content indent
  IN
  CASE k = "para" -> LET ls == ParaLines(Inl(nd[2], "\n").lines) IN [ls EXCEPT ![1].s = Spaces(ch.lead) \o @]
    [] k = "atx" -> <<Ln(Spaces(ch.lead) \o Rep("#", nd[2][1]) \o " " \o Inl(nd[2][2], "\n").lines[1] \o (IF ch.atxclose THEN " ##" ELSE ""), FALSE)>>
    [] k = "setext" -> Plain(Inl(nd[2][2], "\n").lines) \o <<Ln(Spaces(ch.lead) \o Rep(IF nd[2][1] = 1 THEN "=" ELSE "-", ch.setextlen), FALSE)>>
    [] k = "hr" -> <<Ln(Spaces(ch.lead) \o (IF inList THEN "___" ELSE ch.hr), FALSE)>>
    [] k = "fence" -> LET f == Spaces(ch.lead) \o Rep(ch.fch, ch.flen) IN
                      <<Ln(f \o (IF nd[2][1] THEN " lang extra" ELSE ""), FALSE)>>
                      \o [j \in 1..Len(Code(nd[2][2]).lines) |-> Ln((IF Code(nd[2][2]).lines[j] = "" THEN "" ELSE Spaces(ch.lead)) \o Code(nd[2][2]).lines[j], FALSE)]
                      \o <<Ln(f, FALSE)>>
    [] k = "icode" -> [j \in 1..Len(Code(nd[2]).lines) |->
                         Ln(IF Code(nd[2]).lines[j] = "" THEN "" ELSE (IF ch.tab /\ ~inList /\ ~inQ THEN "\t" ELSE "    ") \o Code(nd[2]).lines[j], FALSE)]
    [] k = "html" -> Plain(Html(nd[2]))
    [] k = "quote" -> PrefixLines(Spaces(ch.qlead) \o "> ", Spaces(ch.qlead) \o "> ", Spaces(ch.qlead) \o ">", SerSeq(nd[3], ch, FALSE, inList, TRUE, 1), ch.lazy)
    [] k = "equote" -> <<Ln(Spaces(ch.qlead) \o ">", FALSE)>>          \* a block quote without content: its marker alone
    [] k = "ul" -> SerItems(nd[3], ch, ~nd[2], FALSE, inQ, 1)
    [] k = "ol" -> SerItems(nd[3], ch, ~nd[2], TRUE, inQ, 1)
    [] k = "li" -> <<>>
SerSeq(kids, ch, tight, inList, inQ, i) ==
  IF i > Len(kids) THEN <<>>
  ELSE (IF i > 1 /\ ~tight THEN <<Blank>> ELSE <<>>) \o Ser(kids[i], AfterList(kids, i, ch), inList, inQ) \o SerSeq(kids, ch, tight, inList, inQ, i + 1)
SerItems(items, ch, loose, ordered, inQ, i) ==
  IF i > Len(items) THEN <<>>
  ELSE LET marker == IF ordered THEN Digits(ch.ostart + i - 1) \o ch.odelim ELSE ch.bullet
           w == (IF ordered THEN Len(Digits(ch.ostart + i - 1)) + 1 ELSE 1) + ch.pad
           body == SerSeq(items[i][3], ch, ~loose, TRUE, inQ, 1)
       IN (IF i > 1 /\ loose THEN <<Blank>> ELSE <<>>)
          \o PrefixLines(Spaces(ch.llead) \o marker \o Spaces(ch.pad), Spaces(ch.llead + w), "", body, ch.lazy)
          \o SerItems(items, ch, loose, ordered, inQ, i + 1)

RECURSIVE UsesRef(_)
UsesRef(kids) == \E j \in 1..Len(kids) :
     \/ (kids[j][1] = "para" /\ Inl(kids[j][2], "\n").ref)
     \/ (kids[j][1] \in {"atx", "setext"} /\ Inl(kids[j][2][2], "\n").ref)
     \/ (kids[j][1] \in {"quote", "ul", "ol", "li"} /\ UsesRef(kids[j][3]))
RootLines(roots, ch) ==
  LET RECURSIVE R(_)
      R(i) == IF i > Len(roots) THEN <<>>
              ELSE (IF i > 1 THEN (IF ch.blank2 THEN <<Blank, Blank>> ELSE <<Blank>>) ELSE <<>>) \o Ser(roots[i], AfterList(roots, i, ch), FALSE, FALSE) \o R(i + 1)
  IN R(1) \o (IF UsesRef(roots) THEN <<Blank, Ln("[r]: /ru \"rt\"", FALSE), Ln("[r s]: /rs \"st\"", FALSE)>> ELSE <<>>)
RECURSIVE JoinLines(_, _, _, _)
JoinLines(ls, e, final, i) == IF i > Len(ls) THEN ""
                              ELSE ls[i].s \o (IF i < Len(ls) \/ final THEN e ELSE "") \o JoinLines(ls, e, final, i + 1)
Markdown(roots, ch) == JoinLines(RootLines(roots, ch), ch.eol, ch.final, 1)

\* ------------------------------------------------------------------ denotation (renderer's dialect, one string per root block)
RECURSIVE Den(_, _, _), DenSeq(_, _, _), CodeHtml(_, _, _)
CodeHtml(ls, e, i) == IF i > Len(ls) THEN "" ELSE ls[i] \o e \o CodeHtml(ls, e, i + 1)
HTag(l, close) == (IF close THEN "</h" ELSE "<h") \o (CASE l = 1 -> "1" [] l = 2 -> "2" [] l = 3 -> "3" [] l = 4 -> "4" [] l = 5 -> "5" [] l = 6 -> "6") \o ">"
RECURSIVE HtmlBlock(_, _, _)
HtmlBlock(ls, e, i) == IF i > Len(ls) THEN "" ELSE ls[i] \o e \o HtmlBlock(ls, e, i + 1)
Den(nd, tight, c) ==
  LET k == nd[1]  e == c.eol IN
  CASE k = "para" -> IF tight THEN Inl(nd[2], e).html ELSE "<p>" \o Inl(nd[2], e).html \o "</p>"
    [] k \in {"atx", "setext"} -> HTag(nd[2][1], FALSE) \o Inl(nd[2][2], e).html \o HTag(nd[2][1], TRUE)
    [] k = "hr" -> "<hr>"
    [] k = "fence" -> "<pre><code" \o (IF nd[2][1] THEN " class=\"language-lang\"" ELSE "") \o ">" \o CodeHtml(Code(nd[2][2]).html, e, 1) \o "</code></pre>"
    [] k = "icode" -> "<pre><code>" \o CodeHtml(Code(nd[2]).html, e, 1) \o "</code></pre>"
    [] k = "html" -> HtmlBlock(Html(nd[2]), e, 1)
    [] k = "quote" -> "<blockquote>" \o DenSeq(nd[3], FALSE, c) \o "</blockquote>"
    [] k = "equote" -> "<blockquote></blockquote>"
    [] k = "ul" -> "<ul>" \o DenSeq(nd[3], nd[2], c) \o "</ul>"
    [] k = "ol" -> (IF c.ostart # 1 THEN "<ol start=\"" \o Digits(c.ostart) \o "\">" ELSE "<ol>") \o DenSeq(nd[3], nd[2], c) \o "</ol>"
    [] k = "li" -> "<li>" \o DenSeq(nd[3], tight, c) \o "</li>"
DenSeq(kids, tight, c) == IF kids = <<>> THEN "" ELSE Den(Head(kids), tight, c) \o DenSeq(Tail(kids), tight, c)
Denote(roots, c) == [i \in 1..Len(roots) |-> Den(roots[i], FALSE, c)] \o (IF UsesRef(roots) THEN <<"", "">> ELSE <<>>)
RECURSIVE HasKind(_, _)
HasKind(kids, kind) == \E j \in 1..Len(kids) : kids[j][1] = kind \/ (kids[j][1] \in {"quote", "ul", "ol", "li"} /\ HasKind(kids[j][3], kind))

\* ------------------------------------------------------------------ the formatter as a program over the abstract document (G3)
(* format.Format (format/format.go) walks the tree; preBlock / postBlock / visitInline hand strings to the indenting writer
   (Format.tla models that writer byte by byte; here it works on TOKENS: "\n" or a string without a line ending - TLC cannot look
   inside a string). What is written depends on the writer's own state (hasWritten, startedLine), so the program is a state
   transformer. FmtText(roots, ch) is the exact text Format must produce for Parse(Markdown(roots, ch)).
   Two statements rest on it:
     style      Format(Parse(Markdown(doc, ch))) = FmtText(doc, ch)            (direction A; a difference that keeps the meaning is
                                                                                MODEL-DRIFT, the property does not fix the style)
     meaning    Full.tla's Model(FmtText(doc, ch)).html = Denote(doc)          (checked by TLC through FullTrace.tla: C20's second
                                                                                clause as a theorem of the two models)            *)
NL == "\n"
\* the longest line of the content that looks like a backtick fence (at most three spaces, backticks, nothing else): the formatter's fence is longer
FenceLike(c) == IF c = 4 THEN 3 ELSE 0
FmtFence(c) == Rep("`", IF FenceLike(c) >= 3 THEN FenceLike(c) + 1 ELSE 3)
\* what visitInline / postInline make of snippet i: text nodes get the formatter's escapes, emphasis / code spans / raw tags / images /
\* references / breaks are copied from the source, links are re-assembled (shortcut references become collapsed ones)
InlF(i) ==
  CASE i = 12 -> <<"\\*\\_\\#\\[\\]\\<\\>\\&\\\\\\`!\\-+.()\"'">>
    [] i = 13 -> <<"&amp; &copy; &#65; &#x42; \\&ampx;">>
    [] i = 14 -> <<"[t][r] [r][] [r][]">>
    [] i = 15 -> <<"[t", "u](/u \"ti", "tle\") z">>
    [] i = 18 -> <<"a \\< b \\> c \\& d \" e ' f">>
    [] i = 23 -> <<"\\~\\~\\~ a">>
    [] i = 25 -> <<"a", "\\=\\=\\=">>
    [] i = 28 -> <<"[r", "s][] [r", "s][]">>
    [] OTHER -> Inl(i, "\n").lines
\* lines -> tokens (a line ending between two lines, none after the last)
Toks(ls) == LET RECURSIVE T(_) T(k) == IF k > Len(ls) THEN <<>> ELSE (IF k > 1 THEN <<NL>> ELSE <<>>) \o <<ls[k]>> \o T(k + 1) IN T(1)
\* every line followed by its line ending (code and HTML block content)
TokLines(ls) == LET RECURSIVE T(_) T(k) == IF k > Len(ls) THEN <<>> ELSE (IF ls[k] = "" THEN <<>> ELSE <<ls[k]>>) \o <<NL>> \o T(k + 1) IN T(1)
\* the indenting writer: lines finished so far, the line being written, the indent stack (entries [s, t = s without trailing blanks, blank])
W0 == [lines |-> <<>>, cur |-> "", started |-> FALSE, written |-> FALSE, ind |-> <<>>]
IndOf(str) == IF str = "> " THEN [s |-> "> ", t |-> ">", blank |-> FALSE] ELSE [s |-> str, t |-> "", blank |-> TRUE]    \* "> " or spaces
RECURSIVE FlatInd(_), TrimInd(_)
FlatInd(ind) == IF ind = <<>> THEN "" ELSE ind[1].s \o FlatInd(Tail(ind))
TrimInd(ind) == IF ind = <<>> THEN "" ELSE IF ind[Len(ind)].blank THEN TrimInd(SubSeq(ind, 1, Len(ind) - 1))
                ELSE FlatInd(SubSeq(ind, 1, Len(ind) - 1)) \o ind[Len(ind)].t
W(st, tok) ==
  IF tok = "" THEN st
  ELSE IF tok = NL THEN (IF st.started THEN [st EXCEPT !.lines = Append(@, st.cur), !.cur = "", !.started = FALSE, !.written = TRUE]
                         ELSE [st EXCEPT !.lines = Append(@, TrimInd(st.ind)), !.written = TRUE])
  ELSE IF st.started THEN [st EXCEPT !.cur = @ \o tok, !.written = TRUE]
  ELSE [st EXCEPT !.cur = FlatInd(st.ind) \o tok, !.started = TRUE, !.written = TRUE]
RECURSIVE WT(_, _)
WT(st, toks) == IF toks = <<>> THEN st ELSE WT(W(st, Head(toks)), Tail(toks))
PushI(st, str) == [st EXCEPT !.ind = Append(@, IndOf(str))]
PopI(st) == [st EXCEPT !.ind = SubSeq(@, 1, Len(@) - 1)]
Sep(st) == IF st.written THEN W(st, NL) ELSE st      \* "if fw.hasWritten { fw.s("\n") }"
\* separateBlock: inside an item of a tight list a block that follows a finished line gets no blank line before it
SepT(st, ptight) == IF ~st.written THEN st ELSE IF ~st.started /\ ptight THEN st ELSE W(st, NL)
\* FB(nd, idx, ptight, c, st): Pre, children, Post of block nd, the idx-th block (0-based) of its container; ptight: the container is an item of a tight list
RECURSIVE FB(_, _, _, _, _), FSeq(_, _, _, _, _), FItems(_, _, _, _, _, _)
FB(nd, idx, ptight, c, st) ==
  LET k == nd[1] IN
  CASE k = "para" -> LET s1 == IF idx = 0 THEN st ELSE SepT(st, ptight)
                         s2 == WT(s1, Toks(InlF(nd[2])))
                     IN IF ptight THEN s2 ELSE W(s2, NL)
    [] k = "hr" -> IF ~st.written THEN WT(st, <<"***", NL, NL>>)
                   ELSE IF ptight THEN WT(IF st.started THEN W(st, NL) ELSE st, <<"***", NL>>)     \* no blank line, and not "---" below a paragraph
                   ELSE WT(st, <<NL, "---", NL, NL>>)
    [] k = "atx" -> W(WT(W(SepT(st, ptight), Rep("#", nd[2][1]) \o " "), Toks(InlF(nd[2][2]))), NL)
    [] k = "setext" -> WT(WT(SepT(st, ptight), Toks(InlF(nd[2][2]))), <<NL, IF nd[2][1] = 1 THEN "=====" ELSE "-----", NL>>)
    [] k = "fence" -> WT(WT(WT(SepT(st, ptight), <<FmtFence(nd[2][2]) \o (IF nd[2][1] THEN "lang extra" ELSE ""), NL>>), TokLines(Code(nd[2][2]).lines)), <<FmtFence(nd[2][2]), NL>>)
    [] k = "icode" -> WT(WT(WT(SepT(st, ptight), <<FmtFence(nd[2]), NL>>), TokLines(Code(nd[2]).lines)), <<FmtFence(nd[2]), NL>>)
    [] k = "html" -> WT(SepT(st, ptight), TokLines(Html(nd[2])))
    [] k = "quote" -> PopI(FSeq(nd[3], 1, FALSE, c, PushI(W(SepT(st, ptight), "> "), "> ")))
    [] k = "equote" -> WT(SepT(st, ptight), <<"> ", NL>>)               \* the marker, and postBlock ends the line nothing else has ended
    [] k = "ul" -> FItems(nd[3], 1, nd[2], FALSE, c, SepT(st, ptight))
    [] k = "ol" -> FItems(nd[3], 1, nd[2], TRUE, c, SepT(st, ptight))
FSeq(kids, i, ptight, c, st) == IF i > Len(kids) THEN st ELSE FSeq(kids, i + 1, ptight, c, FB(kids[i], i - 1, ptight, c, st))
FItems(items, i, tight, ordered, c, st) ==
  IF i > Len(items) THEN st
  ELSE LET marker == IF ordered THEN Digits(c.ostart + i - 1) \o c.odelim ELSE c.bullet
           s1 == IF i > 1 /\ ~tight THEN W(st, NL) ELSE st
           s2 == PushI(WT(s1, <<marker, " ">>), Spaces(Len(marker) + 1))
           s3 == PopI(FSeq(items[i][3], 1, tight, c, s2))
           s4 == IF s3.started THEN W(s3, NL) ELSE s3
       IN FItems(items, i + 1, tight, ordered, c, s4)
FmtState(roots, c) ==
  LET s1 == FSeq(roots, 1, FALSE, c, W0) IN
  IF UsesRef(roots) THEN WT(WT(Sep(s1), <<"[r]: /ru \"rt\"", NL>>), <<NL, "[r s]: /rs \"st\"", NL>>) ELSE s1
FmtText(roots, c) == LET st == FmtState(roots, c) IN
                     JoinLines([k \in 1..Len(st.lines) |-> Ln(st.lines[k], FALSE)], "\n", TRUE, 1) \o st.cur

\* ------------------------------------------------------------------ generator machine
\* C20 (second clause): the supported construct set fixed in DESIGN.md section C20 - no tabs, LF only, no <...> destinations
\* (snippet 7), and inside a quote or list item no emphasis / code span / raw tag that contains a line ending
\* (snippets 16, 17: the formatter copies their source verbatim and re-indents it).
FmtMode == LeafSet \in {"fstructure", "finline", "fcode"}
FmtInl == (1..NInl) \ {7, 27}      \* 7: <...> destination; 27: destination and title that need escapes (outside the supported set of DESIGN.md C20)
MultiLineVerbatim(i) == i \in {16, 17}      \* code span, raw tag (links / references with line endings in text, destination, title are re-assembled: supported)
Leaves ==
  CASE LeafSet \in {"structure", "fstructure"} -> {<<"para", 1, <<>>>>, <<"para", 2, <<>>>>, <<"atx", <<2, 1>>, <<>>>>, <<"setext", <<1, 2>>, <<>>>>, <<"hr", 0, <<>>>>,
                                 <<"fence", <<TRUE, 2>>, <<>>>>, <<"icode", 1, <<>>>>, <<"html", 1, <<>>>>, <<"equote", 0, <<>>>>}
    [] LeafSet = "inline" -> {<<"para", i, <<>>>> : i \in 1..NInl} \cup {<<"atx", <<3, i>>, <<>>>> : i \in {j \in 1..NInl : SingleLine(j)}}
                             \cup {<<"setext", <<2, i>>, <<>>>> : i \in {2, 6, 14, 15, 16, 20, 28}}
    [] LeafSet = "finline" -> {<<"para", i, <<>>>> : i \in FmtInl} \cup {<<"atx", <<3, i>>, <<>>>> : i \in {j \in FmtInl : SingleLine(j)}}
                              \cup {<<"setext", <<2, i>>, <<>>>> : i \in {2, 6, 14, 15, 16, 20, 28}}
    [] LeafSet \in {"code", "fcode"} -> {<<"fence", <<b, c>>, <<>>>> : b \in BOOLEAN, c \in 1..NCode} \cup {<<"icode", c, <<>>>> : c \in 1..NCode}
                           \cup {<<"html", h, <<>>>> : h \in 1..3} \cup {<<"para", 1, <<>>>>, <<"hr", 0, <<>>>>}
Containers == {<<"quote", FALSE>>, <<"ul", TRUE>>, <<"ul", FALSE>>, <<"ol", TRUE>>, <<"ol", FALSE>>}

VARIABLES stack, n, ch
vars == <<stack, n, ch>>
Init == stack = <<[kind |-> "doc", attr |-> FALSE, kids |-> <<>>]>> /\ n = 0 /\ ch \in Choices
Top == stack[Len(stack)]
InTightItem == Len(stack) >= 2 /\ Top.kind = "li" /\ stack[Len(stack) - 1].attr
InList == \E d \in 1..Len(stack) : stack[d].kind = "li"
\* May a block of kind bk (b: the node when it is a leaf) directly follow block a inside an item of a TIGHT list, i.e. with no blank
\* line between them? Only pairs whose second block starts a new block by the spec's own rules: a paragraph is interrupted by an ATX
\* heading, a thematic break, a fence, an HTML block of type 1-6, a block quote, a bullet item or an ordered item numbered 1; a line
\* behind a quote or a nested list whose last paragraph is still open must not be a lazy continuation line; an HTML block of type 6
\* only ends at a blank line, so nothing follows it.
TightPairOK(a, bk0, b) ==
  LET Q(x) == IF x = "equote" THEN "quote" ELSE x       \* an empty quote starts and ends like any quote
      ak == Q(a[1])
      bk == Q(bk0)
      htmlOK == bk = "html" /\ b[2] \in {1, 2}
  IN CASE ak = "para" -> bk \in {"atx", "hr", "fence", "quote", "ul"} \/ htmlOK \/ (bk = "ol" /\ ch.ostart = 1)
       [] ak \in {"atx", "setext", "hr", "fence"} -> bk \in {"para", "atx", "setext", "hr", "fence", "icode", "quote", "ul", "ol"} \/ htmlOK
       [] ak = "icode" -> bk \in {"para", "atx", "setext", "hr", "fence", "quote", "ul", "ol"} \/ htmlOK
       [] ak = "html" -> a[2] = 2 /\ (bk \in {"para", "atx", "setext", "hr", "fence", "quote", "ul", "ol"} \/ htmlOK)
       [] ak = "quote" -> bk \in {"atx", "hr", "fence", "ul"} \/ htmlOK \/ (bk = "ol" /\ ch.ostart = 1)
       [] ak \in {"ul", "ol"} -> bk \in {"atx", "hr", "fence", "quote"} \/ htmlOK
       [] OTHER -> FALSE
LastKid == Top.kids[Len(Top.kids)]
\* compositions whose meaning would depend on more than the rule being exercised are not generated
CanAddLeaf(l) ==
  /\ Top.kind \notin {"ul", "ol"}
  /\ (InTightItem /\ Top.kids # <<>> => TightPairOK(LastKid, l[1], l))   \* blocks of a tight item follow each other without a blank line
  /\ (l[1] = "icode" /\ Top.kind = "li" => Top.kids # <<>>)             \* indented code is not the first block of an item
  /\ (l[1] = "icode" /\ Top.kids # <<>> => Top.kids[Len(Top.kids)][1] \notin {"icode", "ul", "ol"})   \* would merge with the previous code block / continue the previous list item
  /\ (l[1] = "html" /\ l[2] = 3 => ~InList /\ Top.kind = "doc")         \* <pre> with indented content only at the root
  /\ (l[1] = "icode" => l[2] # 5) /\ (l[1] = "fence" /\ l[2][2] = 5 => ~InList)   \* the line of spaces: fenced code outside list items
  /\ (FmtMode /\ Len(stack) > 1 /\ l[1] = "para" => ~MultiLineVerbatim(l[2]))
  /\ (FmtMode /\ Len(stack) > 1 /\ l[1] \in {"atx", "setext"} => ~MultiLineVerbatim(l[2][2]))
AddLeaf == /\ n < MaxNodes
           /\ \E l \in Leaves : CanAddLeaf(l) /\ stack' = [stack EXCEPT ![Len(stack)].kids = Append(@, l)]
           /\ n' = n + 1 /\ UNCHANGED ch
Open == /\ n < MaxNodes /\ Len(stack) <= MaxDepth
        /\ Top.kind \notin {"ul", "ol"}
        /\ \E c \in Containers :
             /\ (InTightItem /\ Top.kids # <<>> => TightPairOK(LastKid, c[1], <<>>))
             /\ (c[1] \in {"ul", "ol"} /\ Top.kids # <<>> => Top.kids[Len(Top.kids)][1] \notin {"ul", "ol"})   \* adjacent lists would merge or need a marker change
             /\ stack' = Append(stack, [kind |-> c[1], attr |-> c[2], kids |-> <<>>])
        /\ n' = n + 1 /\ UNCHANGED ch
OpenItem == /\ n < MaxNodes /\ Len(stack) <= MaxDepth + 1
            /\ Top.kind \in {"ul", "ol"}
            /\ stack' = Append(stack, [kind |-> "li", attr |-> FALSE, kids |-> <<>>])
            /\ n' = n + 1 /\ UNCHANGED ch
\* a loose list needs a blank line between items or between two blocks of an item
CanClose == /\ Len(stack) > 1 /\ Top.kids # <<>>
            /\ (Top.kind \in {"ul", "ol"} /\ ~Top.attr => (Len(Top.kids) >= 2 \/ \E j \in 1..Len(Top.kids) : Len(Top.kids[j][3]) >= 2))
            /\ (Top.kind \in {"ul", "ol"} /\ Top.attr => \A j \in 1..Len(Top.kids) : Len(Top.kids[j][3]) >= 1)
Close == /\ CanClose
         /\ LET node == <<Top.kind, Top.attr, Top.kids>>
                rest == SubSeq(stack, 1, Len(stack) - 1)
            IN stack' = [rest EXCEPT ![Len(rest)].kids = Append(@, node)]
         /\ UNCHANGED <<n, ch>>
Next == AddLeaf \/ Open \/ OpenItem \/ Close
Spec == Init /\ [][Next]_vars

Complete == Len(stack) = 1 /\ stack[1].kids # <<>>
\* choices that would need more context than the vector gives are not combined
ChoiceOK == /\ (ch.eol # "\n" => ch.final)
            /\ (ch.tab => ch.lead = 0)
            /\ (~ch.final => ~HasKind(stack[1].kids, "html"))    \* an HTML block at end of input has no last line ending to copy
            /\ (FmtMode => ch.eol = "\n" /\ ~ch.tab)
Emit == (Complete /\ ChoiceOK) =>
          PrintT(ToJson([md |-> Markdown(stack[1].kids, ch), html |-> Denote(stack[1].kids, ch), ch |-> ch,
                         fmt |-> IF FmtMode THEN FmtText(stack[1].kids, ch) ELSE ""]))

\* model-level sanity: the denotation has one entry per root block (plus the empty rendering of the definition)
DenoteShape == Complete => Len(Denote(stack[1].kids, ch)) = Len(stack[1].kids) + (IF UsesRef(stack[1].kids) THEN 2 ELSE 0)
=============================================================================
