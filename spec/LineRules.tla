---------------------------- MODULE LineRules ----------------------------
(* Declarative (regular) definitions of the line-level recognizers and byte classifiers of
   CommonMark 0.30, written as quantified formulas over positions rather than as scanning loops:

     4.1 thematic break         4.2 ATX heading        4.3 setext heading underline
     4.5 code fence             5.2 list marker        2.1 character classes
     6.5 autolinks (absolute URI, e-mail address)      URI normalisation (RFC 3986 sets)

   A line is a sequence of bytes (integers) with at most one line ending, at its end.
   Every recogniser is defined on the line AFTER the caller stripped up to three columns of
   indentation, so lines starting with a space or tab are outside its domain.

   The generator (Init/Next) enumerates every body over Alphabet up to MaxLen and Emit prints, per
   body, the expected decision for each of the four line endings; the harness compares with the
   real recognisers (exported under the verif build tag) and, end to end, with commonmark.Parse.
*)
EXTENDS LineDefs, TLC, Json

CONSTANTS Rule,       \* "thematic" | "atx" | "setext" | "fence" | "marker" | "uri" | "email" | "autolink" | "bytes"
          Alphabet,   \* set of bytes
          MaxLen

\* ---------------------------------------------------------------- generator
VARIABLES body
Init == body = <<>>
Next == /\ Len(body) < MaxLen
        /\ \E c \in Alphabet : body' = Append(body, c)
        /\ (Rule \in {"thematic", "atx", "setext", "fence", "marker"} => InDomain(body'))
Spec == Init /\ [][Next]_body

\* boundary lengths the exhaustive alphabets cannot reach (9/10-digit markers, 63/64-byte labels, 32/33-character schemes)
Rep(c, k) == [i \in 1..k |-> c]
BoundaryCases ==
  CASE Rule = "marker" -> {Rep(49, k) \o <<d>> \o t : k \in 7..11, d \in {46, 41}, t \in {<<>>, <<SP, 97>>, <<97>>}}
                          \cup {<<48>> \o Rep(48, k) \o <<49, 46, SP>> : k \in 6..9}
    [] Rule = "email" -> {<<97, 64>> \o Rep(97, k) \o t : k \in 60..66, t \in {<<>>, <<46, 98>>, <<45, 97>>, <<45>>}}
                         \cup {<<97, 64, 98, 46>> \o Rep(49, k) : k \in 62..65}
                         \cup {<<97, 64>> \o Rep(97, 62) \o <<45>> \o Rep(97, k) : k \in 0..2}
                         \* the regular expression puts no bound on the whole address: long local parts and many labels
                         \cup {Rep(97, k) \o <<64, 98, 46, 99>> : k \in {127, 128, 250, 251, 252, 253, 254, 255, 256, 257, 300, 520}}
                         \cup {<<97, 64>> \o Rep(98, 63) \o <<46>> \o Rep(99, 63) \o <<46>> \o Rep(100, 63) \o <<46>> \o Rep(101, k) : k \in {60, 61, 62, 63, 64}}
    [] Rule = "autolink" -> {<<60>> \o Rep(97, k) \o <<58, 120, 62>> : k \in 1..35}
                            \cup {<<60, 97>> \o Rep(43, k) \o <<58, 62>> : k \in 29..33}
                            \cup {<<60, 97, 64>> \o Rep(97, k) \o <<62>> : k \in 61..66}
                            \cup {<<60>> \o Rep(97, k) \o <<64, 98, 46, 99, 62>> : k \in {250, 256, 300}}
    [] OTHER -> {}
InitBoundary == body \in BoundaryCases

EOLS == << <<>>, <<LF>>, <<CR>>, <<CR, LF>> >>
LineResult(l) ==
  LET b == Body(l) IN
  CASE Rule = "thematic" -> [end |-> ThematicEnd(b)]
    [] Rule = "atx" -> [level |-> AtxLevel(b), content |-> IF AtxLevel(b) > 0 THEN AtxContent(b) ELSE <<>>]
    [] Rule = "setext" -> [level |-> SetextLevel(b)]
    [] Rule = "fence" -> FenceRec(b)
    [] Rule = "marker" -> [m |-> MarkerRec(l), tb |-> IsThematic(b)]

Emit ==
  CASE Rule \in {"thematic", "atx", "setext", "fence", "marker"} ->
         PrintT(ToJson([rule |-> Rule, b |-> body, r |-> [e \in 1..4 |-> LineResult(body \o EOLS[e])]]))
    [] Rule = "uri" -> PrintT(ToJson([rule |-> Rule, b |-> body, out |-> Normalize(body)]))
    [] Rule = "email" -> PrintT(ToJson([rule |-> Rule, b |-> body, is |-> IsEmail(body)]))
    [] Rule = "autolink" -> PrintT(ToJson([rule |-> Rule, b |-> body, end |-> AutolinkEnd(body)]))
    [] Rule = "bytes" -> (Len(body) > 0 \/ PrintT(ToJson([rule |-> Rule, bits |-> [c \in 1..256 |-> ByteBits(c-1)], runes |-> RuneTable])))

\* ---------------------------------------------------------------- model-level lemmas (invariants)
\* URI normalisation is idempotent and emits only reserved/unreserved characters and well-formed escapes
UriLemma == Rule = "uri" => LET n == Normalize(body) IN WellFormedURI(n, 1) /\ Normalize(n) = n
\* a setext underline of three or more '-' is also a thematic break; a thematic break is never a list
\* marker line with content of the same character; ATX content never starts or ends with space/tab
SetextThematic == Rule = "setext" => (SetextLevel(body) = 2 /\ LeadRun(body, 45) >= 3 => IsThematic(body))
AtxTrimmed == Rule = "atx" => LET c == AtxContent(body) IN
                 AtxLevel(body) > 0 /\ c # <<>> => ~IsWS(c[1]) /\ ~IsWS(c[Len(c)])
FenceInfoClean == Rule = "fence" => LET f == FenceRec(body) IN
                 f.n > 0 => f.n >= 3 /\ (f.c = BT => \A i \in 1..Len(f.info) : f.info[i] # BT)
EmailAutolink == Rule = "autolink" => LET e == AutolinkEnd(body) IN e # -1 => (e >= 4 /\ body[e] = 62)
Lemmas == UriLemma /\ SetextThematic /\ AtxTrimmed /\ FenceInfoClean /\ EmailAutolink
=============================================================================
