---------------------------- MODULE Html ----------------------------
(* A subset of the WHATWG HTML tokenizer (https://html.spec.whatwg.org/multipage/parsing.html#tokenization)
   as a functional byte-level state machine: data, tag open, end tag open, tag name, before/after attribute
   name, attribute name, before attribute value, attribute value (double-quoted, single-quoted, unquoted),
   after attribute value (quoted), self-closing start tag, bogus comment, markup declaration open, comment
   start / start dash / comment / end dash / end / end bang, DOCTYPE (skipped to '>'), CDATA treated as a
   bogus comment (HTML content) - plus an open-element stack.

   Tokens(s) is the token sequence of the byte string s; tokens are records [t, name, attrs, self] with
   t in {"start", "end", "comment", "doctype", "ltext" (a '<' that is text), "err" (a tokenizer parse error
   inside the subset: see ErrTok)}.
   WellFormed(s) is the C07 statement about a rendered output; trace records are validated one per state.
   The same Tokens operator is used by Filter.tla / C17 to ask which start tags a browser would see.
*)
EXTENDS Integers, Sequences, FiniteSets, TLC, Json

LT == 60  GT == 62  SLASH == 47  BANG == 33  DASH == 45  QM == 63  EQ == 61  DQ == 34  SQ == 39  AMP == 38  SEMI == 59  HASHC == 35
IsWS(b) == b \in {9, 10, 12, 13, 32}
IsUpper(b) == b >= 65 /\ b <= 90
IsLower(b) == b >= 97 /\ b <= 122
IsAlpha(b) == IsUpper(b) \/ IsLower(b)
IsDigit(b) == b >= 48 /\ b <= 57
IsHexD(b) == IsDigit(b) \/ (b >= 65 /\ b <= 70) \/ (b >= 97 /\ b <= 102)
Lower(b) == IF IsUpper(b) THEN b + 32 ELSE b

At(s, i) == IF i <= Len(s) THEN s[i] ELSE -1
HasPrefixAt(s, i, pfx) == i + Len(pfx) - 1 <= Len(s) /\ \A k \in 1..Len(pfx) : s[i + k - 1] = pfx[k]
HasPrefixAtCI(s, i, pfx) == i + Len(pfx) - 1 <= Len(s) /\ \A k \in 1..Len(pfx) : Lower(s[i + k - 1]) = pfx[k]

\* Tokens: <<"text", bytes>> are merged away: we keep only a flag per text run whether it contained a raw '<' (can't: '<' in data that does not open a tag is emitted as text)
\* token records: [t, name, attrs, self]
EmitTag(toks, cur) == Append(toks, cur)
ErrTok(toks, what) == Append(toks, [t |-> "err", name |-> what, attrs |-> <<>>, self |-> FALSE])
\* a syntactically valid character reference starts at i:  &name;  &#digits;  &#xhex;
IsAlnumB(b) == IsAlpha(b) \/ IsDigit(b)
RECURSIVE RunAlnum(_, _), RunDigit(_, _), RunHex(_, _)
RunAlnum(s, i) == IF i <= Len(s) /\ IsAlnumB(s[i]) THEN RunAlnum(s, i+1) ELSE i
RunDigit(s, i) == IF i <= Len(s) /\ IsDigit(s[i]) THEN RunDigit(s, i+1) ELSE i
RunHex(s, i) == IF i <= Len(s) /\ IsHexD(s[i]) THEN RunHex(s, i+1) ELSE i
ValidCharRefAt(s, i) ==
  /\ At(s, i) = AMP
  /\ \/ /\ IsAlpha(At(s, i+1))
        /\ LET j == RunAlnum(s, i+1) IN At(s, j) = SEMI
     \/ /\ At(s, i+1) = HASHC /\ IsDigit(At(s, i+2))
        /\ LET j == RunDigit(s, i+2) IN At(s, j) = SEMI
     \/ /\ At(s, i+1) = HASHC /\ At(s, i+2) \in {120, 88} /\ IsHexD(At(s, i+3))
        /\ LET j == RunHex(s, i+3) IN At(s, j) = SEMI
AmpCheck(s, i, toks) == IF At(s, i) = AMP /\ ~ValidCharRefAt(s, i) THEN ErrTok(toks, "bare-ampersand") ELSE toks

\* states: "data","tagopen","endtagopen","tagname","battr","attrname","aattrname","bval","valdq","valsq","valunq","avalq","selfclose","bogus","mdo","cstart","cstartdash","comment","cenddash","cend","cendbang","doctype"
\* (comment-less-than-sign states do not change where a comment ends, omitted)
RECURSIVE Tok(_, _, _, _, _)
\* s: bytes, i: index, st: state, cur: current tag record, toks: tokens so far
Tok(s, i, st, cur, toks) ==
  LET c == At(s, i) IN
  IF c = -1 THEN
      \* EOF: an unfinished tag is dropped (eof-in-tag), comments are emitted
      IF st \in {"bogus", "cstart", "cstartdash", "comment", "cenddash", "cend", "cendbang"} THEN Append(toks, [t |-> "comment", name |-> <<>>, attrs |-> <<>>, self |-> FALSE])
      ELSE IF st \in {"data"} THEN toks
      ELSE IF st = "tagopen" THEN Append(toks, [t |-> "ltext", name |-> <<>>, attrs |-> <<>>, self |-> FALSE])
      ELSE ErrTok(toks, "eof-in-tag")
  ELSE
  CASE st = "data" ->
         IF c = LT THEN Tok(s, i+1, "tagopen", cur, toks) ELSE Tok(s, i+1, "data", cur, AmpCheck(s, i, toks))
    [] st = "tagopen" ->
         IF c = BANG THEN Tok(s, i+1, "mdo", cur, toks)
         ELSE IF c = SLASH THEN Tok(s, i+1, "endtagopen", cur, toks)
         ELSE IF IsAlpha(c) THEN Tok(s, i, "tagname", [t |-> "start", name |-> <<>>, attrs |-> <<>>, self |-> FALSE], toks)
         ELSE IF c = QM THEN Tok(s, i, "bogus", cur, toks)
         ELSE Tok(s, i, "data", cur, Append(toks, [t |-> "ltext", name |-> <<>>, attrs |-> <<>>, self |-> FALSE]))  \* literal '<' as text
    [] st = "endtagopen" ->
         IF IsAlpha(c) THEN Tok(s, i, "tagname", [t |-> "end", name |-> <<>>, attrs |-> <<>>, self |-> FALSE], toks)
         ELSE IF c = GT THEN Tok(s, i+1, "data", cur, ErrTok(toks, "missing-end-tag-name"))
         ELSE Tok(s, i, "bogus", cur, ErrTok(toks, "invalid-first-character-of-tag-name"))
    [] st = "tagname" ->
         IF IsWS(c) THEN Tok(s, i+1, "battr", cur, toks)
         ELSE IF c = SLASH THEN Tok(s, i+1, "selfclose", cur, toks)
         ELSE IF c = GT THEN Tok(s, i+1, "data", cur, EmitTag(toks, cur))
         ELSE Tok(s, i+1, "tagname", [cur EXCEPT !.name = Append(@, Lower(c))], toks)
    [] st = "battr" ->
         IF IsWS(c) THEN Tok(s, i+1, "battr", cur, toks)
         ELSE IF c = SLASH \/ c = GT THEN Tok(s, i, "aattrname", cur, toks)
         ELSE Tok(s, i+1, "attrname", [cur EXCEPT !.attrs = Append(@, [n |-> <<Lower(c)>>, v |-> <<>>, q |-> 0])], toks)
    [] st = "attrname" ->
         IF IsWS(c) \/ c = SLASH \/ c = GT THEN Tok(s, i, "aattrname", cur, toks)
         ELSE IF c = EQ THEN Tok(s, i+1, "bval", cur, toks)
         ELSE Tok(s, i+1, "attrname", [cur EXCEPT !.attrs[Len(cur.attrs)].n = Append(@, Lower(c))],
                  IF c \in {DQ, SQ, LT} THEN ErrTok(toks, "unexpected-character-in-attribute-name") ELSE toks)
    [] st = "aattrname" ->
         IF IsWS(c) THEN Tok(s, i+1, "aattrname", cur, toks)
         ELSE IF c = SLASH THEN Tok(s, i+1, "selfclose", cur, toks)
         ELSE IF c = EQ THEN Tok(s, i+1, "bval", cur, toks)
         ELSE IF c = GT THEN Tok(s, i+1, "data", cur, EmitTag(toks, cur))
         ELSE Tok(s, i+1, "attrname", [cur EXCEPT !.attrs = Append(@, [n |-> <<Lower(c)>>, v |-> <<>>, q |-> 0])], toks)
    [] st = "bval" ->
         IF IsWS(c) THEN Tok(s, i+1, "bval", cur, toks)
         ELSE IF c = DQ THEN Tok(s, i+1, "valdq", [cur EXCEPT !.attrs[Len(cur.attrs)].q = DQ], toks)
         ELSE IF c = SQ THEN Tok(s, i+1, "valsq", [cur EXCEPT !.attrs[Len(cur.attrs)].q = SQ], toks)
         ELSE IF c = GT THEN Tok(s, i+1, "data", cur, ErrTok(EmitTag(toks, cur), "missing-attribute-value"))
         ELSE Tok(s, i, "valunq", cur, toks)
    [] st = "valdq" ->
         IF c = DQ THEN Tok(s, i+1, "avalq", cur, toks)
         ELSE Tok(s, i+1, "valdq", [cur EXCEPT !.attrs[Len(cur.attrs)].v = Append(@, c)], AmpCheck(s, i, toks))
    [] st = "valsq" ->
         IF c = SQ THEN Tok(s, i+1, "avalq", cur, toks)
         ELSE Tok(s, i+1, "valsq", [cur EXCEPT !.attrs[Len(cur.attrs)].v = Append(@, c)], AmpCheck(s, i, toks))
    [] st = "valunq" ->
         IF IsWS(c) THEN Tok(s, i+1, "battr", cur, toks)
         ELSE IF c = GT THEN Tok(s, i+1, "data", cur, EmitTag(toks, cur))
         ELSE Tok(s, i+1, "valunq", [cur EXCEPT !.attrs[Len(cur.attrs)].v = Append(@, c)], toks)
    [] st = "avalq" ->
         IF IsWS(c) THEN Tok(s, i+1, "battr", cur, toks)
         ELSE IF c = SLASH THEN Tok(s, i+1, "selfclose", cur, toks)
         ELSE IF c = GT THEN Tok(s, i+1, "data", cur, EmitTag(toks, cur))
         ELSE Tok(s, i, "battr", cur, ErrTok(toks, "missing-whitespace-between-attributes"))
    [] st = "selfclose" ->
         IF c = GT THEN Tok(s, i+1, "data", cur, EmitTag(toks, [cur EXCEPT !.self = TRUE]))
         ELSE Tok(s, i, "battr", cur, ErrTok(toks, "unexpected-solidus-in-tag"))
    [] st = "bogus" ->
         IF c = GT THEN Tok(s, i+1, "data", cur, Append(toks, [t |-> "comment", name |-> <<>>, attrs |-> <<>>, self |-> FALSE]))
         ELSE Tok(s, i+1, "bogus", cur, toks)
    [] st = "mdo" ->
         IF HasPrefixAt(s, i, <<DASH, DASH>>) THEN Tok(s, i+2, "cstart", cur, toks)
         ELSE IF HasPrefixAtCI(s, i, <<100, 111, 99, 116, 121, 112, 101>>) THEN Tok(s, i+7, "doctype", cur, toks)
         ELSE Tok(s, i, "bogus", cur, toks)      \* includes [CDATA[ in HTML content
    [] st = "cstart" ->
         IF c = DASH THEN Tok(s, i+1, "cstartdash", cur, toks)
         ELSE IF c = GT THEN Tok(s, i+1, "data", cur, Append(toks, [t |-> "comment", name |-> <<>>, attrs |-> <<>>, self |-> FALSE]))
         ELSE Tok(s, i, "comment", cur, toks)
    [] st = "cstartdash" ->
         IF c = DASH THEN Tok(s, i+1, "cend", cur, toks)
         ELSE IF c = GT THEN Tok(s, i+1, "data", cur, Append(toks, [t |-> "comment", name |-> <<>>, attrs |-> <<>>, self |-> FALSE]))
         ELSE Tok(s, i, "comment", cur, toks)
    [] st = "comment" ->
         IF c = DASH THEN Tok(s, i+1, "cenddash", cur, toks) ELSE Tok(s, i+1, "comment", cur, toks)
    [] st = "cenddash" ->
         IF c = DASH THEN Tok(s, i+1, "cend", cur, toks) ELSE Tok(s, i, "comment", cur, toks)
    [] st = "cend" ->
         IF c = GT THEN Tok(s, i+1, "data", cur, Append(toks, [t |-> "comment", name |-> <<>>, attrs |-> <<>>, self |-> FALSE]))
         ELSE IF c = BANG THEN Tok(s, i+1, "cendbang", cur, toks)
         ELSE IF c = DASH THEN Tok(s, i+1, "cend", cur, toks)
         ELSE Tok(s, i, "comment", cur, toks)
    [] st = "cendbang" ->
         IF c = DASH THEN Tok(s, i+1, "cenddash", cur, toks)
         ELSE IF c = GT THEN Tok(s, i+1, "data", cur, Append(toks, [t |-> "comment", name |-> <<>>, attrs |-> <<>>, self |-> FALSE]))
         ELSE Tok(s, i, "comment", cur, toks)
    [] st = "doctype" ->
         IF c = GT THEN Tok(s, i+1, "data", cur, Append(toks, [t |-> "doctype", name |-> <<>>, attrs |-> <<>>, self |-> FALSE]))
         ELSE Tok(s, i+1, "doctype", cur, toks)

Tokens(s) == Tok(s, 1, "data", [t |-> "none", name |-> <<>>, attrs |-> <<>>, self |-> FALSE], <<>>)

\* ---- C07 vocabulary ----
Str(x) == x  \* names are byte seqs; define known names as byte seqs
N_p == <<112>>  N_hr == <<104,114>>  N_pre == <<112,114,101>>  N_code == <<99,111,100,101>>  N_bq == <<98,108,111,99,107,113,117,111,116,101>>
N_ol == <<111,108>>  N_ul == <<117,108>>  N_li == <<108,105>>  N_em == <<101,109>>  N_strong == <<115,116,114,111,110,103>>  N_a == <<97>>  N_img == <<105,109,103>>  N_br == <<98,114>>
N_h(k) == <<104, 48 + k>>
Vocabulary == {N_p, N_hr, N_pre, N_code, N_bq, N_ol, N_ul, N_li, N_em, N_strong, N_a, N_img, N_br} \cup {N_h(k) : k \in 1..6}
Void == {N_hr, N_br, N_img}
A_class == <<99,108,97,115,115>>  A_start == <<115,116,97,114,116>>  A_href == <<104,114,101,102>>  A_title == <<116,105,116,108,101>>  A_src == <<115,114,99>>  A_alt == <<97,108,116>>
AllowedAttrs(n) == CASE n = N_code -> {A_class} [] n = N_ol -> {A_start} [] n = N_a -> {A_href, A_title} [] n = N_img -> {A_src, A_title, A_alt} [] OTHER -> {}

RECURSIVE Balanced(_, _)
Balanced(toks, stack) ==
  IF toks = <<>> THEN stack = <<>>
  ELSE LET tk == Head(toks) IN
       IF tk.t = "start" THEN (IF tk.name \in Void THEN Balanced(Tail(toks), stack) ELSE Balanced(Tail(toks), Append(stack, tk.name)))
       ELSE IF tk.t = "end" THEN stack # <<>> /\ stack[Len(stack)] = tk.name /\ Balanced(Tail(toks), SubSeq(stack, 1, Len(stack)-1))
       ELSE FALSE   \* comments, doctype, literal '<' are not allowed at all

TagOK(tk) == /\ tk.name \in Vocabulary
             /\ ~tk.self
             /\ (tk.t = "end" => tk.attrs = <<>> /\ tk.name \notin Void)
             /\ \A k \in 1..Len(tk.attrs) : /\ tk.attrs[k].n \in AllowedAttrs(tk.name)
                                            /\ tk.attrs[k].q = DQ
                                            /\ \A j \in 1..Len(tk.attrs) : j # k => tk.attrs[j].n # tk.attrs[k].n

WellFormed(s) == LET toks == Tokens(s) IN (\A k \in 1..Len(toks) : TagOK(toks[k])) /\ Balanced(toks, <<>>)

\* first problem of a rendered output, or "ok"
Verdict(s) ==
  LET toks == Tokens(s)
      errs == {k \in 1..Len(toks) : toks[k].t = "err"}
      others == {k \in 1..Len(toks) : toks[k].t \in {"comment", "doctype", "ltext"}}
      tags == {k \in 1..Len(toks) : toks[k].t \in {"start", "end"}}
  IN IF errs # {} THEN toks[CHOOSE k \in errs : \A j \in errs : k <= j].name
     ELSE IF others # {} THEN "markup-other-than-tags:" \o toks[CHOOSE k \in others : \A j \in others : k <= j].t
     ELSE IF \E k \in tags : ~TagOK(toks[k]) THEN "tag-or-attribute-outside-the-fixed-vocabulary"
     ELSE IF ~Balanced(toks, <<>>) THEN "tags-not-properly-nested"
     ELSE "ok"

\* ---- trace validation: one recorded output per initial state ----
CONSTANT File
Traces == ndJsonDeserialize(File)
VARIABLES tid, verdict
vars == <<tid, verdict>>
Init == \E k \in 1..Len(Traces) : tid = k /\ verdict = "init"
Next == verdict = "init" /\ verdict' = Verdict(Traces[tid].out) /\ UNCHANGED tid
Accepted == verdict \in {"init", "ok"}
=============================================================================
