---------------------------- MODULE Inline ----------------------------
(* The CommonMark 0.30 inline phase for one line of paragraph text as an executable model, following the spec's
   "algorithm for parsing nested emphasis and links": a scanner producing a flat list of items (text and nodes with
   spans) and a delimiter stack [id, type, length, canOpen, canClose, active]; backslash escapes; code spans by
   equal-length backtick runs; delimiter runs with flanking; '[' / '![' openers; ']' -> CloseBracket: inline tail
   ( destination "title" ) with balanced-parenthesis and <...> destinations, full / collapsed / shortcut references
   against a fixed map {a}, link-in-link deactivation; autolinks (URI, e-mail); raw HTML (open / closing tags,
   comments, processing instructions, declarations, CDATA); entities over the HTML5 name table restricted to the
   alphabet, decimal and hexadecimal references; ProcEmph with a stack bottom (Emphasis.tla is its special case).

   ParseInline(s) = nested (kind, lo, hi) of all non-text nodes; Emit prints it for every string over an alphabet and
   the harness compares it with the real tree of the paragraph  a<s>a  (with "[a]: /u" defined) - an EXACT oracle for
   inline structure (direction A). Model invariants: items tile the input, nodes are laminar, no link inside a link.
*)
EXTENDS Integers, Sequences, FiniteSets, TLC, Json

CONSTANTS MaxLen, AlphabetName

Ent == INSTANCE Entities

BS == 92  TICK == 96  STAR == 42  USC == 95  LB == 91  RB == 93  LP == 40  RP == 41  BANG == 33  SP == 32  DQ == 34  LT == 60  GT == 62  LF == 10
IsPunct(b) == (b >= 33 /\ b <= 47) \/ (b >= 58 /\ b <= 64) \/ (b >= 91 /\ b <= 96) \/ (b >= 123 /\ b <= 126)
IsWSb(b) == b \in {SP, 9, LF, 13, 12}
At(s, i) == IF i >= 1 /\ i <= Len(s) THEN s[i] ELSE -1            \* 1-based
Class(b) == IF b = -1 \/ IsWSb(b) THEN "ws" ELSE IF IsPunct(b) THEN "punct" ELSE "other"

RECURSIVE RunEnd(_, _, _)
RunEnd(s, i, c) == IF At(s, i) = c THEN RunEnd(s, i+1, c) ELSE i        \* first index after the run of c starting at i

\* ---------- items and stack ----------
\* item: [id, lo, hi, k, kids]   k: "text" | "emph" | "strong" | "link" | "image" | "code"     spans are [lo,hi) 1-based
\* stack entry: [id, typ, n, open, close, active]
Item(id, lo, hi, k, kids) == [id |-> id, lo |-> lo, hi |-> hi, k |-> k, kids |-> kids, x |-> <<>>]
\* x: extra data of a link / image: [ref (normalized label or <<>>), dlo, dhi (destination text, 0 0: none), tlo, thi (title text, 0 0: none)]
ItemX(id, lo, hi, k, kids, x) == [id |-> id, lo |-> lo, hi |-> hi, k |-> k, kids |-> kids, x |-> x]
PosOf(items, id) == CHOOSE p \in 1..Len(items) : items[p].id = id
Del(q, a, b) == SubSeq(q, 1, a-1) \o SubSeq(q, b+1, Len(q))            \* remove a..b inclusive

Match(o, c) == /\ o.typ = c.typ /\ o.typ \in {STAR, USC} /\ o.open /\ c.close
               /\ \/ ~o.close /\ ~c.open
                  \/ (o.n + c.n) % 3 # 0
                  \/ o.n % 3 = 0 /\ c.n % 3 = 0

RECURSIVE FirstCloser(_, _)
FirstCloser(st, cur) == IF cur > Len(st) THEN 0 ELSE IF st[cur].typ \in {STAR, USC} /\ st[cur].close THEN cur ELSE FirstCloser(st, cur+1)
RECURSIVE FindOpener(_, _, _, _)
FindOpener(st, j, c, bottom) == IF j <= bottom THEN 0 ELSE IF Match(st[j], st[c]) THEN j ELSE FindOpener(st, j-1, c, bottom)

\* process emphasis for stack entries above index `bottom`; returns [items, st] with those entries removed
RECURSIVE ProcEmph(_, _, _, _)
ProcEmph(items, st, cur, bottom) ==
  LET c == FirstCloser(st, cur) IN
  IF c = 0 THEN [items |-> items, st |-> SubSeq(st, 1, bottom)]
  ELSE LET j == FindOpener(st, c-1, c, bottom) IN
       IF j = 0 THEN (IF st[c].open THEN ProcEmph(items, st, c+1, bottom) ELSE ProcEmph(items, Del(st, c, c), c, bottom))
       ELSE LET pa == PosOf(items, st[j].id)
                pb == PosOf(items, st[c].id)
                oi == items[pa]
                ci == items[pb]
                k == IF oi.hi - oi.lo >= 2 /\ ci.hi - ci.lo >= 2 THEN 2 ELSE 1
                node == Item(0, oi.hi - k, ci.lo + k, (IF k = 2 THEN "strong" ELSE "emph"), SubSeq(items, pa+1, pb-1))
                o2 == [oi EXCEPT !.hi = @ - k]
                c2 == [ci EXCEPT !.lo = @ + k]
                oSeq == IF o2.hi = o2.lo THEN <<>> ELSE <<o2>>
                cSeq == IF c2.hi = c2.lo THEN <<>> ELSE <<c2>>
                items2 == SubSeq(items, 1, pa-1) \o oSeq \o <<node>> \o cSeq \o SubSeq(items, pb+1, Len(items))
                stO == IF o2.hi = o2.lo THEN <<>> ELSE <<st[j]>>
                stC == IF c2.hi = c2.lo THEN <<>> ELSE <<st[c]>>
                st2 == SubSeq(st, 1, j-1) \o stO \o stC \o SubSeq(st, c+1, Len(st))
            IN ProcEmph(items2, st2, (j - 1) + Len(stO) + 1, bottom)

\* ---------- link syntax ----------
\* line endings: LF, CR, CRLF
IsEOLb(b) == b \in {LF, 13}
EolEnd(s, i) == IF At(s, i) = 13 /\ At(s, i+1) = LF THEN i + 2 ELSE i + 1     \* index after the line ending that starts at i
RECURSIVE SkipSpT(_, _)
SkipSpT(s, i) == IF At(s, i) \in {SP, 9} THEN SkipSpT(s, i+1) ELSE i
\* white space inside a link tail: spaces, tabs and at most one line ending
SkipSp(s, i) == LET a == SkipSpT(s, i) IN IF IsEOLb(At(s, a)) THEN SkipSpT(s, EolEnd(s, a)) ELSE a

\* destination starting at i (not '<' form in this prototype when '<' is not in the alphabet): returns end index (exclusive) or 0 if invalid; may be empty (end = i)
RECURSIVE DestEnd(_, _, _)
DestEnd(s, i, depth) ==
  LET c == At(s, i) IN
  IF c = -1 \/ c = SP \/ (c >= 0 /\ c < 32) \/ c = 127 THEN (IF depth = 0 THEN i ELSE 0)
  ELSE IF c = BS /\ IsPunct(At(s, i+1)) THEN DestEnd(s, i+2, depth)
  ELSE IF c = LP THEN DestEnd(s, i+1, depth+1)
  ELSE IF c = RP THEN (IF depth = 0 THEN i ELSE DestEnd(s, i+1, depth-1))
  ELSE DestEnd(s, i+1, depth)
\* "<...>" destination: returns end (exclusive, after '>') or 0
RECURSIVE AngleDestEnd(_, _)
AngleDestEnd(s, i) ==
  LET c == At(s, i) IN
  IF c = -1 \/ IsEOLb(c) \/ c = LT THEN 0      \* no line ending (LF or CR) inside <...>
  ELSE IF c = BS /\ IsPunct(At(s, i+1)) THEN AngleDestEnd(s, i+2)
  ELSE IF c = GT THEN i + 1
  ELSE AngleDestEnd(s, i+1)
\* title starting at i with opener DQ / ' / ( : returns end (exclusive) or 0
RECURSIVE TitleEnd(_, _, _, _)
TitleEnd(s, i, closeCh, openCh) ==
  LET c == At(s, i) IN
  IF c = -1 THEN 0
  ELSE IF c = BS /\ IsPunct(At(s, i+1)) THEN TitleEnd(s, i+2, closeCh, openCh)
  ELSE IF c = closeCh THEN i + 1
  ELSE IF c = openCh /\ openCh = LP THEN 0
  ELSE TitleEnd(s, i+1, closeCh, openCh)

\* inline link tail starting at i = index of '(' : [end (exclusive, after ')'; 0: no tail), dlo, dhi (destination text, 0 0: none), tlo, thi (title text)]
NoTail == [end |-> 0, dlo |-> 0, dhi |-> 0, tlo |-> 0, thi |-> 0]
InlineTailRec(s, i) ==
  IF At(s, i) # LP THEN NoTail
  ELSE LET a == SkipSp(s, i+1)
           angle == At(s, a) = LT
           de == IF angle THEN AngleDestEnd(s, a+1) ELSE DestEnd(s, a, 0)
           dlo == IF angle THEN a + 1 ELSE a
           dhi == IF angle THEN de - 1 ELSE de
       IN IF de = 0 THEN NoTail
          ELSE LET b == SkipSp(s, de)
                   tc == At(s, b)
                   hasTitle == tc \in {DQ, 39, LP} /\ b > de
                   te == IF hasTitle THEN TitleEnd(s, b+1, (IF tc = LP THEN RP ELSE tc), tc) ELSE b
                   base == [end |-> 0, dlo |-> (IF de > a THEN dlo ELSE 0), dhi |-> (IF de > a THEN dhi ELSE 0), tlo |-> 0, thi |-> 0]
               IN IF hasTitle /\ te = 0 THEN (IF At(s, b) = RP THEN [base EXCEPT !.end = b + 1] ELSE NoTail)
                  ELSE LET e == SkipSp(s, te) IN
                       IF At(s, e) = RP THEN [base EXCEPT !.end = e + 1, !.tlo = (IF hasTitle THEN b + 1 ELSE 0), !.thi = (IF hasTitle THEN te - 1 ELSE 0)]
                       ELSE NoTail
InlineTail(s, i) == InlineTailRec(s, i).end

\* link label starting at '[' index i: returns end (exclusive, after ']') or 0. content must have a non-space char, no unescaped brackets
RECURSIVE LabelEnd(_, _, _)
LabelEnd(s, i, seen) ==
  LET c == At(s, i) IN
  IF c = -1 \/ c = LB THEN 0
  ELSE IF c = BS /\ IsPunct(At(s, i+1)) THEN LabelEnd(s, i+2, TRUE)
  ELSE IF c = RB THEN (IF seen THEN i + 1 ELSE 0)
  ELSE LabelEnd(s, i+1, seen \/ ~IsWSb(c))

\* reference labels are matched in normalized form: white space (spaces, tabs, line endings) collapsed to one space and trimmed,
\* ASCII letters folded to lower case (the alphabets hold no other letters); defs = the set of normalized labels that are defined
LowerA(b) == IF b >= 65 /\ b <= 90 THEN b + 32 ELSE b
RECURSIVE Collapse(_, _, _)
Collapse(body, i, pendingSp) ==
  IF i > Len(body) THEN <<>>
  ELSE IF IsWSb(body[i]) /\ body[i] # 12 THEN Collapse(body, i + 1, TRUE)
  ELSE (IF pendingSp THEN <<SP>> ELSE <<>>) \o <<LowerA(body[i])>> \o Collapse(body, i + 1, FALSE)
NormLabel(body) == LET c == Collapse(body, 1, FALSE) IN IF c # <<>> /\ c[1] = SP THEN Tail(c) ELSE c
LabelIsDefined(defs, s, lo, hi) == NormLabel(SubSeq(s, lo, hi-1)) \in defs     \* content in [lo,hi)
DefaultDefs == { <<97>> }           \* the single-line alphabets are replayed with "[a]: /u" defined


\* ---------- autolinks and raw HTML (section 6.5, 6.6) ----------
COLON == 58  ATSIGN == 64  DOTC == 46  DASHC == 45  SLASH == 47  QM == 63  EQC == 61  SQ == 39  AMP == 38  SEMI == 59  HASHC == 35
IsAlpha(b) == (b >= 65 /\ b <= 90) \/ (b >= 97 /\ b <= 122)
IsDigit(b) == b >= 48 /\ b <= 57
IsAlnum(b) == IsAlpha(b) \/ IsDigit(b)
RECURSIVE SchemeEnd(_, _)
SchemeEnd(s, i) == IF IsAlnum(At(s, i)) \/ At(s, i) \in {43, DOTC, DASHC} THEN SchemeEnd(s, i+1) ELSE i
RECURSIVE UriEnd(_, _)
UriEnd(s, i) == LET c == At(s, i) IN
                IF c = GT THEN i + 1
                ELSE IF c = -1 \/ c = LT \/ c = SP \/ (c >= 0 /\ c < 32) \/ c = 127 THEN 0
                ELSE UriEnd(s, i+1)
\* absolute-URI autolink starting at '<' index p: end (exclusive) or 0
UriAutolink(s, p) ==
  IF ~IsAlpha(At(s, p+1)) THEN 0
  ELSE LET e == SchemeEnd(s, p+2)
           n == e - (p+1)
       IN IF n >= 2 /\ n <= 32 /\ At(s, e) = COLON THEN UriEnd(s, e+1) ELSE 0
\* e-mail autolink
IsLocal(b) == IsAlnum(b) \/ b \in {DOTC, 33, 35, 36, 37, 38, 39, 42, 43, 47, 61, 63, 94, 95, 96, 123, 124, 125, 126, 45}
RECURSIVE LocalEnd(_, _)
LocalEnd(s, i) == IF IsLocal(At(s, i)) THEN LocalEnd(s, i+1) ELSE i
RECURSIVE LabelRun(_, _)
LabelRun(s, i) == IF IsAlnum(At(s, i)) \/ At(s, i) = DASHC THEN LabelRun(s, i+1) ELSE i
\* domain starting at i: returns end or 0
RECURSIVE DomainEnd(_, _)
DomainEnd(s, i) ==
  LET e == LabelRun(s, i) IN
  IF e = i \/ ~IsAlnum(At(s, i)) \/ ~IsAlnum(At(s, e-1)) \/ e - i > 63 THEN 0
  ELSE IF At(s, e) = DOTC THEN DomainEnd(s, e+1) ELSE e
EmailAutolink(s, p) ==
  LET l == LocalEnd(s, p+1) IN
  IF l = p+1 \/ At(s, l) # ATSIGN THEN 0
  ELSE LET d == DomainEnd(s, l+1) IN IF d > 0 /\ At(s, d) = GT THEN d + 1 ELSE 0

\* whitespace inside tags: spaces, tabs, line endings
RECURSIVE SkipWS(_, _)
SkipWS(s, i) == IF At(s, i) \in {SP, 9, LF, 13} THEN SkipWS(s, i+1) ELSE i
RECURSIVE TagNameEnd(_, _)
TagNameEnd(s, i) == IF IsAlnum(At(s, i)) \/ At(s, i) = DASHC THEN TagNameEnd(s, i+1) ELSE i
RECURSIVE AttrNameEnd(_, _)
AttrNameEnd(s, i) == IF IsAlnum(At(s, i)) \/ At(s, i) \in {USC, DOTC, COLON, DASHC} THEN AttrNameEnd(s, i+1) ELSE i
RECURSIVE UnqEnd(_, _)
UnqEnd(s, i) == LET c == At(s, i) IN IF c = -1 \/ c \in {SP, 9, LF, 13, DQ, SQ, EQC, LT, GT, TICK} THEN i ELSE UnqEnd(s, i+1)
RECURSIVE QuotedEnd(_, _, _)
QuotedEnd(s, i, q) == IF At(s, i) = -1 THEN 0 ELSE IF At(s, i) = q THEN i + 1 ELSE QuotedEnd(s, i+1, q)
\* attributes: i is just after the tag name or previous attribute; returns index of the char after the last attribute (before optional ws / '/' / '>') or 0 on malformed
RECURSIVE Attrs(_, _)
Attrs(s, i) ==
  LET w == SkipWS(s, i)
      c == At(s, w)
  IN IF w = i \/ ~(IsAlpha(c) \/ c \in {USC, COLON}) THEN i          \* no (further) attribute
     ELSE LET ne == AttrNameEnd(s, w+1)
              w2 == SkipWS(s, ne)
          IN IF At(s, w2) # EQC THEN Attrs(s, ne)
             ELSE LET v == SkipWS(s, w2+1)
                      vc == At(s, v)
                      ve == IF vc \in {DQ, SQ} THEN QuotedEnd(s, v+1, vc) ELSE (IF UnqEnd(s, v) = v THEN 0 ELSE UnqEnd(s, v))
                  IN IF ve = 0 THEN 0 ELSE Attrs(s, ve)
OpenTag(s, p) ==
  IF ~IsAlpha(At(s, p+1)) THEN 0
  ELSE LET ne == TagNameEnd(s, p+2)
           a == Attrs(s, ne)
       IN IF a = 0 THEN 0
          ELSE LET w == SkipWS(s, a)
                   w2 == IF At(s, w) = SLASH THEN w + 1 ELSE w
               IN IF At(s, w2) = GT THEN w2 + 1 ELSE 0
CloseTag(s, p) ==
  IF At(s, p+1) # SLASH \/ ~IsAlpha(At(s, p+2)) THEN 0
  ELSE LET w == SkipWS(s, TagNameEnd(s, p+3)) IN IF At(s, w) = GT THEN w + 1 ELSE 0
RECURSIVE FindSeq(_, _, _)
FindSeq(s, i, pat) == IF i + Len(pat) - 1 > Len(s) THEN 0
                      ELSE IF \A k \in 1..Len(pat) : s[i+k-1] = pat[k] THEN i ELSE FindSeq(s, i+1, pat)
Comment(s, p) ==    \* <!-- text -->  (0.30: text does not start with > or ->, does not end with -, no --)
  IF ~(At(s, p+1) = BANG /\ At(s, p+2) = DASHC /\ At(s, p+3) = DASHC) THEN 0
  ELSE IF At(s, p+4) = GT \/ (At(s, p+4) = DASHC /\ At(s, p+5) = GT) THEN 0
  ELSE LET d == FindSeq(s, p+4, <<DASHC, DASHC>>) IN
       IF d = 0 THEN 0 ELSE IF At(s, d+2) = GT THEN d + 3 ELSE 0
ProcInstr(s, p) == IF At(s, p+1) # QM THEN 0 ELSE LET d == FindSeq(s, p+2, <<QM, GT>>) IN IF d = 0 THEN 0 ELSE d + 2
Declaration(s, p) == IF ~(At(s, p+1) = BANG /\ IsAlpha(At(s, p+2))) THEN 0 ELSE LET d == FindSeq(s, p+3, <<GT>>) IN IF d = 0 THEN 0 ELSE d + 1
CDATA(s, p) == IF ~(\A k \in 1..8 : At(s, p+k) = <<33, 91, 67, 68, 65, 84, 65, 91>>[k]) THEN 0
               ELSE LET d == FindSeq(s, p+9, <<RB, RB, GT>>) IN IF d = 0 THEN 0 ELSE d + 3
HtmlTag(s, p) ==
  LET a == OpenTag(s, p) IN IF a > 0 THEN a ELSE
  LET b == CloseTag(s, p) IN IF b > 0 THEN b ELSE
  LET c == Comment(s, p) IN IF c > 0 THEN c ELSE
  LET d == ProcInstr(s, p) IN IF d > 0 THEN d ELSE
  LET e == Declaration(s, p) IN IF e > 0 THEN e ELSE CDATA(s, p)

\* entities: &name; over a small table, &#digits; (1-7), &#xhex; (1-6)
\* HTML5 entity names: the complete table (Entities.tla, generated from the normative list: the 2 125 names that end in a semicolon)
EntityNames == Ent!EntityNameSet
IsHexD(b) == IsDigit(b) \/ (b >= 65 /\ b <= 70) \/ (b >= 97 /\ b <= 102)
RECURSIVE RunWhile(_, _, _)
RunWhile(s, i, kind) == LET c == At(s, i)
                            ok == IF kind = "alnum" THEN IsAlnum(c) ELSE IF kind = "digit" THEN IsDigit(c) ELSE IsHexD(c)
                        IN IF ok THEN RunWhile(s, i+1, kind) ELSE i
Entity(s, p) ==
  IF At(s, p+1) = HASHC THEN
     (IF At(s, p+2) \in {120, 88}
      THEN LET e == RunWhile(s, p+3, "hex") IN IF e - (p+3) >= 1 /\ e - (p+3) <= 6 /\ At(s, e) = SEMI THEN e + 1 ELSE 0
      ELSE LET e == RunWhile(s, p+2, "digit") IN IF e - (p+2) >= 1 /\ e - (p+2) <= 7 /\ At(s, e) = SEMI THEN e + 1 ELSE 0)
  ELSE LET e == RunWhile(s, p+1, "alnum") IN
       IF e > p+1 /\ At(s, e) = SEMI /\ SubSeq(s, p+1, e-1) \in EntityNames THEN e + 1 ELSE 0

\* ---------- main scanner ----------
\* state: [pos, items, st, nid]
TextItem(S, lo, hi) == IF lo = hi THEN S ELSE [S EXCEPT !.items = Append(@, Item(S.nid, lo, hi, "text", <<>>)), !.nid = @ + 1]

\* nearest bracket opener index in stack or 0
RECURSIVE LastBracket(_, _)
LastBracket(st, i) == IF i = 0 THEN 0 ELSE IF st[i].typ \in {LB, BANG} THEN i ELSE LastBracket(st, i-1)

CloseBracket(S, s) ==     \* S.pos is at ']'
  LET p == S.pos
      bi == LastBracket(S.st, Len(S.st))
      literal == [TextItem(S, p, p+1) EXCEPT !.pos = p + 1]
  IN IF bi = 0 THEN literal
     ELSE IF ~S.st[bi].active THEN [literal EXCEPT !.st = Del(S.st, bi, bi)]
     ELSE LET op == S.st[bi]
              pa == PosOf(S.items, op.id)
              oi == S.items[pa]
              isImg == op.typ = BANG
              tail == InlineTailRec(s, p+1)
              inl == tail.end
              \* reference forms
              full == IF At(s, p+1) = LB /\ At(s, p+2) # RB THEN LabelEnd(s, p+2, FALSE) ELSE 0
              fullOK == full > 0 /\ LabelIsDefined(S.defs, s, p+2, full-1)
              collapsed == At(s, p+1) = LB /\ At(s, p+2) = RB
              selfOK == LabelIsDefined(S.defs, s, oi.hi, p) /\ LabelEnd(s, oi.hi, FALSE) = p + 1
              end == IF inl > 0 THEN inl
                     ELSE IF full > 0 THEN (IF fullOK THEN full ELSE 0)
                     ELSE IF collapsed THEN (IF selfOK THEN p + 3 ELSE 0)
                     ELSE IF selfOK THEN p + 1 ELSE 0
              x == IF inl > 0 THEN [ref |-> <<>>, dlo |-> tail.dlo, dhi |-> tail.dhi, tlo |-> tail.tlo, thi |-> tail.thi]
                   ELSE [ref |-> (IF full > 0 THEN NormLabel(SubSeq(s, p+2, full-2)) ELSE NormLabel(SubSeq(s, oi.hi, p-1))), dlo |-> 0, dhi |-> 0, tlo |-> 0, thi |-> 0]
          IN IF end = 0 THEN [literal EXCEPT !.st = Del(S.st, bi, bi)]
             ELSE LET pe == ProcEmph(S.items, S.st, bi + 1, bi)       \* emphasis inside the brackets
                      its == pe.items
                      pa2 == PosOf(its, op.id)
                      node == ItemX(S.nid, oi.lo, end, (IF isImg THEN "image" ELSE "link"), SubSeq(its, pa2+1, Len(its)), x)
                      items2 == Append(SubSeq(its, 1, pa2-1), node)
                      st1 == SubSeq(pe.st, 1, bi-1)
                      st2 == IF isImg THEN st1 ELSE [k \in 1..Len(st1) |-> IF st1[k].typ = LB THEN [st1[k] EXCEPT !.active = FALSE] ELSE st1[k]]
                  IN [S EXCEPT !.pos = end, !.items = items2, !.st = st2, !.nid = S.nid + 1]

\* closing backtick run of exactly n, searching from i; returns start index or 0
RECURSIVE FindTicks(_, _, _)
FindTicks(s, i, n) ==
  IF i > Len(s) THEN 0
  ELSE IF s[i] = TICK THEN LET e == RunEnd(s, i, TICK) IN (IF e - i = n THEN i ELSE FindTicks(s, e, n))
  ELSE FindTicks(s, i+1, n)

RECURSIVE Scan(_, _, _)
Scan(S, s, tstart) ==      \* tstart: start of pending plain text
  LET p == S.pos  c == At(s, p) IN
  IF c = -1 THEN TextItem(S, tstart, p)
  ELSE IF IsEOLb(c) THEN
       \* the last line ending of the content belongs to no node; any other one is a soft break, and the spaces and tabs
       \* that begin the next line are dropped
       LET be == EolEnd(s, p) IN
       IF be > Len(s) THEN TextItem(S, tstart, p)
       ELSE LET S1 == TextItem(S, tstart, p)
                nx == SkipSpT(s, be)
            IN Scan([S1 EXCEPT !.items = Append(@, Item(S1.nid, p, be, "soft", <<>>)), !.nid = @ + 1, !.pos = nx], s, nx)
  ELSE IF c = SP /\ (IsEOLb(At(s, RunEnd(s, p, SP))) \/ At(s, RunEnd(s, p, SP)) = -1) THEN
       \* spaces at the end of a line: two or more before a line ending that is not the last one are a hard break
       \* (the break includes the line ending); otherwise they are dropped
       LET e == RunEnd(s, p, SP)
           S1 == TextItem(S, tstart, p)
       IN IF At(s, e) = -1 \/ EolEnd(s, e) > Len(s) THEN S1
          ELSE IF e - p >= 2
               THEN LET be == EolEnd(s, e)  nx == SkipSpT(s, be)
                    IN Scan([S1 EXCEPT !.items = Append(@, Item(S1.nid, p, be, "hard", <<>>)), !.nid = @ + 1, !.pos = nx], s, nx)
               ELSE Scan([S1 EXCEPT !.pos = e], s, e)
  ELSE IF c = BS /\ IsEOLb(At(s, p+1)) /\ EolEnd(s, p+1) <= Len(s) THEN
       \* backslash hard break (not at the end of the content, where the backslash is literal)
       LET S1 == TextItem(S, tstart, p)
           be == EolEnd(s, p+1)  nx == SkipSpT(s, be)
       IN Scan([S1 EXCEPT !.items = Append(@, Item(S1.nid, p, be, "hard", <<>>)), !.nid = @ + 1, !.pos = nx], s, nx)
  ELSE IF c = BS THEN
       (IF IsPunct(At(s, p+1))
        THEN LET S1 == TextItem(S, tstart, p) IN Scan([TextItem(S1, p+1, p+2) EXCEPT !.pos = p + 2], s, p + 2)
        ELSE Scan([S EXCEPT !.pos = p + 1], s, tstart))
  ELSE IF c = TICK THEN
       LET e == RunEnd(s, p, TICK)
           q == FindTicks(s, e, e - p)
       IN IF q = 0 THEN Scan([S EXCEPT !.pos = e], s, tstart)
          ELSE LET S1 == TextItem(S, tstart, p)
               IN Scan([S1 EXCEPT !.items = Append(@, Item(S1.nid, p, q + (e - p), "code", <<>>)), !.nid = @ + 1, !.pos = q + (e - p)], s, q + (e - p))
  ELSE IF c \in {STAR, USC} THEN
       LET e == RunEnd(s, p, c)
           before == Class(At(s, p-1))
           after == Class(At(s, e))
           lf == after # "ws" /\ (after # "punct" \/ before # "other")
           rf == before # "ws" /\ (before # "punct" \/ after # "other")
           canOpen == IF c = STAR THEN lf ELSE lf /\ (~rf \/ before = "punct")
           canClose == IF c = STAR THEN rf ELSE rf /\ (~lf \/ after = "punct")
           S1 == TextItem(S, tstart, p)
           S2 == [S1 EXCEPT !.items = Append(@, Item(S1.nid, p, e, "text", <<>>)),
                            !.st = Append(@, [id |-> S1.nid, typ |-> c, n |-> e - p, open |-> canOpen, close |-> canClose, active |-> TRUE]),
                            !.nid = @ + 1, !.pos = e]
       IN Scan(S2, s, e)
  ELSE IF c = LB \/ (c = BANG /\ At(s, p+1) = LB) THEN
       LET w == IF c = LB THEN 1 ELSE 2
           S1 == TextItem(S, tstart, p)
           S2 == [S1 EXCEPT !.items = Append(@, Item(S1.nid, p, p + w, "text", <<>>)),
                            !.st = Append(@, [id |-> S1.nid, typ |-> c, n |-> w, open |-> FALSE, close |-> FALSE, active |-> TRUE]),
                            !.nid = @ + 1, !.pos = p + w]
       IN Scan(S2, s, p + w)
  ELSE IF c = RB THEN
       LET S1 == TextItem(S, tstart, p)
           S2 == CloseBracket(S1, s)
       IN Scan(S2, s, S2.pos)
  ELSE IF c = LT THEN
       LET au == LET u == UriAutolink(s, p) IN IF u > 0 THEN u ELSE EmailAutolink(s, p)
           ht == IF au > 0 THEN 0 ELSE HtmlTag(s, p)
           e == IF au > 0 THEN au ELSE ht
       IN IF e = 0 THEN Scan([S EXCEPT !.pos = p + 1], s, tstart)
          ELSE LET S1 == TextItem(S, tstart, p)
               IN Scan([S1 EXCEPT !.items = Append(@, Item(S1.nid, p, e, (IF au > 0 THEN "autolink" ELSE "html"), <<>>)), !.nid = @ + 1, !.pos = e], s, e)
  ELSE IF c = AMP THEN
       LET e == Entity(s, p) IN
       IF e = 0 THEN Scan([S EXCEPT !.pos = p + 1], s, tstart)
       ELSE LET S1 == TextItem(S, tstart, p)
            IN Scan([S1 EXCEPT !.items = Append(@, Item(S1.nid, p, e, "ent", <<>>)), !.nid = @ + 1, !.pos = e], s, e)
  ELSE Scan([S EXCEPT !.pos = p + 1], s, tstart)

ParseInlineWith(s, defs) ==
  LET S == Scan([pos |-> 1, items |-> <<>>, st |-> <<>>, nid |-> 1, defs |-> defs], s, 1)
  IN ProcEmph(S.items, S.st, 1, 0).items
ParseInline(s) == ParseInlineWith(s, DefaultDefs)

\* structural skeleton: nested [k, lo, hi, kids] of non-text nodes (0-based byte offsets, half-open)
RECURSIVE Nodes(_)
Nodes(items) == IF items = <<>> THEN <<>>
                ELSE LET h == Head(items) IN
                     (IF h.k = "text" THEN <<>> ELSE << [k |-> h.k, lo |-> h.lo - 1, hi |-> h.hi - 1, kids |-> Nodes(h.kids)] >>) \o Nodes(Tail(items))

Alphabet ==
  CASE AlphabetName = "brackets" -> {STAR, LB, RB, LP, RP, 97, SP, BANG, BS, TICK}
    [] AlphabetName = "delims" -> {STAR, USC, LB, RB, LP, RP, 97, SP, DQ, BS}
    [] AlphabetName = "angle" -> {STAR, LB, RB, LT, GT, 97, SP, SLASH, BANG, DQ}
    [] AlphabetName = "decl" -> {STAR, LT, GT, 97, SP, BANG, DASHC, QM, LB, RB}
    [] AlphabetName = "entity" -> {AMP, HASHC, 120, 97, 109, 112, SEMI, 49, 71, 116, 108}
    [] AlphabetName = "titles" -> {LB, RB, LP, RP, 97, SP, DQ, SQ, LT, GT}
    [] AlphabetName = "ticks" -> {TICK, BS, 97, SP, STAR, LB, RB, LT, GT, AMP}
VARIABLES str
Init == str = <<>>
Next == Len(str) < MaxLen /\ \E c \in Alphabet : str' = Append(str, c)
W(x) == <<97>> \o x \o <<97>>

\* ---- model invariants
RECURSIVE Flat(_)
Flat(items) == IF items = <<>> THEN <<>> ELSE (IF Head(items).kids = <<>> THEN <<Head(items)>> ELSE Flat(Head(items).kids)) \o Flat(Tail(items))
\* every position belongs to at most one leaf item, leaves in order (C03 at model level)
LeavesOrdered(items) == LET f == Flat(items) IN \A i \in 1..(Len(f) - 1) : f[i].hi <= f[i+1].lo
RECURSIVE NoLinkInLink(_, _)
NoLinkInLink(items, under) == \A i \in 1..Len(items) :
      /\ ~(under /\ items[i].k = "link")
      /\ NoLinkInLink(items[i].kids, under \/ items[i].k = "link")
RECURSIVE Nested(_, _, _)
Nested(items, lo, hi) == \A i \in 1..Len(items) : lo <= items[i].lo /\ items[i].lo < items[i].hi /\ items[i].hi <= hi
                                                   /\ (i > 1 => items[i-1].hi <= items[i].lo) /\ Nested(items[i].kids, items[i].lo, items[i].hi)
ModelSound == LET s == W(str)  it == ParseInline(s) IN LeavesOrdered(it) /\ NoLinkInLink(it, FALSE) /\ Nested(it, 1, Len(s) + 1)

Emit == PrintT(ToJson([s |-> W(str), nodes |-> Nodes(ParseInline(W(str)))]))
=============================================================================
