---------------------------- MODULE Refs ----------------------------
(* Link reference definitions and their resolution (CommonMark 0.30 sections 4.7, 6.3 "matches").

   Labels are sequences of SYMBOLS over an explicit alphabet with an explicit (full) case-fold table:
     "a" "A" "b" "B" "s" "S"      ASCII letters
     "SZ"     U+00DF  folds to s s          "CAPSZ"  U+1E9E  folds to s s
     "IDOT"   U+0130  folds to i COMBDOT    "i" "COMBDOT" (U+0307)
     " " "TAB" "LF"               whitespace that is trimmed and collapsed
     "NBSP"   U+00A0              NOT trimmed, NOT collapsed (not a space, tab or line ending)
     "ERB" "ELB"                  the two-byte sequences \] and \[ (kept as they are)
     "BS"                         a backslash that escapes nothing (followed by white space or a letter): an ordinary character
   Normalize = Fold o Collapse(space|tab|LF runs -> one space) o Trim(space, tab, LF).

   A document is a sequence of items in source order:
     [t |-> "def", label, dest, container]     a definition  [label]: /d<dest> "t<dest>"   (container: 0 none, 1 quote, 2 list item,
                                                  3 quote nested in a quote that the next quoted item continues, 4 list item nested in a list item:
                                                  with a following item of container 1 / 2 the two definitions stand at different depths of ONE root block)
     [t |-> "use", label, style]               a reference   1 full [x][label], 2 collapsed [label][], 3 shortcut [label]
   Map(doc) is built by first-wins Extract over the definitions in source order; Resolve(doc, use) is the
   destination the use must get, or 0 if it must stay plain text.
*)
EXTENDS Integers, Sequences, FiniteSets, TLC, Json

CONSTANTS Family,      \* which family of label variants the generator uses
          MaxItems, MaxDefs, MaxUses,
          File

Labels ==
  CASE Family = "case" -> {<<"a">>, <<"A">>, <<"b">>, <<"a", "b">>, <<"A", "B">>}
    [] Family = "case3" -> {<<"a">>, <<"A">>, <<"b">>}       \* small, for documents with three definitions (a duplicate between two others)
    [] Family = "ws" -> {<<"a", " ", "b">>, <<"A", "TAB", "LF", "b">>, <<" ", "a", " ", " ", "b", "TAB">>, <<"a", "b">>, <<"a", "LF", "b">>}
    [] Family = "sz" -> {<<"SZ">>, <<"s", "s">>, <<"S", "S">>, <<"CAPSZ">>, <<"s">>, <<"S", "s">>}
    [] Family = "idot" -> {<<"IDOT">>, <<"i", "COMBDOT">>, <<"i">>, <<"a">>}
    [] Family = "nbsp" -> {<<"NBSP", "a">>, <<"a">>, <<" ", "a">>, <<"a", "NBSP">>, <<"a", "NBSP", "b">>, <<"a", " ", "b">>}
    [] Family = "esc" -> {<<"a", "ERB">>, <<"A", "ERB">>, <<"ELB", "a">>, <<"a">>}
    [] Family = "bs" -> {<<"a", "BS", " ">>, <<"A", "BS", "TAB">>, <<"a", "BS", "LF">>, <<"a">>, <<"a", "BS", " ", "b">>, <<"a", "BS", "b">>}
    [] OTHER -> {}

WS == {" ", "TAB", "LF"}
FoldSym(c) == CASE c = "A" -> <<"a">> [] c = "B" -> <<"b">> [] c = "S" -> <<"s">>
                [] c = "SZ" -> <<"s", "s">> [] c = "CAPSZ" -> <<"s", "s">>
                [] c = "IDOT" -> <<"i", "COMBDOT">>
                [] OTHER -> <<c>>
RECURSIVE Fold(_)
Fold(l) == IF l = <<>> THEN <<>> ELSE FoldSym(Head(l)) \o Fold(Tail(l))
RECURSIVE Collapse(_)
Collapse(l) == IF l = <<>> THEN <<>>
               ELSE IF Head(l) \in WS THEN
                    (IF Len(l) >= 2 /\ l[2] \in WS THEN Collapse(Tail(l)) ELSE <<" ">> \o Collapse(Tail(l)))
               ELSE <<Head(l)>> \o Collapse(Tail(l))
RECURSIVE TrimL(_), TrimR(_)
TrimL(l) == IF l # <<>> /\ Head(l) \in WS THEN TrimL(Tail(l)) ELSE l
TrimR(l) == IF l # <<>> /\ l[Len(l)] \in WS THEN TrimR(SubSeq(l, 1, Len(l) - 1)) ELSE l
Normalize(l) == Fold(Collapse(TrimR(TrimL(l))))
Matches(l1, l2) == Normalize(l1) = Normalize(l2)

\* ---- documents
Defs(doc) == SelectSeq(doc, LAMBDA it : it.t = "def")
\* first definition (in source order) matching the label, 0 if none
FirstDef(doc, label) ==
  LET ds == Defs(doc)
      S == {k \in 1..Len(ds) : Matches(ds[k].label, label)}
  IN IF S = {} THEN 0 ELSE ds[CHOOSE k \in S : \A j \in S : k <= j].dest
Resolve(doc, use) == FirstDef(doc, use.label)
\* the reference map: normalized key -> destination of the first definition with that key
Keys(doc) == {Normalize(Defs(doc)[k].label) : k \in 1..Len(Defs(doc))}
MapOf(doc) == [k \in Keys(doc) |-> FirstDef(doc, k)]

\* ---- generator
VARIABLES doc, tid, verdict
vars == <<doc, tid, verdict>>
NDefs(d) == Len(Defs(d))
NUses(d) == Len(d) - NDefs(d)
GenInit == doc = <<>> /\ tid = 0 /\ verdict = "ok"
GenNext == /\ Len(doc) < MaxItems
           /\ \/ /\ NDefs(doc) < MaxDefs
                 /\ \E l \in Labels, c \in 0..4 :
                      doc' = Append(doc, [t |-> "def", label |-> l, dest |-> NDefs(doc) + 1, container |-> c, style |-> 0])
              \/ /\ NUses(doc) < MaxUses
                 /\ \E l \in Labels, st \in 1..3 :
                      doc' = Append(doc, [t |-> "use", label |-> l, dest |-> 0, container |-> 0, style |-> st])
           /\ UNCHANGED <<tid, verdict>>

\* model-level invariants
NormIdempotent == \A l \in Labels : Normalize(Normalize(l)) = Normalize(l)
KeysNormalized == \A k \in Keys(doc) : Normalize(k) = k
\* first wins, independent of where the use stands: every use of a key resolves to the same definition
FirstWins == \A i, j \in 1..Len(doc) : doc[i].t = "use" /\ doc[j].t = "use" /\ Matches(doc[i].label, doc[j].label)
                                         => Resolve(doc, doc[i]) = Resolve(doc, doc[j])
MapAgrees == \A i \in 1..Len(doc) : doc[i].t = "use" =>
                (Resolve(doc, doc[i]) # 0 <=> Normalize(doc[i].label) \in DOMAIN MapOf(doc))
                /\ (Resolve(doc, doc[i]) # 0 => MapOf(doc)[Normalize(doc[i].label)] = Resolve(doc, doc[i]))

KeySeq == LET ks == Keys(doc) IN ks
Emit == NUses(doc) >= 1 =>
        PrintT(ToJson([doc |-> doc,
                       res |-> [i \in 1..Len(doc) |-> IF doc[i].t = "use" THEN Resolve(doc, doc[i]) ELSE 0],
                       keyof |-> [i \in 1..Len(doc) |-> Normalize(doc[i].label)],
                       map |-> {<<k, MapOf(doc)[k]>> : k \in Keys(doc)}]))

\* ---- trace validation: the closure clause on arbitrary inputs
\* record: defs = <<keyId, destId, titleId, hasTitle>> in tree order (keyId 0 = empty label, skipped by Extract),
\*         refs = key ids named by reference-style link/image nodes, map / remap = <<keyId, destId, titleId, hasTitle>>
\*         (returned map, and the map re-extracted from the root blocks in order), syms = for keys whose characters
\*         are all inside the fold table: <<keyId, symbol sequence>>; ident = 1: the document defines a label and uses the
\*         identical label text once, nlinks = number of links in the using paragraph (matching is reflexive)
Traces == ndJsonDeserialize(File)
FirstWinsMap(defs) ==
  LET ids == {defs[k][1] : k \in 1..Len(defs)} \ {0}
  IN {LET S == {k \in 1..Len(defs) : defs[k][1] = id} IN defs[CHOOSE k \in S : \A j \in S : k <= j] : id \in ids}
ToSet(q) == {q[k] : k \in 1..Len(q)}
TraceVerdict(t) ==
  IF t.ident = 1 /\ t.nlinks # 1 THEN "label-does-not-match-itself"
  ELSE IF ToSet(t.map) # FirstWinsMap(t.defs) THEN "map-is-not-first-wins-extraction"
  ELSE IF ToSet(t.remap) # ToSet(t.map) THEN "map-differs-from-re-extraction"
  ELSE IF \E k \in 1..Len(t.refs) : t.refs[k] \notin {t.map[j][1] : j \in 1..Len(t.map)} THEN "reference-node-names-missing-key"
  ELSE IF \E k \in 1..Len(t.syms) : Normalize(t.syms[k][2]) # t.syms[k][2] THEN "key-not-normalized"
  ELSE "ok"
TraceInit == (\E k \in 1..Len(Traces) : tid = k /\ verdict = "init") /\ doc = <<>>
TraceNext == verdict = "init" /\ verdict' = TraceVerdict(Traces[tid]) /\ UNCHANGED <<tid, doc>>
Accepted == verdict \in {"init", "ok"}
=============================================================================
