---------------------------- MODULE Conc ----------------------------
(* Concurrent callers of the library (C19: parsing and rendering share no mutable state).

   Each caller c executes one operation (a streaming or in-memory parse of its own input; Render under some
   configuration, Format or Walk of one shared parsed tree).  An operation is a sequence of Gates[c] segments;
   a segment ends at a gate: a point where the library hands control to code it does not own - a Read on the
   caller's reader, a Write on the caller's writer, FilterTag, Pre / Post - or one of the verif-tag yield points
   inside its loops (block-line, inline-byte, rewrite-block, walk-step, extract-node).  A scheduler decides which
   suspended caller passes its gate next.

   State
     pc[c]      gates passed by caller c
     priv[c]    the caller's private state (abstractly: the last segment that wrote it)
     lib        library-level mutable state, if the library had any (abstractly: the last segment that wrote it);
                the design claims there is none: package tables and the shared tree are read-only
     obs[c]     what user code of caller c observed at its gates (read after the caller is resumed)
     sched      the schedule so far;  switches = number of preemptions (CHESS-style bound for the large config)
   Step(c): caller c is resumed at its gate: its user code looks at what the library handed it (a slice that
     aliases the call's scratch buffer), then the library runs the next segment, which writes the scratch state.
   Deviation Hoisted: the scratch state lives in lib instead of priv[c] (a scratch buffer hoisted to renderer or
     package level).  It is FALSE in every property config; the selftest config sets it to show that the
     schedule space explored does expose such a change (TLC finds the violating interleaving).

   Requirement (NonInterference): for every schedule every caller observes exactly what it observes when it
   runs alone (Solo), and lib is never written (FrameCondition); Termination: every schedule completes.

   Generator configs emit every complete schedule: Full (all interleavings of Callers x Gates) and Bounded (at
   most MaxSwitches preemptions, larger Gates).  The harness maps model gates to the real operation's gates
   proportionally and replays each schedule with blocking gates (direction A).  Trace mode validates the
   recorded history of every replay against the solo observations (direction B).
*)
EXTENDS Integers, Sequences, FiniteSets, TLC, Json

CONSTANTS NCallers, Gates, MaxSwitches, Hoisted, File

Callers == 1..NCallers
VARIABLES pc, priv, lib, obs, sched, switches, tid, verdict
vars == <<pc, priv, lib, obs, sched, switches, tid, verdict>>

Solo(c) == [i \in 1..Gates |-> <<c, i>>]            \* segment i of caller c wrote what gate i shows

Init == /\ pc = [c \in Callers |-> 0]
        /\ priv = [c \in Callers |-> <<c, 1>>]         \* every caller has run its first segment up to its first gate
        /\ lib = IF Hoisted THEN <<NCallers, 1>> ELSE <<0, 0>>   \* callers are started in order: the last one wrote last
        /\ obs = [c \in Callers |-> <<>>]
        /\ sched = <<>> /\ switches = 0 /\ tid = 0 /\ verdict = "ok"
Last == IF sched = <<>> THEN 0 ELSE sched[Len(sched)]
Step(c) == /\ pc[c] < Gates
           /\ LET seen == IF Hoisted THEN lib ELSE priv[c]
                  nxt == <<c, pc[c] + 2>>
                  pre == IF Last # 0 /\ Last # c /\ pc[Last] < Gates THEN 1 ELSE 0    \* the previous caller was preempted
              IN /\ switches + pre <= MaxSwitches
                 /\ obs' = [obs EXCEPT ![c] = Append(@, seen)]
                 /\ pc' = [pc EXCEPT ![c] = @ + 1]
                 /\ IF pc[c] + 1 < Gates
                    THEN IF Hoisted THEN lib' = nxt /\ UNCHANGED priv ELSE priv' = [priv EXCEPT ![c] = nxt] /\ UNCHANGED lib
                    ELSE UNCHANGED <<priv, lib>>
                 /\ switches' = switches + pre
           /\ sched' = Append(sched, c)
           /\ UNCHANGED <<tid, verdict>>
Next == \E c \in Callers : Step(c)
Spec == Init /\ [][Next]_vars /\ WF_vars(Next)

Done == \A c \in Callers : pc[c] = Gates
NonInterference == \A c \in Callers : obs[c] = SubSeq(Solo(c), 1, pc[c])
FrameCondition == ~Hoisted => lib = <<0, 0>>
\* a step of c changes nothing of any other caller (action property)
Frame == [][\A c \in Callers : (sched' = Append(sched, c)) => \A d \in Callers \ {c} : priv'[d] = priv[d] /\ obs'[d] = obs[d] /\ pc'[d] = pc[d]]_vars
Terminates == <>Done
Emit == Done => PrintT(ToJson([n |-> NCallers, g |-> Gates, sched |-> sched, switches |-> switches]))

\* ------------------------------------------------------------------ trace validation (direction B)
\* record: solo = per caller the gate observations of its solo run, sfin = per caller the solo result digest,
\*         evs = <<caller, observation>> in schedule order, fin = per caller the result digest in this run,
\*         trees = digest of the shared tree and of every caller's input at the start, at each context switch, at the end
Traces == ndJsonDeserialize(File)
RECURSIVE Replay(_, _, _)
\* cnt[c] = gates of c consumed so far
Replay(t, i, cnt) ==
  IF i > Len(t.evs) THEN
     (IF \E c \in 1..Len(t.solo) : cnt[c] # Len(t.solo[c]) THEN "gates-missing"
      ELSE IF \E c \in 1..Len(t.solo) : t.fin[c] # t.sfin[c] THEN "result-differs-from-solo"
      ELSE "ok")
  ELSE LET c == t.evs[i][1]  k == cnt[c] + 1 IN
       IF c \notin 1..Len(t.solo) THEN "unknown-caller"
       ELSE IF k > Len(t.solo[c]) THEN "gate-not-in-solo-run"
       ELSE IF t.evs[i][2] # t.solo[c][k] THEN "gate-observation-differs-from-solo"
       ELSE Replay(t, i + 1, [cnt EXCEPT ![c] = k])
TraceVerdict(t) ==
  IF \E j \in 2..Len(t.trees) : t.trees[j] # t.trees[1] THEN "shared-tree-or-input-mutated"
  ELSE Replay(t, 1, [c \in 1..Len(t.solo) |-> 0])
TraceInit == /\ \E k \in 1..Len(Traces) : tid = k /\ verdict = "init"
             /\ pc = <<>> /\ priv = <<>> /\ lib = <<0, 0>> /\ obs = <<>> /\ sched = <<>> /\ switches = 0
TraceNext == verdict = "init" /\ verdict' = TraceVerdict(Traces[tid]) /\ UNCHANGED <<tid, pc, priv, lib, obs, sched, switches>>
Accepted == verdict \in {"init", "ok"}
=============================================================================
