---------------------------- MODULE Blocks ----------------------------
(* The CommonMark 0.30 block phase as an executable model ("Phase 1: block structure" of the spec's parsing
   strategy): for each line, Descend over the open blocks (continuation rules), then OpenNew (the block
   starts, in order, closing unmatched blocks when a block opens), lazy continuation, AddText with the
   last-line-blank book-keeping, CloseFrom computing list looseness and trimming trailing blank lines of
   indented code; column/tab arithmetic with partially consumed tabs (cursor = byte index, column, columns
   left of the tab under the cursor); link reference definitions split off the front of a paragraph when it closes
   (label, destination, optional title on the same or a following line; SplitDefs); HTML blocks (the seven start
   conditions with the complete-tag grammar of condition 7, their end conditions).  CR and CRLF line endings (shape sets corecr, corecrlf, coremixed, defscrlf, htmlcr); a paragraph that consists of definitions only and is followed by a setext
   underline is left to the shapes' discretion (the reference implementations disagree on "---" there).

   ParseDoc(bytes) yields the block skeleton with byte offsets; Emit prints it for every document over a
   line-shape alphabet and the harness compares it with the real tree (kinds, spans, heading levels, item
   numbers, tightness, literal code content) - an EXACT oracle for block structure (direction A).
   Lemmas checked by TLC on the same documents: QuoteLemma, ListLemma (C09), ReparseLemma (C16),
   FinalNewlineLemma (C14).
*)
EXTENDS Integers, Sequences, FiniteSets, TLC, Json

LF == 10  SP == 32  GT == 62  DASH == 45  STAR == 42  PLUS == 43  HASH == 35  TICK == 96  TILDE == 126  EQ == 61  DOT == 46  RP == 41  USC == 95

At(L, i) == IF i >= 0 /\ i < Len(L) THEN L[i+1] ELSE -1        \* 0-based
TAB == 9
\* cursor: [i (byte index, 0-based), col (column), rem (columns left of a partially consumed tab at i, else 0)]
Cur(i, col, rem) == [i |-> i, col |-> col, rem |-> rem]
TabW(col) == 4 - (col % 4)
WidthAt(L, c) == IF At(L, c.i) = TAB THEN (IF c.rem > 0 THEN c.rem ELSE TabW(c.col)) ELSE IF At(L, c.i) = SP THEN 1 ELSE 0
RECURSIVE IndentCols(_, _)
IndentCols(L, c) == LET w == WidthAt(L, c) IN IF w = 0 THEN 0 ELSE w + IndentCols(L, Cur(c.i + 1, c.col + w, 0))
RECURSIVE Consume(_, _, _)
Consume(L, c, n) == IF n <= 0 THEN c
                    ELSE LET w == WidthAt(L, c) IN
                         IF w = 0 THEN c
                         ELSE IF n >= w THEN Consume(L, Cur(c.i + 1, c.col + w, 0), n - w)
                         ELSE Cur(c.i, c.col + n, w - n)
SkipWS(L, c) == Consume(L, c, IndentCols(L, c))
Adv(c, k) == Cur(c.i + k, c.col + k, 0)     \* advance over k single-column bytes
RestBlank(L, i) == \A k \in i..(Len(L)-1) : At(L, k) \in {SP, LF, 13, 9}
IsDigit(b) == b >= 48 /\ b <= 57
RECURSIVE RunLen(_, _, _)
RunLen(L, i, c) == IF At(L, i) = c THEN 1 + RunLen(L, i+1, c) ELSE 0

\* ---------- line recognisers (declarative, on the text after indentation, starting at i) ----------
ThematicBreak(L, i) ==
  LET c == At(L, i) IN
  /\ c \in {DASH, STAR, USC}
  /\ \A k \in i..(Len(L)-1) : At(L, k) \in {c, SP, LF, 9, 13}
  /\ Cardinality({k \in i..(Len(L)-1) : At(L, k) = c}) >= 3
AtxLevel(L, i) == LET n == RunLen(L, i, HASH) IN IF n >= 1 /\ n <= 6 /\ At(L, i+n) \in {SP, LF, 9, 13, -1} THEN n ELSE 0
SetextLevel(L, i) ==
  LET c == At(L, i)
      n == RunLen(L, i, c)
  IN IF c \in {EQ, DASH} /\ n >= 1 /\ RestBlank(L, i+n) THEN (IF c = EQ THEN 1 ELSE 2) ELSE 0
\* fence: [ch, n, hasInfo]
FenceAt(L, i) ==
  LET c == At(L, i)
      n == IF c \in {TICK, TILDE} THEN RunLen(L, i, c) ELSE 0
      info == ~RestBlank(L, i+n)
      bad == c = TICK /\ \E k \in (i+n)..(Len(L)-1) : At(L, k) = TICK
  IN IF n >= 3 /\ ~bad THEN [ch |-> c, n |-> n, info |-> info] ELSE [ch |-> 0, n |-> 0, info |-> FALSE]
\* list marker: [w (width incl. delimiter), delim, num, ordered]
RECURSIVE DigitsLen(_, _)
DigitsLen(L, i) == IF IsDigit(At(L, i)) THEN 1 + DigitsLen(L, i+1) ELSE 0
RECURSIVE NumVal(_, _, _)
NumVal(L, i, n) == IF n = 0 THEN 0 ELSE NumVal(L, i, n-1) * 10 + (At(L, i+n-1) - 48)
MarkerAt(L, i) ==
  LET c == At(L, i)
      d == DigitsLen(L, i)
      none == [w |-> 0, delim |-> 0, num |-> -1, ord |-> FALSE]
  IN IF c \in {DASH, PLUS, STAR} THEN (IF At(L, i+1) \in {SP, LF, 9, 13, -1} THEN [w |-> 1, delim |-> c, num |-> -1, ord |-> FALSE] ELSE none)
     ELSE IF d >= 1 /\ d <= 9 /\ At(L, i+d) \in {DOT, RP} /\ At(L, i+d+1) \in {SP, LF, 9, 13, -1}
          THEN [w |-> d+1, delim |-> At(L, i+d), num |-> NumVal(L, i, d), ord |-> TRUE] ELSE none

\* ---------- tree under construction ----------
\* frame / node: [k, s, e, a, c, t, ind, lb, kids, txt]
\*   k kind; s,e byte offsets (e=-1 while open); a level/number/fence length; c delimiter or fence char; t tight;
\*   ind content indent (item) / fence indent; lb last-line-blank; kids completed children; txt line spans of leaf blocks
\*   b: the content bytes of a definition's label / destination / title (container prefixes of inner lines left out)
Mk(k, s) == [k |-> k, s |-> s, e |-> -1, a |-> 0, c |-> 0, t |-> TRUE, ind |-> 0, lb |-> FALSE, kids |-> <<>>, txt |-> <<>>, b |-> <<>>]
IsContainer(k) == k \in {"doc", "quote", "list", "item"}
AcceptsLines(k) == k \in {"para", "fcode", "icode", "html"}
CanContain(pk, ck) == CASE pk = "list" -> ck = "item" [] pk \in {"doc", "quote", "item"} -> ck # "item" [] OTHER -> FALSE

\* ends-with-blank-line, as in the reference implementations
RECURSIVE EndsBlank(_)
EndsBlank(n) == IF n.lb THEN TRUE
                ELSE IF n.k \in {"list", "item"} /\ n.kids # <<>> THEN EndsBlank(n.kids[Len(n.kids)]) ELSE FALSE
ListLoose(items) ==
  \E i \in 1..Len(items) :
     \/ i < Len(items) /\ EndsBlank(items[i])
     \/ \E j \in 1..Len(items[i].kids) : (i < Len(items) \/ j < Len(items[i].kids)) /\ EndsBlank(items[i].kids[j])

\* strip trailing blank lines of an indented code block
RECURSIVE TrimBlankTxt(_, _)
TrimBlankTxt(txt, src) == IF txt = <<>> THEN txt
                          ELSE LET sp == txt[Len(txt)] IN
                               IF \A k \in sp[1]..(sp[2]-1) : src[k+1] \in {SP, LF, 13, 9} THEN TrimBlankTxt(SubSeq(txt, 1, Len(txt)-1), src) ELSE txt

\* ---------- link reference definitions (section 4.7): split off the front of a paragraph when it closes ----------
\* Content of a paragraph: the bytes of its line spans, each with its source offset (container prefixes are not part of it)
RECURSIVE ContentOf(_, _)
ContentOf(txt, src) == IF txt = <<>> THEN <<>>
                       ELSE LET sp == Head(txt) IN [k \in 1..(sp[2] - sp[1]) |-> <<src[sp[1] + k], sp[1] + k - 1>>] \o ContentOf(Tail(txt), src)
LBR == 91  RBR == 93  COLON == 58  BSL == 92  LTC == 60  DQ == 34  SQ == 39  LPAR == 40  RPAR == 41
DAt(B, i) == IF i >= 1 /\ i <= Len(B) THEN B[i] ELSE -1
DIsPunct(b) == (b >= 33 /\ b <= 47) \/ (b >= 58 /\ b <= 64) \/ (b >= 91 /\ b <= 96) \/ (b >= 123 /\ b <= 126)
DIsWS(b) == b \in {SP, TAB, LF, 13}
RECURSIVE DSkipSpTab(_, _)
DSkipSpTab(B, i) == IF DAt(B, i) \in {SP, TAB} THEN DSkipSpTab(B, i + 1) ELSE i
\* spaces, tabs and at most one line ending
AfterEOL(B, a) == IF DAt(B, a) = LF THEN a + 1 ELSE IF DAt(B, a) = 13 THEN (IF DAt(B, a + 1) = LF THEN a + 2 ELSE a + 1) ELSE a
DSkipLinkSpace(B, i) == LET a == DSkipSpTab(B, i) IN IF DAt(B, a) \in {LF, 13} THEN DSkipSpTab(B, AfterEOL(B, a)) ELSE a
\* label content starting at i (after '['): index after ']' or 0; needs a non-blank character, no unescaped brackets
RECURSIVE DLabelEnd(_, _, _)
DLabelEnd(B, i, seen) ==
  LET c == DAt(B, i) IN
  IF c = -1 \/ c = LBR THEN 0
  ELSE IF c = BSL /\ DIsPunct(DAt(B, i + 1)) THEN DLabelEnd(B, i + 2, TRUE)
  ELSE IF c = RBR THEN (IF seen THEN i + 1 ELSE 0)
  ELSE DLabelEnd(B, i + 1, seen \/ ~DIsWS(c))
\* destination not in angle brackets: ends at a space or control character; parentheses balanced or escaped; index after it or 0
RECURSIVE DDestEnd(_, _, _)
DDestEnd(B, i, depth) ==
  LET c == DAt(B, i) IN
  IF c = -1 \/ c = SP \/ (c >= 0 /\ c < 32) \/ c = 127 THEN (IF depth = 0 THEN i ELSE 0)
  ELSE IF c = BSL /\ DIsPunct(DAt(B, i + 1)) THEN DDestEnd(B, i + 2, depth)
  ELSE IF c = LPAR THEN DDestEnd(B, i + 1, depth + 1)
  ELSE IF c = RPAR THEN (IF depth = 0 THEN 0 ELSE DDestEnd(B, i + 1, depth - 1))
  ELSE DDestEnd(B, i + 1, depth)
RECURSIVE DAngleEnd(_, _)
DAngleEnd(B, i) ==
  LET c == DAt(B, i) IN
  IF c = -1 \/ c = LF \/ c = 13 \/ c = LTC THEN 0
  ELSE IF c = BSL /\ DIsPunct(DAt(B, i + 1)) THEN DAngleEnd(B, i + 2)
  ELSE IF c = GT THEN i + 1
  ELSE DAngleEnd(B, i + 1)
RECURSIVE DTitleEnd(_, _, _, _)
DTitleEnd(B, i, closeCh, openCh) ==
  LET c == DAt(B, i) IN
  IF c = -1 THEN 0
  ELSE IF c = BSL /\ DIsPunct(DAt(B, i + 1)) THEN DTitleEnd(B, i + 2, closeCh, openCh)
  ELSE IF c = closeCh THEN i + 1
  ELSE IF c = openCh /\ openCh = LPAR THEN 0
  ELSE DTitleEnd(B, i + 1, closeCh, openCh)
\* one definition starting at index p (a '['): [ok, llo, lhi (label content), dlo, dhi, tlo, thi (0: no title), next (first index after its last line)]
NoDef == [ok |-> FALSE, llo |-> 0, lhi |-> 0, dlo |-> 0, dhi |-> 0, tlo |-> 0, thi |-> 0, next |-> 0]
ParseDef(B, p) ==
  IF DAt(B, p) # LBR THEN NoDef
  ELSE LET le == DLabelEnd(B, p + 1, FALSE) IN
       IF le = 0 \/ DAt(B, le) # COLON THEN NoDef
       ELSE LET a == DSkipLinkSpace(B, le + 1)
                de == IF DAt(B, a) = LTC THEN DAngleEnd(B, a + 1) ELSE (LET e == DDestEnd(B, a, 0) IN IF e > a THEN e ELSE 0)
            IN IF a > Len(B) \/ de = 0 THEN NoDef
               ELSE LET b == DSkipSpTab(B, de)
                        atEOL == DAt(B, b) \in {LF, 13, -1}
                        destNext == AfterEOL(B, b)
                        t0 == DSkipLinkSpace(B, de)
                        tc == DAt(B, t0)
                        opener == tc \in {DQ, SQ, LPAR} /\ t0 > de
                        te == IF opener THEN DTitleEnd(B, t0 + 1, (IF tc = LPAR THEN RPAR ELSE tc), tc) ELSE 0
                        c == IF te > 0 THEN DSkipSpTab(B, te) ELSE 0
                        titleOK == te > 0 /\ DAt(B, c) \in {LF, 13, -1}
                        base == [ok |-> TRUE, llo |-> p + 1, lhi |-> le - 1, dlo |-> a, dhi |-> de, tlo |-> 0, thi |-> 0, next |-> destNext]
                    IN IF titleOK THEN [base EXCEPT !.tlo = t0, !.thi = te, !.next = AfterEOL(B, c)]
                       ELSE IF atEOL THEN base
                       ELSE NoDef
\* Named deviation (the implementation's documented choice, see known_findings.json F-C06-indented-following-definition):
\* a definition that follows another one is recognised only behind at most three spaces; CommonMark strips any
\* indentation of a paragraph continuation line, but such a block would re-parse as indented code on its own (C16).
DefIndentLimit == TRUE
RECURSIVE SkipSpaces3(_, _, _)
SkipSpaces3(B, i, n) == IF n < 3 /\ DAt(B, i) = SP THEN SkipSpaces3(B, i + 1, n + 1) ELSE i
\* all leading definitions: [defs (sequence of <<start index, def>>), rest (index of the first content byte that is not part of a definition)]
RECURSIVE ParseDefs(_, _, _)
ParseDefs(B, p, acc) ==
  LET q == IF DefIndentLimit /\ p > 1 THEN SkipSpaces3(B, p, 0) ELSE DSkipSpTab(B, p)   \* the lines of a paragraph are stripped of leading white space
      d == ParseDef(B, q)
  IN IF p > Len(B) \/ ~d.ok THEN [defs |-> acc, rest |-> p]
     ELSE ParseDefs(B, d.next, Append(acc, <<q, d>>))
\* source offset of content index i (the offset just after the last byte for i = Len + 1)
OffOf(C, i) == IF i <= Len(C) THEN C[i][2] ELSE C[Len(C)][2] + 1
EndOf(C, i) == C[i - 1][2] + 1        \* source offset just after content index i - 1
DefNode(C, q, d) ==
  LET leaf(k, lo, hi) == [Mk(k, OffOf(C, lo)) EXCEPT !.e = EndOf(C, hi), !.b = [i \in 1..(hi - lo) |-> C[lo + i - 1][1]]]
  IN [Mk("refdef", OffOf(C, q)) EXCEPT !.e = EndOf(C, d.next),
        !.kids = <<leaf("label", d.llo, d.lhi), leaf("dest", d.dlo, d.dhi)>> \o (IF d.thi > 0 THEN <<leaf("title", d.tlo, d.thi)>> ELSE <<>>)]
\* a closed paragraph (or setext heading) as the sequence of nodes it stands for: its definitions, then what is left of it
SplitDefs(n, src) ==
  LET C == ContentOf(n.txt, src)
      B == [i \in 1..Len(C) |-> C[i][1]]
      r == ParseDefs(B, 1, <<>>)
      defNodes == [i \in 1..Len(r.defs) |-> DefNode(C, r.defs[i][1], r.defs[i][2])]
  IN IF n.txt = <<>> \/ r.defs = <<>> THEN <<n>>
     ELSE IF r.rest > Len(B) THEN defNodes
     ELSE defNodes \o << [n EXCEPT !.s = OffOf(C, r.rest)] >>
\* does anything but definitions remain of the paragraph frame?
HasContentAfterDefs(fr, src) ==
  LET C == ContentOf(fr.txt, src)
      B == [i \in 1..Len(C) |-> C[i][1]]
  IN ParseDefs(B, 1, <<>>).rest <= Len(B)

Finalize(fr, end, src) ==
  LET n0 == [fr EXCEPT !.e = end] IN
  IF fr.k = "list" THEN LET loose == ListLoose(fr.kids) IN [n0 EXCEPT !.t = ~loose, !.kids = [i \in 1..Len(fr.kids) |-> [fr.kids[i] EXCEPT !.t = ~loose]]]
  ELSE IF fr.k = "icode" THEN [n0 EXCEPT !.txt = TrimBlankTxt(fr.txt, src)]
  ELSE n0

\* close frames d..Len(st) (innermost first) at offset end
RECURSIVE CloseFrom(_, _, _, _)
CloseFrom(st, d, end, src) ==
  IF Len(st) < d THEN st
  ELSE LET n == Len(st)
           node == Finalize(st[n], end, src)
           rest == SubSeq(st, 1, n-1)
           nodes == IF node.k \in {"para", "setext"} THEN SplitDefs(node, src) ELSE <<node>>
       IN CloseFrom([rest EXCEPT ![n-1].kids = @ \o nodes], d, end, src)

\* ---------- HTML blocks (section 4.6): seven start conditions, their end conditions ----------
LTB == 60  SLASH == 47  BANGC == 33  QMARK == 63
LowerB(b) == IF b >= 65 /\ b <= 90 THEN b + 32 ELSE b
IsAlphaB(b) == (b >= 65 /\ b <= 90) \/ (b >= 97 /\ b <= 122)
IsAlnumB(b) == IsAlphaB(b) \/ IsDigit(b)
RECURSIVE TagNameEnd(_, _)
TagNameEnd(L, i) == IF IsAlnumB(At(L, i)) \/ At(L, i) = DASH THEN TagNameEnd(L, i + 1) ELSE i      \* 0-based index after the name
LowerName(L, i, e) == [k \in 1..(e - i) |-> LowerB(At(L, i + k - 1))]
BlockTagNames == { <<97, 100, 100, 114, 101, 115, 115>>, <<97, 114, 116, 105, 99, 108, 101>>, <<97, 115, 105, 100, 101>>, <<98, 97, 115, 101>>, <<98, 97, 115, 101, 102, 111, 110, 116>>, <<98, 108, 111, 99, 107, 113, 117, 111, 116, 101>>, <<98, 111, 100, 121>>, <<99, 97, 112, 116, 105, 111, 110>>, <<99, 101, 110, 116, 101, 114>>, <<99, 111, 108>>, <<99, 111, 108, 103, 114, 111, 117, 112>>, <<100, 100>>, <<100, 101, 116, 97, 105, 108, 115>>, <<100, 105, 97, 108, 111, 103>>, <<100, 105, 114>>, <<100, 105, 118>>, <<100, 108>>, <<100, 116>>, <<102, 105, 101, 108, 100, 115, 101, 116>>, <<102, 105, 103, 99, 97, 112, 116, 105, 111, 110>>, <<102, 105, 103, 117, 114, 101>>, <<102, 111, 111, 116, 101, 114>>, <<102, 111, 114, 109>>, <<102, 114, 97, 109, 101>>, <<102, 114, 97, 109, 101, 115, 101, 116>>, <<104, 49>>, <<104, 50>>, <<104, 51>>, <<104, 52>>, <<104, 53>>, <<104, 54>>, <<104, 101, 97, 100>>, <<104, 101, 97, 100, 101, 114>>, <<104, 114>>, <<104, 116, 109, 108>>, <<105, 102, 114, 97, 109, 101>>, <<108, 101, 103, 101, 110, 100>>, <<108, 105>>, <<108, 105, 110, 107>>, <<109, 97, 105, 110>>, <<109, 101, 110, 117>>, <<109, 101, 110, 117, 105, 116, 101, 109>>, <<110, 97, 118>>, <<110, 111, 102, 114, 97, 109, 101, 115>>, <<111, 108>>, <<111, 112, 116, 103, 114, 111, 117, 112>>, <<111, 112, 116, 105, 111, 110>>, <<112>>, <<112, 97, 114, 97, 109>>, <<115, 101, 99, 116, 105, 111, 110>>, <<115, 111, 117, 114, 99, 101>>, <<115, 117, 109, 109, 97, 114, 121>>, <<116, 97, 98, 108, 101>>, <<116, 98, 111, 100, 121>>, <<116, 100>>, <<116, 102, 111, 111, 116>>, <<116, 104>>, <<116, 104, 101, 97, 100>>, <<116, 105, 116, 108, 101>>, <<116, 114>>, <<116, 114, 97, 99, 107>>, <<117, 108>> }
RawTextNames == { <<112, 114, 101>>, <<115, 99, 114, 105, 112, 116>>, <<115, 116, 121, 108, 101>>, <<116, 101, 120, 116, 97, 114, 101, 97>> }   \* pre script style textarea
HasAt(L, i, pat) == \A k \in 1..Len(pat) : At(L, i + k - 1) = pat[k]
ContainsFrom(L, i, pat) == \E k \in i..(Len(L) - Len(pat)) : HasAt(L, k, pat)
ContainsCI(L, i, pat) == \E k \in i..(Len(L) - Len(pat)) : \A q \in 1..Len(pat) : LowerB(At(L, k + q - 1)) = pat[q]
\* a complete open or closing tag starting at i ('<'): 0-based index after its '>' or -1 (attributes: name [= value])
RECURSIVE SkipWSB(_, _), AttrNameEnd(_, _), UnquotedEnd(_, _), QuotedEnd(_, _, _), AttrsEnd(_, _)
SkipWSB(L, i) == IF At(L, i) \in {SP, TAB, LF, 13} THEN SkipWSB(L, i + 1) ELSE i
AttrNameEnd(L, i) == IF IsAlnumB(At(L, i)) \/ At(L, i) \in {USC, DOT, 58, DASH} THEN AttrNameEnd(L, i + 1) ELSE i
UnquotedEnd(L, i) == IF At(L, i) \in {-1, SP, TAB, LF, 13, 34, 39, EQ, LTB, GT, TICK} THEN i ELSE UnquotedEnd(L, i + 1)
QuotedEnd(L, i, q) == IF At(L, i) = -1 THEN -1 ELSE IF At(L, i) = q THEN i + 1 ELSE QuotedEnd(L, i + 1, q)
\* after the tag name: attributes, optional white space, optional '/', '>' : index after '>' or -1
AttrsEnd(L, i) ==
  LET w == SkipWSB(L, i) IN
  IF At(L, w) = GT THEN w + 1
  ELSE IF At(L, w) = SLASH THEN (IF At(L, w + 1) = GT THEN w + 2 ELSE -1)
  ELSE IF w = i THEN -1                                        \* an attribute must be preceded by white space
  ELSE IF ~(IsAlphaB(At(L, w)) \/ At(L, w) \in {USC, 58}) THEN -1
  ELSE LET ne == AttrNameEnd(L, w + 1)
           v == SkipWSB(L, ne)
       IN IF At(L, v) # EQ THEN AttrsEnd(L, ne)
          ELSE LET x == SkipWSB(L, v + 1)
                   ve == IF At(L, x) \in {34, 39} THEN QuotedEnd(L, x + 1, At(L, x))
                         ELSE LET u == UnquotedEnd(L, x) IN IF u > x THEN u ELSE -1
               IN IF ve = -1 THEN -1 ELSE AttrsEnd(L, ve)
CompleteTagEnd(L, i) ==
  IF At(L, i) # LTB THEN -1
  ELSE IF At(L, i + 1) = SLASH THEN
       (IF ~IsAlphaB(At(L, i + 2)) THEN -1
        ELSE LET w == SkipWSB(L, TagNameEnd(L, i + 2)) IN IF At(L, w) = GT THEN w + 1 ELSE -1)
  ELSE IF ~IsAlphaB(At(L, i + 1)) THEN -1
  ELSE AttrsEnd(L, TagNameEnd(L, i + 1))
\* start condition met by the line whose first non-space byte is at i (0 = none)
HtmlStart(L, i) ==
  IF At(L, i) # LTB THEN 0
  ELSE LET closing == At(L, i + 1) = SLASH
           ns == IF closing THEN i + 2 ELSE i + 1
           ne == TagNameEnd(L, ns)
           name == IF IsAlphaB(At(L, ns)) THEN LowerName(L, ns, ne) ELSE <<>>
           after == At(L, ne)
       IN IF ~closing /\ name \in RawTextNames /\ after \in {SP, TAB, GT, LF, 13, -1} THEN 1
          ELSE IF HasAt(L, i, <<LTB, BANGC, DASH, DASH>>) THEN 2
          ELSE IF HasAt(L, i, <<LTB, QMARK>>) THEN 3
          ELSE IF At(L, i + 1) = BANGC /\ IsAlphaB(At(L, i + 2)) THEN 4
          ELSE IF HasAt(L, i, <<LTB, BANGC, 91, 67, 68, 65, 84, 65, 91>>) THEN 5
          ELSE IF name \in BlockTagNames /\ (after \in {SP, TAB, GT, LF, 13, -1} \/ (after = SLASH /\ At(L, ne + 1) = GT)) THEN 6
          ELSE LET te == CompleteTagEnd(L, i) IN
               \* the spec text excludes the raw-text names from condition 7; for OPEN tags condition 1 has taken them already, and for
               \* closing tags ("</pre>" alone on a line) both reference implementations, cmark and commonmark.js, apply condition 7
               IF te # -1 /\ (closing \/ name \notin RawTextNames) /\ RestBlank(L, te) THEN 7 ELSE 0
\* end condition of an open HTML block met by the text of the line from i on
HtmlEnds(cond, L, i) ==
  CASE cond = 1 -> \E n \in RawTextNames : ContainsCI(L, i, <<LTB, SLASH>> \o n \o <<GT>>)
    [] cond = 2 -> ContainsFrom(L, i, <<DASH, DASH, GT>>)
    [] cond = 3 -> ContainsFrom(L, i, <<QMARK, GT>>)
    [] cond = 4 -> ContainsFrom(L, i, <<GT>>)
    [] cond = 5 -> ContainsFrom(L, i, <<93, 93, GT>>)
    [] OTHER -> FALSE

\* ---------- phase 1: match open blocks ----------
\* returns [m (number of matched frames), c (cursor), term (line consumed by a closing fence), st]
RECURSIVE Descend(_, _, _, _, _, _)
Descend(st, d, L, c, ls, src) ==
  IF d > Len(st) THEN [m |-> Len(st), c |-> c, term |-> FALSE, st |-> st]
  ELSE LET fr == st[d]
           ind == IndentCols(L, c)
           j == SkipWS(L, c)
           fail == [m |-> d-1, c |-> c, term |-> FALSE, st |-> st]
       IN
       CASE fr.k = "quote" ->
              IF ind <= 3 /\ At(L, j.i) = GT
              THEN LET a == Adv(j, 1) IN Descend(st, d+1, L, (IF IndentCols(L, a) > 0 THEN Consume(L, a, 1) ELSE a), ls, src)
              ELSE fail
         [] fr.k = "list" -> Descend(st, d+1, L, c, ls, src)
         [] fr.k = "item" ->
              IF RestBlank(L, c.i) THEN (IF Len(fr.kids) > 1 \/ d < Len(st) THEN Descend(st, d+1, L, j, ls, src) ELSE fail)
              ELSE IF ind >= fr.ind THEN Descend(st, d+1, L, Consume(L, c, fr.ind), ls, src) ELSE fail
         [] fr.k = "fcode" ->
              LET f == FenceAt(L, j.i) IN
              IF ind <= 3 /\ f.n > 0 /\ ~f.info /\ f.ch = fr.c /\ f.n >= fr.a
              THEN [m |-> d-1, c |-> Cur(Len(L), 0, 0), term |-> TRUE, st |-> CloseFrom(st, d, ls + Len(L), src)]
              ELSE Descend(st, d+1, L, Consume(L, c, (IF ind < fr.ind THEN ind ELSE fr.ind)), ls, src)
         [] fr.k = "icode" ->
              IF ind >= 4 THEN Descend(st, d+1, L, Consume(L, c, 4), ls, src)
              ELSE IF RestBlank(L, c.i) THEN Descend(st, d+1, L, j, ls, src) ELSE fail
         [] fr.k = "para" -> IF RestBlank(L, c.i) THEN fail ELSE Descend(st, d+1, L, c, ls, src)
         [] fr.k = "html" -> IF fr.a \in {6, 7} /\ RestBlank(L, c.i) THEN fail ELSE Descend(st, d+1, L, c, ls, src)
         [] OTHER -> fail

\* ---------- phase 2: open new blocks ----------
RECURSIVE OpenBlock(_, _, _, _)
OpenBlock(st, fr, ls, src) ==
  IF CanContain(st[Len(st)].k, fr.k) THEN Append(st, fr)
  ELSE OpenBlock(CloseFrom(st, Len(st), ls, src), fr, ls, src)

RECURSIVE OpenNew(_, _, _, _, _, _)
OpenNew(st, m, L, c, ls, src) ==
  LET ck == st[m].k
      ind == IndentCols(L, c)
      j == SkipWS(L, c)
      tipPara == st[Len(st)].k = "para"
      cut == CloseFrom(st, m+1, ls, src)
      EOLc == Cur(Len(L), 0, 0)
  IN
  IF ~(ck = "para" \/ IsContainer(ck)) THEN [st |-> st, m |-> m, c |-> c, text |-> TRUE]
  ELSE IF ind <= 3 /\ At(L, j.i) = GT THEN
       LET st2 == OpenBlock(cut, Mk("quote", ls + j.i), ls, src)
           a == Adv(j, 1)
       IN OpenNew(st2, Len(st2), L, (IF IndentCols(L, a) > 0 THEN Consume(L, a, 1) ELSE a), ls, src)
  ELSE IF ind <= 3 /\ AtxLevel(L, j.i) > 0 THEN
       LET st2 == OpenBlock(cut, [Mk("atx", ls + j.i) EXCEPT !.a = AtxLevel(L, j.i)], ls, src)
       IN [st |-> CloseFrom(st2, Len(st2), ls + Len(L), src), m |-> Len(st2) - 1, c |-> EOLc, text |-> FALSE]
  ELSE IF ind <= 3 /\ FenceAt(L, j.i).n > 0 THEN
       LET f == FenceAt(L, j.i)
           st2 == OpenBlock(cut, [Mk("fcode", ls + j.i) EXCEPT !.a = f.n, !.c = f.ch, !.ind = ind], ls, src)
       IN [st |-> st2, m |-> Len(st2), c |-> EOLc, text |-> FALSE]
  ELSE IF ind <= 3 /\ HtmlStart(L, j.i) > 0 /\ (HtmlStart(L, j.i) < 7 \/ ~tipPara) THEN
       LET st2 == OpenBlock(cut, [Mk("html", ls + c.i) EXCEPT !.a = HtmlStart(L, j.i)], ls, src)
       IN [st |-> st2, m |-> Len(st2), c |-> c, text |-> TRUE]
  ELSE IF ck = "para" /\ ind <= 3 /\ SetextLevel(L, j.i) > 0 /\ HasContentAfterDefs(st[m], src) THEN
       LET st2 == [st EXCEPT ![m].k = "setext", ![m].a = SetextLevel(L, j.i)]
       IN [st |-> CloseFrom(st2, m, ls + Len(L), src), m |-> m - 1, c |-> EOLc, text |-> FALSE]
  ELSE IF ind <= 3 /\ ThematicBreak(L, j.i) THEN
       LET st2 == OpenBlock(cut, Mk("hr", ls + j.i), ls, src)
       IN [st |-> CloseFrom(st2, Len(st2), ls + Len(L), src), m |-> Len(st2) - 1, c |-> EOLc, text |-> FALSE]
  ELSE IF ind <= 3 /\ MarkerAt(L, j.i).w > 0
          /\ ~(ck = "para" /\ (MarkerAt(L, j.i).ord /\ MarkerAt(L, j.i).num # 1))
          /\ ~(ck = "para" /\ RestBlank(L, j.i + MarkerAt(L, j.i).w)) THEN
       LET mk == MarkerAt(L, j.i)
           after == Adv(j, mk.w)
           pad0 == IndentCols(L, after)
           blankRest == RestBlank(L, after.i)
           pad == IF blankRest THEN 1 ELSE IF pad0 < 1 THEN 1 ELSE IF pad0 > 4 THEN 1 ELSE pad0
           sameList == cut[Len(cut)].k = "list" /\ cut[Len(cut)].c = mk.delim
           st1 == IF sameList THEN cut ELSE OpenBlock(cut, [Mk("list", ls + j.i) EXCEPT !.c = mk.delim, !.a = mk.num], ls, src)
           item == [Mk("item", ls + j.i) EXCEPT !.c = mk.delim, !.a = mk.num, !.ind = ind + mk.w + pad,
                                                !.kids = << [Mk("marker", ls + j.i) EXCEPT !.e = ls + after.i] >>]
           st2 == OpenBlock(st1, item, ls, src)
       IN IF blankRest THEN [st |-> st2, m |-> Len(st2), c |-> EOLc, text |-> FALSE]
          ELSE OpenNew(st2, Len(st2), L, Consume(L, after, (IF pad0 > 4 THEN 1 ELSE pad)), ls, src)
  ELSE IF ind >= 4 /\ ~RestBlank(L, c.i) /\ ~tipPara THEN
       LET c2 == Consume(L, c, 4)
           st2 == OpenBlock(cut, Mk("icode", ls + c2.i), ls, src)
       IN [st |-> st2, m |-> Len(st2), c |-> c2, text |-> TRUE]
  ELSE [st |-> st, m |-> m, c |-> c, text |-> TRUE]

\* ---------- add text / blank-line bookkeeping ----------
SetLB(st, m, v) == [d \in 1..Len(st) |-> IF d <= m THEN [st[d] EXCEPT !.lb = v] ELSE st[d]]
AddText(st0, m0, L, c, ls, src) ==
  LET blank == RestBlank(L, c.i)
      lazy == m0 < Len(st0) /\ ~blank /\ st0[Len(st0)].k = "para"
      st1 == IF lazy THEN st0 ELSE CloseFrom(st0, m0 + 1, ls, src)
      m == IF lazy THEN Len(st0) ELSE m0
      cont == st1[m]
      st2 == IF blank /\ cont.kids # <<>> THEN [st1 EXCEPT ![m].kids[Len(cont.kids)].lb = TRUE] ELSE st1
      lbv == blank /\ ~(cont.k = "quote" \/ cont.k = "fcode" \/ (cont.k = "item" /\ Len(cont.kids) = 1 /\ cont.s >= ls))
      st3 == SetLB(st2, m, lbv)
      partial == At(L, c.i) = TAB /\ c.rem > 0            \* spec: only a PARTIALLY consumed tab turns into spaces
      tstart == IF partial THEN c.i + 1 ELSE c.i
      vs == IF partial THEN c.rem ELSE 0
  IN
  IF AcceptsLines(cont.k) THEN
       LET st4 == [st3 EXCEPT ![m].txt = Append(@, <<ls + tstart, ls + Len(L), vs>>)]
       IN IF cont.k = "html" /\ HtmlEnds(cont.a, L, c.i) THEN CloseFrom(st4, m, ls + Len(L), src) ELSE st4
  ELSE IF ~blank THEN
       LET j == SkipWS(L, c)
           p == [Mk("para", ls + c.i) EXCEPT !.txt = << <<ls + j.i, ls + Len(L), 0>> >>]
       IN OpenBlock(st3, p, ls, src)
  ELSE st3

ProcessLine(st, L, ls, src) ==
  LET d == Descend(st, 2, L, Cur(0, 0, 0), ls, src) IN
  IF d.term THEN d.st
  ELSE LET o == OpenNew(d.st, d.m, L, d.c, ls, src) IN
       IF o.text THEN AddText(o.st, o.m, L, o.c, ls, src) ELSE o.st

\* a block start that consumed the line while unmatched blocks were still open: they were closed by OpenBlock (cut)

\* ---------- whole documents ----------
RECURSIVE SplitLines(_, _, _)
SplitLines(src, from, acc) ==
  IF from > Len(src) THEN acc
  ELSE LET nl == {k \in from..Len(src) : src[k] \in {LF, 13}}
           f == IF nl = {} THEN Len(src) ELSE CHOOSE k \in nl : \A j \in nl : k <= j
           \* LF, CR and CRLF are one line ending each
           e == IF nl # {} /\ src[f] = 13 /\ f < Len(src) /\ src[f + 1] = LF THEN f + 1 ELSE f
       IN SplitLines(src, e + 1, Append(acc, <<from - 1, e>>))      \* 0-based [s,e)

RECURSIVE Feed(_, _, _, _)
Feed(st, lines, k, src) ==
  IF k > Len(lines) THEN CloseFrom(st, 2, Len(src), src)
  ELSE Feed(ProcessLine(st, SubSeq(src, lines[k][1] + 1, lines[k][2]), lines[k][1], src), lines, k+1, src)

ParseDoc(src) == Feed(<<Mk("doc", 0)>>, SplitLines(src, 1, <<>>), 1, src)[1].kids

\* skeleton for comparison with the implementation: nested [k, s, e, a, t, kids]
RECURSIVE Skel(_), SkelSeq(_)
SkelSeq(ns) == [i \in 1..Len(ns) |-> Skel(ns[i])]
Skel(n) == [k |-> n.k, s |-> n.s, e |-> n.e, a |-> n.a, t |-> n.t, kids |-> SkelSeq(n.kids), txt |-> n.txt]
\* literal content of code blocks
RECURSIVE Lit(_, _)
Lit(txt, src) == IF txt = <<>> THEN <<>>
                 ELSE LET sp == Head(txt)
                          body == SubSeq(src, sp[1] + 1, sp[2])
                          line == [k \in 1..sp[3] |-> SP] \o body \o (IF body = <<>> \/ body[Len(body)] \notin {LF, 13} THEN <<LF>> ELSE <<>>)
                      IN line \o Lit(Tail(txt), src)
RECURSIVE SkelL(_, _), SkelLSeq(_, _)
SkelLSeq(ns, src) == [i \in 1..Len(ns) |-> SkelL(ns[i], src)]
SkelL(n, src) == [k |-> n.k, s |-> n.s, e |-> n.e, a |-> n.a, t |-> n.t, kids |-> SkelLSeq(n.kids, src),
                  lit |-> IF n.k \in {"icode", "fcode"} THEN Lit(n.txt, src) ELSE <<>>]

\* ---------- generator: documents as sequences of line shapes ----------
CONSTANTS MaxLines, ShapeSetName
\* the same shape sets with CR or CRLF line endings
WithEOL(sh, eol) == IF sh[Len(sh)] = LF THEN SubSeq(sh, 1, Len(sh) - 1) \o eol ELSE sh
RECURSIVE BaseShapes(_)
Shapes == CASE ShapeSetName = "corecr" -> {WithEOL(sh, <<13>>) : sh \in BaseShapes("core")}
            [] ShapeSetName = "corecrlf" -> {WithEOL(sh, <<13, 10>>) : sh \in BaseShapes("core")}
            [] ShapeSetName = "coremixed" -> BaseShapes("core") \cup {WithEOL(sh, <<13>>) : sh \in BaseShapes("core")} \cup {WithEOL(sh, <<13, 10>>) : sh \in BaseShapes("core")}
            [] ShapeSetName = "defscrlf" -> {WithEOL(sh, <<13, 10>>) : sh \in BaseShapes("defs")}
            [] ShapeSetName = "htmlcr" -> {WithEOL(sh, <<13>>) : sh \in BaseShapes("html")}
            [] OTHER -> BaseShapes(ShapeSetName)
BaseShapes(name) == CASE name = "wide" -> { <<97, 10>>, <<10>>, <<32, 32, 10>>, <<62, 32, 97, 10>>, <<62, 97, 10>>, <<62, 32, 62, 32, 97, 10>>, <<62, 10>>, <<45, 32, 97, 10>>, <<42, 32, 97, 10>>, <<43, 32, 97, 10>>, <<49, 46, 32, 97, 10>>, <<50, 46, 32, 97, 10>>, <<49, 48, 46, 32, 97, 10>>, <<49, 41, 32, 97, 10>>, <<45, 32, 32, 32, 97, 10>>, <<45, 32, 32, 32, 32, 32, 97, 10>>, <<45, 10>>, <<49, 46, 10>>, <<32, 97, 10>>, <<32, 32, 97, 10>>, <<32, 32, 32, 97, 10>>, <<32, 32, 32, 32, 97, 10>>, <<32, 32, 32, 32, 32, 97, 10>>, <<32, 32, 32, 32, 32, 32, 97, 10>>, <<35, 32, 97, 10>>, <<35, 35, 32, 97, 10>>, <<35, 10>>, <<61, 61, 61, 10>>, <<45, 45, 45, 10>>, <<45, 45, 10>>, <<61, 10>>, <<42, 42, 42, 10>>, <<96, 96, 96, 10>>, <<126, 126, 126, 10>>, <<96, 96, 96, 96, 10>>, <<32, 32, 96, 96, 96, 10>>, <<32, 32, 32, 32, 96, 96, 96, 10>>, <<96, 96, 96, 32, 97, 10>>, <<32, 32, 45, 32, 97, 10>>, <<32, 32, 32, 45, 32, 97, 10>>, <<32, 32, 32, 32, 45, 32, 97, 10>>, <<32, 32, 62, 32, 97, 10>>, <<97>>, <<45, 32, 97>>, <<96, 96, 96>>, <<32, 32, 49, 46, 32, 97, 10>>, <<62, 32, 45, 32, 97, 10>>, <<45, 32, 62, 32, 97, 10>>, <<62, 32, 96, 96, 96, 10>>, <<45, 32, 96, 96, 96, 10>> }
            [] name = "core" -> { <<97, 10>>, <<10>>, <<62, 32, 97, 10>>, <<45, 32, 97, 10>>, <<32, 32, 97, 10>>, <<32, 32, 32, 32, 97, 10>>, <<49, 46, 32, 97, 10>>, <<96, 96, 96, 10>>, <<45, 45, 45, 10>>, <<35, 32, 97, 10>>, <<62, 10>>, <<32, 32, 45, 32, 97, 10>> }
            [] name = "defs" -> { <<91, 97, 93, 58, 32, 47, 117, 10>>, <<91, 97, 93, 58, 10>>, <<47, 117, 10>>, <<34, 116, 34, 10>>, <<91, 97, 93, 58, 32, 47, 117, 32, 34, 116, 10>>, <<117, 34, 10>>, <<120, 10>>, <<62, 32, 91, 97, 93, 58, 32, 47, 117, 10>>, <<62, 32, 34, 116, 34, 10>>, <<45, 32, 91, 97, 93, 58, 10>>, <<32, 32, 47, 117, 10>>, <<61, 61, 61, 10>>, <<10>>, <<91, 97, 93, 58, 32, 47, 117, 32, 34, 116, 34, 32, 120, 10>>, <<91, 98, 93, 58, 32, 60, 118, 32, 119, 62, 32, 39, 116, 39, 10>>, <<32, 91, 97, 93, 58, 32, 47, 117, 10>>, <<32, 32, 91, 98, 93, 58, 32, 47, 118, 10>>, <<91, 97, 93, 58, 32, 47, 117, 32, 40, 116, 41, 10>>, <<62, 32, 120, 10>>, <<42, 42, 42, 10>>, <<91, 97, 93, 10>>, <<91, 97, 93, 58, 32, 60, 62, 10>>, <<91, 97, 10>>, <<98, 93, 58, 32, 47, 117, 10>>, <<91, 97, 93, 58, 32, 47, 117, 32, 39, 116, 39, 32, 32, 10>>, <<32, 32, 32, 39, 117, 39, 32, 121, 10>>, <<91, 97, 93, 58, 32, 47, 117, 92, 10>>, <<91, 93, 58, 32, 47, 117, 10>>, <<91, 97, 93, 32, 58, 32, 47, 117, 10>>, <<91, 97, 93, 58, 47, 117, 10>>, <<35, 32, 104, 10>>, <<91, 97, 93, 58, 32, 47, 117>>, <<32, 32, 32, 32, 91, 98, 93, 58, 32, 47, 118, 10>>, <<9, 91, 98, 93, 58, 32, 47, 118, 10>> }
            [] name = "html" -> { <<60, 100, 105, 118, 62, 10>>, <<60, 47, 100, 105, 118, 62, 10>>, <<60, 112, 114, 101, 62, 10>>, <<60, 47, 112, 114, 101, 62, 10>>, <<120, 60, 47, 112, 114, 101, 62, 10>>, <<60, 33, 45, 45, 32, 99, 10>>, <<99, 32, 45, 45, 62, 10>>, <<60, 33, 45, 45, 32, 99, 32, 45, 45, 62, 10>>, <<60, 63, 112, 10>>, <<63, 62, 10>>, <<60, 33, 68, 32, 120, 10>>, <<62, 10>>, <<60, 33, 91, 67, 68, 65, 84, 65, 91, 10>>, <<93, 93, 62, 10>>, <<60, 97, 32, 104, 114, 101, 102, 61, 34, 120, 34, 62, 10>>, <<60, 97, 32, 104, 114, 101, 102, 61, 34, 120, 34, 62, 32, 121, 10>>, <<60, 47, 97, 62, 10>>, <<60, 115, 112, 97, 110, 10>>, <<120, 10>>, <<10>>, <<62, 32, 60, 100, 105, 118, 62, 10>>, <<62, 32, 120, 10>>, <<45, 32, 60, 100, 105, 118, 62, 10>>, <<32, 32, 120, 10>>, <<32, 32, 32, 60, 100, 105, 118, 62, 10>>, <<32, 32, 32, 32, 60, 100, 105, 118, 62, 10>>, <<60, 68, 73, 86, 32, 97, 62, 10>>, <<60, 115, 99, 114, 105, 112, 116, 62, 10>>, <<60, 47, 115, 99, 114, 105, 112, 116, 62, 32, 122, 10>>, <<60, 97, 47, 62, 10>>, <<60, 97, 32, 98, 61, 99, 32, 100, 61, 39, 101, 39, 32, 102, 61, 34, 103, 34, 32, 47, 62, 10>>, <<60, 97, 32, 98, 61, 39, 62, 10>>, <<60, 112, 10>>, <<60, 112, 114, 101, 32, 120, 10>>, <<60, 104, 114, 47, 62, 10>>, <<60, 47, 112, 114, 101, 10>>, <<60, 97, 10>>, <<60, 97, 32, 98, 32, 61, 32, 99, 62, 10>>, <<60, 97, 32, 98, 61, 62, 10>>, <<60, 45, 97, 62, 10>>, <<60, 100, 105, 118>> }
            [] name = "fullA" -> { <<97, 32, 42, 98, 10>>, <<99, 42, 32, 100, 10>>, <<42, 101, 42, 10>>, <<97, 32, 32, 10>>, <<97, 92, 10>>, <<32, 98, 10>>, <<97, 32, 10>>, <<42, 42, 102, 10>>, <<42, 10>>, <<95, 97, 10>>, <<95, 32, 98, 10>>, <<62, 32, 97, 32, 42, 98, 10>>, <<62, 32, 99, 42, 32, 100, 10>>, <<62, 32, 42, 101, 42, 10>>, <<62, 32, 97, 32, 32, 10>>, <<62, 32, 97, 92, 10>>, <<62, 32, 32, 98, 10>>, <<62, 32, 97, 32, 10>>, <<62, 32, 42, 42, 102, 10>>, <<62, 32, 42, 10>>, <<62, 32, 95, 97, 10>>, <<62, 32, 95, 32, 98, 10>>, <<45, 32, 97, 32, 42, 98, 10>>, <<45, 32, 99, 42, 32, 100, 10>>, <<45, 32, 42, 101, 42, 10>>, <<45, 32, 97, 32, 32, 10>>, <<45, 32, 97, 92, 10>>, <<45, 32, 32, 98, 10>>, <<45, 32, 97, 32, 10>>, <<45, 32, 42, 42, 102, 10>>, <<45, 32, 42, 10>>, <<45, 32, 95, 97, 10>>, <<45, 32, 95, 32, 98, 10>>, <<32, 32, 97, 32, 42, 98, 10>>, <<32, 32, 99, 42, 32, 100, 10>>, <<32, 32, 42, 101, 42, 10>>, <<32, 32, 97, 32, 32, 10>>, <<32, 32, 97, 92, 10>>, <<32, 32, 32, 98, 10>>, <<32, 32, 97, 32, 10>>, <<32, 32, 42, 42, 102, 10>>, <<32, 32, 42, 10>>, <<32, 32, 95, 97, 10>>, <<32, 32, 95, 32, 98, 10>>, <<62, 97, 32, 42, 98, 10>>, <<62, 99, 42, 32, 100, 10>>, <<62, 42, 101, 42, 10>>, <<62, 97, 32, 32, 10>>, <<62, 97, 92, 10>>, <<62, 32, 98, 10>>, <<62, 97, 32, 10>>, <<62, 42, 42, 102, 10>>, <<62, 42, 10>>, <<62, 95, 97, 10>>, <<62, 95, 32, 98, 10>>, <<10>>, <<62, 10>>, <<99, 42>> }
            [] name = "fullB" -> { <<91, 120, 93, 40, 47, 117, 10>>, <<34, 116, 34, 41, 10>>, <<91, 97, 93, 58, 32, 47, 117, 10>>, <<91, 97, 93, 10>>, <<91, 120, 93, 91, 97, 10>>, <<93, 10>>, <<96, 99, 10>>, <<100, 96, 32, 101, 10>>, <<60, 98, 10>>, <<101, 61, 34, 102, 34, 62, 10>>, <<91, 98, 93, 58, 32, 60, 118, 32, 119, 62, 32, 39, 116, 39, 10>>, <<33, 91, 105, 93, 91, 98, 93, 10>>, <<100, 96, 32, 42, 42, 101, 42, 42, 32, 102, 10>>, <<34, 116, 34, 41, 32, 95, 95, 103, 95, 95, 10>>, <<62, 32, 91, 120, 93, 40, 47, 117, 10>>, <<62, 32, 34, 116, 34, 41, 10>>, <<62, 32, 91, 97, 93, 58, 32, 47, 117, 10>>, <<62, 32, 91, 97, 93, 10>>, <<62, 32, 91, 120, 93, 91, 97, 10>>, <<62, 32, 93, 10>>, <<62, 32, 96, 99, 10>>, <<62, 32, 100, 96, 32, 101, 10>>, <<62, 32, 60, 98, 10>>, <<62, 32, 101, 61, 34, 102, 34, 62, 10>>, <<62, 32, 91, 98, 93, 58, 32, 60, 118, 32, 119, 62, 32, 39, 116, 39, 10>>, <<62, 32, 33, 91, 105, 93, 91, 98, 93, 10>>, <<62, 32, 100, 96, 32, 42, 42, 101, 42, 42, 32, 102, 10>>, <<62, 32, 34, 116, 34, 41, 32, 95, 95, 103, 95, 95, 10>>, <<45, 32, 91, 120, 93, 40, 47, 117, 10>>, <<45, 32, 34, 116, 34, 41, 10>>, <<45, 32, 91, 97, 93, 58, 32, 47, 117, 10>>, <<45, 32, 91, 97, 93, 10>>, <<45, 32, 91, 120, 93, 91, 97, 10>>, <<45, 32, 93, 10>>, <<45, 32, 96, 99, 10>>, <<45, 32, 100, 96, 32, 101, 10>>, <<45, 32, 60, 98, 10>>, <<45, 32, 101, 61, 34, 102, 34, 62, 10>>, <<45, 32, 91, 98, 93, 58, 32, 60, 118, 32, 119, 62, 32, 39, 116, 39, 10>>, <<45, 32, 33, 91, 105, 93, 91, 98, 93, 10>>, <<45, 32, 100, 96, 32, 42, 42, 101, 42, 42, 32, 102, 10>>, <<45, 32, 34, 116, 34, 41, 32, 95, 95, 103, 95, 95, 10>>, <<32, 32, 91, 120, 93, 40, 47, 117, 10>>, <<32, 32, 34, 116, 34, 41, 10>>, <<32, 32, 91, 97, 93, 58, 32, 47, 117, 10>>, <<32, 32, 91, 97, 93, 10>>, <<32, 32, 91, 120, 93, 91, 97, 10>>, <<32, 32, 93, 10>>, <<32, 32, 96, 99, 10>>, <<32, 32, 100, 96, 32, 101, 10>>, <<32, 32, 60, 98, 10>>, <<32, 32, 101, 61, 34, 102, 34, 62, 10>>, <<32, 32, 91, 98, 93, 58, 32, 60, 118, 32, 119, 62, 32, 39, 116, 39, 10>>, <<32, 32, 33, 91, 105, 93, 91, 98, 93, 10>>, <<32, 32, 100, 96, 32, 42, 42, 101, 42, 42, 32, 102, 10>>, <<32, 32, 34, 116, 34, 41, 32, 95, 95, 103, 95, 95, 10>>, <<10>>, <<91, 97, 93>> }
            [] name = "fullC" -> { <<35, 32, 104, 32, 42, 101, 42, 10>>, <<35, 35, 32, 10>>, <<97, 32, 42, 98, 42, 10>>, <<61, 61, 61, 10>>, <<45, 45, 45, 10>>, <<96, 96, 96, 120, 10>>, <<126, 126, 126, 32, 121, 38, 97, 109, 112, 59, 122, 92, 42, 10>>, <<32, 32, 32, 32, 99, 111, 100, 101, 32, 60, 10>>, <<60, 100, 105, 118, 62, 10>>, <<42, 97, 42, 32, 38, 97, 109, 112, 59, 32, 92, 42, 32, 38, 35, 51, 53, 59, 10>>, <<49, 46, 32, 97, 10>>, <<32, 32, 32, 98, 10>>, <<60, 104, 116, 116, 112, 58, 47, 47, 120, 46, 121, 47, 37, 53, 66, 195, 169, 62, 32, 60, 109, 64, 120, 46, 121, 62, 10>>, <<96, 96, 32, 96, 32, 96, 96, 10>>, <<33, 91, 42, 105, 42, 32, 38, 97, 109, 112, 59, 32, 96, 99, 96, 32, 60, 98, 62, 32, 38, 35, 51, 53, 59, 93, 40, 47, 115, 32, 34, 116, 34, 41, 10>>, <<38, 110, 76, 116, 59, 32, 38, 65, 69, 108, 105, 103, 59, 32, 38, 104, 101, 108, 108, 105, 112, 32, 38, 110, 98, 115, 112, 59, 120, 10>>, <<91, 116, 93, 40, 47, 117, 32, 34, 38, 110, 71, 116, 59, 38, 78, 111, 116, 69, 113, 117, 97, 108, 84, 105, 108, 100, 101, 59, 38, 68, 99, 97, 114, 111, 110, 59, 34, 41, 10>>, <<32, 96, 96, 96, 120, 32, 121, 10>>, <<32, 32, 32, 126, 126, 126, 122, 10>>, <<62, 32, 35, 32, 104, 32, 42, 101, 42, 10>>, <<62, 32, 35, 35, 32, 10>>, <<62, 32, 97, 32, 42, 98, 42, 10>>, <<62, 32, 61, 61, 61, 10>>, <<62, 32, 45, 45, 45, 10>>, <<62, 32, 96, 96, 96, 120, 10>>, <<62, 32, 126, 126, 126, 32, 121, 38, 97, 109, 112, 59, 122, 92, 42, 10>>, <<62, 32, 32, 32, 32, 32, 99, 111, 100, 101, 32, 60, 10>>, <<62, 32, 60, 100, 105, 118, 62, 10>>, <<62, 32, 42, 97, 42, 32, 38, 97, 109, 112, 59, 32, 92, 42, 32, 38, 35, 51, 53, 59, 10>>, <<62, 32, 49, 46, 32, 97, 10>>, <<62, 32, 32, 32, 32, 98, 10>>, <<62, 32, 60, 104, 116, 116, 112, 58, 47, 47, 120, 46, 121, 47, 37, 53, 66, 195, 169, 62, 32, 60, 109, 64, 120, 46, 121, 62, 10>>, <<62, 32, 96, 96, 32, 96, 32, 96, 96, 10>>, <<62, 32, 33, 91, 42, 105, 42, 32, 38, 97, 109, 112, 59, 32, 96, 99, 96, 32, 60, 98, 62, 32, 38, 35, 51, 53, 59, 93, 40, 47, 115, 32, 34, 116, 34, 41, 10>>, <<62, 32, 38, 110, 76, 116, 59, 32, 38, 65, 69, 108, 105, 103, 59, 32, 38, 104, 101, 108, 108, 105, 112, 32, 38, 110, 98, 115, 112, 59, 120, 10>>, <<62, 32, 91, 116, 93, 40, 47, 117, 32, 34, 38, 110, 71, 116, 59, 38, 78, 111, 116, 69, 113, 117, 97, 108, 84, 105, 108, 100, 101, 59, 38, 68, 99, 97, 114, 111, 110, 59, 34, 41, 10>>, <<62, 32, 32, 96, 96, 96, 120, 32, 121, 10>>, <<62, 32, 32, 32, 32, 126, 126, 126, 122, 10>>, <<45, 32, 35, 32, 104, 32, 42, 101, 42, 10>>, <<45, 32, 35, 35, 32, 10>>, <<45, 32, 97, 32, 42, 98, 42, 10>>, <<45, 32, 61, 61, 61, 10>>, <<45, 32, 45, 45, 45, 10>>, <<45, 32, 96, 96, 96, 120, 10>>, <<45, 32, 126, 126, 126, 32, 121, 38, 97, 109, 112, 59, 122, 92, 42, 10>>, <<45, 32, 32, 32, 32, 32, 99, 111, 100, 101, 32, 60, 10>>, <<45, 32, 60, 100, 105, 118, 62, 10>>, <<45, 32, 42, 97, 42, 32, 38, 97, 109, 112, 59, 32, 92, 42, 32, 38, 35, 51, 53, 59, 10>>, <<45, 32, 49, 46, 32, 97, 10>>, <<45, 32, 32, 32, 32, 98, 10>>, <<45, 32, 60, 104, 116, 116, 112, 58, 47, 47, 120, 46, 121, 47, 37, 53, 66, 195, 169, 62, 32, 60, 109, 64, 120, 46, 121, 62, 10>>, <<45, 32, 96, 96, 32, 96, 32, 96, 96, 10>>, <<45, 32, 33, 91, 42, 105, 42, 32, 38, 97, 109, 112, 59, 32, 96, 99, 96, 32, 60, 98, 62, 32, 38, 35, 51, 53, 59, 93, 40, 47, 115, 32, 34, 116, 34, 41, 10>>, <<45, 32, 38, 110, 76, 116, 59, 32, 38, 65, 69, 108, 105, 103, 59, 32, 38, 104, 101, 108, 108, 105, 112, 32, 38, 110, 98, 115, 112, 59, 120, 10>>, <<45, 32, 91, 116, 93, 40, 47, 117, 32, 34, 38, 110, 71, 116, 59, 38, 78, 111, 116, 69, 113, 117, 97, 108, 84, 105, 108, 100, 101, 59, 38, 68, 99, 97, 114, 111, 110, 59, 34, 41, 10>>, <<45, 32, 32, 96, 96, 96, 120, 32, 121, 10>>, <<45, 32, 32, 32, 32, 126, 126, 126, 122, 10>>, <<10>>, <<96, 96, 96, 120>>, <<32, 32, 32, 32, 99>>, <<62, 32, 126, 126, 126>>, <<99, 32, 96, 100>> }
            [] name = "fullE" -> { <<97, 32, 42, 98, 10>>, <<99, 42, 10>>, <<61, 61, 61, 10>>, <<45, 45, 45, 10>>, <<96, 96, 96, 10>>, <<91, 120, 93, 40, 47, 117, 10>>, <<41, 10>>, <<35, 32, 104, 10>>, <<49, 46, 32, 105, 10>>, <<45, 32, 106, 10>>, <<62, 32, 113, 10>>, <<32, 32, 32, 107, 10>>, <<32, 32, 32, 32, 109, 10>>, <<62, 32, 97, 32, 42, 98, 10>>, <<62, 32, 99, 42, 10>>, <<62, 32, 61, 61, 61, 10>>, <<62, 32, 45, 45, 45, 10>>, <<62, 32, 96, 96, 96, 10>>, <<62, 32, 91, 120, 93, 40, 47, 117, 10>>, <<62, 32, 41, 10>>, <<62, 32, 35, 32, 104, 10>>, <<62, 32, 49, 46, 32, 105, 10>>, <<62, 32, 45, 32, 106, 10>>, <<62, 32, 62, 32, 113, 10>>, <<62, 32, 32, 32, 32, 107, 10>>, <<62, 32, 32, 32, 32, 32, 109, 10>>, <<45, 32, 97, 32, 42, 98, 10>>, <<45, 32, 99, 42, 10>>, <<45, 32, 61, 61, 61, 10>>, <<45, 32, 45, 45, 45, 10>>, <<45, 32, 96, 96, 96, 10>>, <<45, 32, 91, 120, 93, 40, 47, 117, 10>>, <<45, 32, 41, 10>>, <<45, 32, 35, 32, 104, 10>>, <<45, 32, 49, 46, 32, 105, 10>>, <<45, 32, 45, 32, 106, 10>>, <<45, 32, 62, 32, 113, 10>>, <<45, 32, 32, 32, 32, 107, 10>>, <<45, 32, 32, 32, 32, 32, 109, 10>>, <<49, 46, 32, 97, 32, 42, 98, 10>>, <<49, 46, 32, 99, 42, 10>>, <<49, 46, 32, 61, 61, 61, 10>>, <<49, 46, 32, 45, 45, 45, 10>>, <<49, 46, 32, 96, 96, 96, 10>>, <<49, 46, 32, 91, 120, 93, 40, 47, 117, 10>>, <<49, 46, 32, 41, 10>>, <<49, 46, 32, 35, 32, 104, 10>>, <<49, 46, 32, 49, 46, 32, 105, 10>>, <<49, 46, 32, 45, 32, 106, 10>>, <<49, 46, 32, 62, 32, 113, 10>>, <<49, 46, 32, 32, 32, 32, 107, 10>>, <<49, 46, 32, 32, 32, 32, 32, 109, 10>>, <<32, 32, 32, 97, 32, 42, 98, 10>>, <<32, 32, 32, 99, 42, 10>>, <<32, 32, 32, 61, 61, 61, 10>>, <<32, 32, 32, 45, 45, 45, 10>>, <<32, 32, 32, 96, 96, 96, 10>>, <<32, 32, 32, 91, 120, 93, 40, 47, 117, 10>>, <<32, 32, 32, 41, 10>>, <<32, 32, 32, 35, 32, 104, 10>>, <<32, 32, 32, 49, 46, 32, 105, 10>>, <<32, 32, 32, 45, 32, 106, 10>>, <<32, 32, 32, 62, 32, 113, 10>>, <<32, 32, 32, 32, 32, 32, 107, 10>>, <<32, 32, 32, 32, 32, 32, 32, 109, 10>>, <<62, 32, 45, 32, 97, 32, 42, 98, 10>>, <<62, 32, 45, 32, 99, 42, 10>>, <<62, 32, 45, 32, 61, 61, 61, 10>>, <<62, 32, 45, 32, 45, 45, 45, 10>>, <<62, 32, 45, 32, 96, 96, 96, 10>>, <<62, 32, 45, 32, 91, 120, 93, 40, 47, 117, 10>>, <<62, 32, 45, 32, 41, 10>>, <<62, 32, 45, 32, 35, 32, 104, 10>>, <<62, 32, 45, 32, 49, 46, 32, 105, 10>>, <<62, 32, 45, 32, 45, 32, 106, 10>>, <<62, 32, 45, 32, 62, 32, 113, 10>>, <<62, 32, 45, 32, 32, 32, 32, 107, 10>>, <<62, 32, 45, 32, 32, 32, 32, 32, 109, 10>>, <<32, 32, 62, 32, 97, 32, 42, 98, 10>>, <<32, 32, 62, 32, 99, 42, 10>>, <<32, 32, 62, 32, 61, 61, 61, 10>>, <<32, 32, 62, 32, 45, 45, 45, 10>>, <<32, 32, 62, 32, 96, 96, 96, 10>>, <<32, 32, 62, 32, 91, 120, 93, 40, 47, 117, 10>>, <<32, 32, 62, 32, 41, 10>>, <<32, 32, 62, 32, 35, 32, 104, 10>>, <<32, 32, 62, 32, 49, 46, 32, 105, 10>>, <<32, 32, 62, 32, 45, 32, 106, 10>>, <<32, 32, 62, 32, 62, 32, 113, 10>>, <<32, 32, 62, 32, 32, 32, 32, 107, 10>>, <<32, 32, 62, 32, 32, 32, 32, 32, 109, 10>>, <<10>>, <<62, 10>> }
            [] name = "fullD" -> { <<97, 32, 42, 98, 10>>, <<99, 42, 10>>, <<96, 99, 10>>, <<100, 96, 10>>, <<91, 120, 93, 40, 47, 117, 10>>, <<39, 116, 39, 41, 10>>, <<97, 92, 10>>, <<98, 32, 32, 10>>, <<91, 120, 93, 91, 97, 10>>, <<98, 93, 10>>, <<91, 97, 10>>, <<98, 93, 58, 32, 47, 117, 10>>, <<62, 9, 97, 32, 42, 98, 10>>, <<62, 9, 99, 42, 10>>, <<62, 9, 96, 99, 10>>, <<62, 9, 100, 96, 10>>, <<62, 9, 91, 120, 93, 40, 47, 117, 10>>, <<62, 9, 39, 116, 39, 41, 10>>, <<62, 9, 97, 92, 10>>, <<62, 9, 98, 32, 32, 10>>, <<62, 9, 91, 120, 93, 91, 97, 10>>, <<62, 9, 98, 93, 10>>, <<62, 9, 91, 97, 10>>, <<62, 9, 98, 93, 58, 32, 47, 117, 10>>, <<45, 9, 97, 32, 42, 98, 10>>, <<45, 9, 99, 42, 10>>, <<45, 9, 96, 99, 10>>, <<45, 9, 100, 96, 10>>, <<45, 9, 91, 120, 93, 40, 47, 117, 10>>, <<45, 9, 39, 116, 39, 41, 10>>, <<45, 9, 97, 92, 10>>, <<45, 9, 98, 32, 32, 10>>, <<45, 9, 91, 120, 93, 91, 97, 10>>, <<45, 9, 98, 93, 10>>, <<45, 9, 91, 97, 10>>, <<45, 9, 98, 93, 58, 32, 47, 117, 10>>, <<9, 97, 32, 42, 98, 10>>, <<9, 99, 42, 10>>, <<9, 96, 99, 10>>, <<9, 100, 96, 10>>, <<9, 91, 120, 93, 40, 47, 117, 10>>, <<9, 39, 116, 39, 41, 10>>, <<9, 97, 92, 10>>, <<9, 98, 32, 32, 10>>, <<9, 91, 120, 93, 91, 97, 10>>, <<9, 98, 93, 10>>, <<9, 91, 97, 10>>, <<9, 98, 93, 58, 32, 47, 117, 10>>, <<32, 9, 97, 32, 42, 98, 10>>, <<32, 9, 99, 42, 10>>, <<32, 9, 96, 99, 10>>, <<32, 9, 100, 96, 10>>, <<32, 9, 91, 120, 93, 40, 47, 117, 10>>, <<32, 9, 39, 116, 39, 41, 10>>, <<32, 9, 97, 92, 10>>, <<32, 9, 98, 32, 32, 10>>, <<32, 9, 91, 120, 93, 91, 97, 10>>, <<32, 9, 98, 93, 10>>, <<32, 9, 91, 97, 10>>, <<32, 9, 98, 93, 58, 32, 47, 117, 10>>, <<62, 32, 97, 32, 42, 98, 10>>, <<62, 32, 99, 42, 10>>, <<62, 32, 96, 99, 10>>, <<62, 32, 100, 96, 10>>, <<62, 32, 91, 120, 93, 40, 47, 117, 10>>, <<62, 32, 39, 116, 39, 41, 10>>, <<62, 32, 97, 92, 10>>, <<62, 32, 98, 32, 32, 10>>, <<62, 32, 91, 120, 93, 91, 97, 10>>, <<62, 32, 98, 93, 10>>, <<62, 32, 91, 97, 10>>, <<62, 32, 98, 93, 58, 32, 47, 117, 10>>, <<10>> }
            [] name = "fullH" -> { <<97, 32, 42, 98, 10>>, <<99, 42, 10>>, <<60, 33, 45, 45, 32, 99, 32, 45, 45, 62, 10>>, <<60, 112, 114, 101, 62, 10>>, <<120, 60, 47, 112, 114, 101, 62, 10>>, <<60, 63, 112, 104, 112, 10>>, <<121, 32, 63, 62, 10>>, <<60, 100, 105, 118, 62, 10>>, <<60, 47, 100, 105, 118, 62, 10>>, <<122, 10>>, <<62, 9, 97, 32, 42, 98, 10>>, <<62, 9, 99, 42, 10>>, <<62, 9, 60, 33, 45, 45, 32, 99, 32, 45, 45, 62, 10>>, <<62, 9, 60, 112, 114, 101, 62, 10>>, <<62, 9, 120, 60, 47, 112, 114, 101, 62, 10>>, <<62, 9, 60, 63, 112, 104, 112, 10>>, <<62, 9, 121, 32, 63, 62, 10>>, <<62, 9, 60, 100, 105, 118, 62, 10>>, <<62, 9, 60, 47, 100, 105, 118, 62, 10>>, <<62, 9, 122, 10>>, <<45, 9, 97, 32, 42, 98, 10>>, <<45, 9, 99, 42, 10>>, <<45, 9, 60, 33, 45, 45, 32, 99, 32, 45, 45, 62, 10>>, <<45, 9, 60, 112, 114, 101, 62, 10>>, <<45, 9, 120, 60, 47, 112, 114, 101, 62, 10>>, <<45, 9, 60, 63, 112, 104, 112, 10>>, <<45, 9, 121, 32, 63, 62, 10>>, <<45, 9, 60, 100, 105, 118, 62, 10>>, <<45, 9, 60, 47, 100, 105, 118, 62, 10>>, <<45, 9, 122, 10>>, <<9, 97, 32, 42, 98, 10>>, <<9, 99, 42, 10>>, <<9, 60, 33, 45, 45, 32, 99, 32, 45, 45, 62, 10>>, <<9, 60, 112, 114, 101, 62, 10>>, <<9, 120, 60, 47, 112, 114, 101, 62, 10>>, <<9, 60, 63, 112, 104, 112, 10>>, <<9, 121, 32, 63, 62, 10>>, <<9, 60, 100, 105, 118, 62, 10>>, <<9, 60, 47, 100, 105, 118, 62, 10>>, <<9, 122, 10>>, <<32, 9, 97, 32, 42, 98, 10>>, <<32, 9, 99, 42, 10>>, <<32, 9, 60, 33, 45, 45, 32, 99, 32, 45, 45, 62, 10>>, <<32, 9, 60, 112, 114, 101, 62, 10>>, <<32, 9, 120, 60, 47, 112, 114, 101, 62, 10>>, <<32, 9, 60, 63, 112, 104, 112, 10>>, <<32, 9, 121, 32, 63, 62, 10>>, <<32, 9, 60, 100, 105, 118, 62, 10>>, <<32, 9, 60, 47, 100, 105, 118, 62, 10>>, <<32, 9, 122, 10>>, <<62, 32, 97, 32, 42, 98, 10>>, <<62, 32, 99, 42, 10>>, <<62, 32, 60, 33, 45, 45, 32, 99, 32, 45, 45, 62, 10>>, <<62, 32, 60, 112, 114, 101, 62, 10>>, <<62, 32, 120, 60, 47, 112, 114, 101, 62, 10>>, <<62, 32, 60, 63, 112, 104, 112, 10>>, <<62, 32, 121, 32, 63, 62, 10>>, <<62, 32, 60, 100, 105, 118, 62, 10>>, <<62, 32, 60, 47, 100, 105, 118, 62, 10>>, <<62, 32, 122, 10>>, <<32, 32, 97, 32, 42, 98, 10>>, <<32, 32, 99, 42, 10>>, <<32, 32, 60, 33, 45, 45, 32, 99, 32, 45, 45, 62, 10>>, <<32, 32, 60, 112, 114, 101, 62, 10>>, <<32, 32, 120, 60, 47, 112, 114, 101, 62, 10>>, <<32, 32, 60, 63, 112, 104, 112, 10>>, <<32, 32, 121, 32, 63, 62, 10>>, <<32, 32, 60, 100, 105, 118, 62, 10>>, <<32, 32, 60, 47, 100, 105, 118, 62, 10>>, <<32, 32, 122, 10>>, <<10>> }
            [] name = "fullF" -> { <<91, 97, 10>>, <<33, 91, 97, 10>>, <<98, 93, 10>>, <<98, 93, 91, 93, 10>>, <<98, 93, 10, 10, 91, 97, 32, 98, 93, 58, 32, 47, 117, 10>>, <<98, 93, 91, 93, 10, 10, 91, 97, 32, 98, 93, 58, 32, 47, 117, 10>>, <<91, 120, 93, 40, 47, 112, 92, 92, 92, 40, 113, 32, 34, 116, 92, 92, 92, 42, 117, 32, 92, 38, 97, 109, 112, 59, 34, 41, 10>>, <<91, 101, 93, 58, 32, 60, 47, 112, 92, 92, 92, 40, 113, 62, 32, 34, 120, 92, 92, 92, 42, 121, 32, 92, 38, 97, 109, 112, 59, 34, 10>>, <<91, 120, 93, 91, 101, 93, 32, 91, 101, 93, 10>>, <<91, 99, 93, 58, 32, 47, 117, 10, 91, 120, 93, 91, 99, 10>>, <<91, 99, 93, 58, 32, 47, 117, 10, 33, 91, 120, 93, 91, 99, 32, 10>>, <<93, 10>>, <<93, 32, 122, 10>>, <<62, 32, 91, 97, 10>>, <<62, 32, 33, 91, 97, 10>>, <<62, 32, 98, 93, 10>>, <<62, 32, 98, 93, 91, 93, 10>>, <<62, 32, 98, 93, 10, 10, 91, 97, 32, 98, 93, 58, 32, 47, 117, 10>>, <<62, 32, 98, 93, 91, 93, 10, 10, 91, 97, 32, 98, 93, 58, 32, 47, 117, 10>>, <<62, 32, 91, 120, 93, 40, 47, 112, 92, 92, 92, 40, 113, 32, 34, 116, 92, 92, 92, 42, 117, 32, 92, 38, 97, 109, 112, 59, 34, 41, 10>>, <<62, 32, 91, 101, 93, 58, 32, 60, 47, 112, 92, 92, 92, 40, 113, 62, 32, 34, 120, 92, 92, 92, 42, 121, 32, 92, 38, 97, 109, 112, 59, 34, 10>>, <<62, 32, 91, 120, 93, 91, 101, 93, 32, 91, 101, 93, 10>>, <<62, 32, 91, 99, 93, 58, 32, 47, 117, 10, 91, 120, 93, 91, 99, 10>>, <<62, 32, 91, 99, 93, 58, 32, 47, 117, 10, 33, 91, 120, 93, 91, 99, 32, 10>>, <<62, 32, 93, 10>>, <<62, 32, 93, 32, 122, 10>>, <<45, 32, 91, 97, 10>>, <<45, 32, 33, 91, 97, 10>>, <<45, 32, 98, 93, 10>>, <<45, 32, 98, 93, 91, 93, 10>>, <<45, 32, 98, 93, 10, 10, 91, 97, 32, 98, 93, 58, 32, 47, 117, 10>>, <<45, 32, 98, 93, 91, 93, 10, 10, 91, 97, 32, 98, 93, 58, 32, 47, 117, 10>>, <<45, 32, 91, 120, 93, 40, 47, 112, 92, 92, 92, 40, 113, 32, 34, 116, 92, 92, 92, 42, 117, 32, 92, 38, 97, 109, 112, 59, 34, 41, 10>>, <<45, 32, 91, 101, 93, 58, 32, 60, 47, 112, 92, 92, 92, 40, 113, 62, 32, 34, 120, 92, 92, 92, 42, 121, 32, 92, 38, 97, 109, 112, 59, 34, 10>>, <<45, 32, 91, 120, 93, 91, 101, 93, 32, 91, 101, 93, 10>>, <<45, 32, 91, 99, 93, 58, 32, 47, 117, 10, 91, 120, 93, 91, 99, 10>>, <<45, 32, 91, 99, 93, 58, 32, 47, 117, 10, 33, 91, 120, 93, 91, 99, 32, 10>>, <<45, 32, 93, 10>>, <<45, 32, 93, 32, 122, 10>>, <<32, 32, 91, 97, 10>>, <<32, 32, 33, 91, 97, 10>>, <<32, 32, 98, 93, 10>>, <<32, 32, 98, 93, 91, 93, 10>>, <<32, 32, 98, 93, 10, 10, 91, 97, 32, 98, 93, 58, 32, 47, 117, 10>>, <<32, 32, 98, 93, 91, 93, 10, 10, 91, 97, 32, 98, 93, 58, 32, 47, 117, 10>>, <<32, 32, 91, 120, 93, 40, 47, 112, 92, 92, 92, 40, 113, 32, 34, 116, 92, 92, 92, 42, 117, 32, 92, 38, 97, 109, 112, 59, 34, 41, 10>>, <<32, 32, 91, 101, 93, 58, 32, 60, 47, 112, 92, 92, 92, 40, 113, 62, 32, 34, 120, 92, 92, 92, 42, 121, 32, 92, 38, 97, 109, 112, 59, 34, 10>>, <<32, 32, 91, 120, 93, 91, 101, 93, 32, 91, 101, 93, 10>>, <<32, 32, 91, 99, 93, 58, 32, 47, 117, 10, 91, 120, 93, 91, 99, 10>>, <<32, 32, 91, 99, 93, 58, 32, 47, 117, 10, 33, 91, 120, 93, 91, 99, 32, 10>>, <<32, 32, 93, 10>>, <<32, 32, 93, 32, 122, 10>>, <<10>>, <<91, 97, 32, 98, 93, 58, 32, 47, 117, 10>> }
            [] name = "fullG" -> { <<91, 97, 93, 40, 60, 98, 92, 10>>, <<99, 62, 41, 10>>, <<91, 97, 93, 40, 47, 117, 32, 34, 116, 92, 10>>, <<117, 34, 41, 10>>, <<91, 97, 93, 40, 47, 117, 92, 10>>, <<41, 10>>, <<91, 97, 92, 10>>, <<98, 93, 10>>, <<98, 93, 58, 32, 47, 117, 10>>, <<60, 97, 32, 98, 61, 34, 99, 92, 10>>, <<100, 34, 62, 10>>, <<96, 97, 92, 10>>, <<98, 96, 10>>, <<60, 104, 116, 116, 112, 58, 47, 47, 97, 92, 10>>, <<98, 62, 10>>, <<91, 120, 93, 58, 32, 60, 117, 92, 10>>, <<118, 62, 10>>, <<91, 120, 93, 58, 32, 47, 117, 32, 39, 116, 92, 10>>, <<119, 39, 10>>, <<91, 120, 93, 58, 32, 47, 117, 92, 10>>, <<91, 120, 93, 10>>, <<62, 32, 91, 97, 93, 40, 60, 98, 92, 10>>, <<62, 32, 99, 62, 41, 10>>, <<62, 32, 91, 97, 93, 40, 47, 117, 32, 34, 116, 92, 10>>, <<62, 32, 117, 34, 41, 10>>, <<62, 32, 91, 97, 93, 40, 47, 117, 92, 10>>, <<62, 32, 41, 10>>, <<62, 32, 91, 97, 92, 10>>, <<62, 32, 98, 93, 10>>, <<62, 32, 98, 93, 58, 32, 47, 117, 10>>, <<62, 32, 60, 97, 32, 98, 61, 34, 99, 92, 10>>, <<62, 32, 100, 34, 62, 10>>, <<62, 32, 96, 97, 92, 10>>, <<62, 32, 98, 96, 10>>, <<62, 32, 60, 104, 116, 116, 112, 58, 47, 47, 97, 92, 10>>, <<62, 32, 98, 62, 10>>, <<62, 32, 91, 120, 93, 58, 32, 60, 117, 92, 10>>, <<62, 32, 118, 62, 10>>, <<62, 32, 91, 120, 93, 58, 32, 47, 117, 32, 39, 116, 92, 10>>, <<62, 32, 119, 39, 10>>, <<62, 32, 91, 120, 93, 58, 32, 47, 117, 92, 10>>, <<62, 32, 91, 120, 93, 10>>, <<45, 32, 91, 97, 93, 40, 60, 98, 92, 10>>, <<45, 32, 99, 62, 41, 10>>, <<45, 32, 91, 97, 93, 40, 47, 117, 32, 34, 116, 92, 10>>, <<45, 32, 117, 34, 41, 10>>, <<45, 32, 91, 97, 93, 40, 47, 117, 92, 10>>, <<45, 32, 41, 10>>, <<45, 32, 91, 97, 92, 10>>, <<45, 32, 98, 93, 10>>, <<45, 32, 98, 93, 58, 32, 47, 117, 10>>, <<45, 32, 60, 97, 32, 98, 61, 34, 99, 92, 10>>, <<45, 32, 100, 34, 62, 10>>, <<45, 32, 96, 97, 92, 10>>, <<45, 32, 98, 96, 10>>, <<45, 32, 60, 104, 116, 116, 112, 58, 47, 47, 97, 92, 10>>, <<45, 32, 98, 62, 10>>, <<45, 32, 91, 120, 93, 58, 32, 60, 117, 92, 10>>, <<45, 32, 118, 62, 10>>, <<45, 32, 91, 120, 93, 58, 32, 47, 117, 32, 39, 116, 92, 10>>, <<45, 32, 119, 39, 10>>, <<45, 32, 91, 120, 93, 58, 32, 47, 117, 92, 10>>, <<45, 32, 91, 120, 93, 10>>, <<10>> }
            [] name = "fullN" -> { <<97, 0, 98, 10>>, <<0, 10>>, <<42, 0, 42, 10>>, <<95, 0, 95, 97, 10>>, <<91, 0, 93, 58, 32, 47, 117, 10>>, <<91, 120, 93, 91, 0, 93, 10>>, <<96, 0, 96, 10>>, <<35, 32, 0, 10>>, <<96, 96, 96, 0, 10>>, <<60, 0, 62, 10>>, <<60, 97, 32, 0, 62, 10>>, <<38, 35, 48, 59, 32, 38, 35, 120, 48, 59, 10>>, <<91, 121, 93, 40, 47, 0, 32, 34, 0, 34, 41, 10>>, <<0, 61, 61, 61, 10>>, <<62, 32, 97, 0, 98, 10>>, <<62, 32, 0, 10>>, <<62, 32, 42, 0, 42, 10>>, <<62, 32, 95, 0, 95, 97, 10>>, <<62, 32, 91, 0, 93, 58, 32, 47, 117, 10>>, <<62, 32, 91, 120, 93, 91, 0, 93, 10>>, <<62, 32, 96, 0, 96, 10>>, <<62, 32, 35, 32, 0, 10>>, <<62, 32, 96, 96, 96, 0, 10>>, <<62, 32, 60, 0, 62, 10>>, <<62, 32, 60, 97, 32, 0, 62, 10>>, <<62, 32, 38, 35, 48, 59, 32, 38, 35, 120, 48, 59, 10>>, <<62, 32, 91, 121, 93, 40, 47, 0, 32, 34, 0, 34, 41, 10>>, <<62, 32, 0, 61, 61, 61, 10>>, <<45, 32, 97, 0, 98, 10>>, <<45, 32, 0, 10>>, <<45, 32, 42, 0, 42, 10>>, <<45, 32, 95, 0, 95, 97, 10>>, <<45, 32, 91, 0, 93, 58, 32, 47, 117, 10>>, <<45, 32, 91, 120, 93, 91, 0, 93, 10>>, <<45, 32, 96, 0, 96, 10>>, <<45, 32, 35, 32, 0, 10>>, <<45, 32, 96, 96, 96, 0, 10>>, <<45, 32, 60, 0, 62, 10>>, <<45, 32, 60, 97, 32, 0, 62, 10>>, <<45, 32, 38, 35, 48, 59, 32, 38, 35, 120, 48, 59, 10>>, <<45, 32, 91, 121, 93, 40, 47, 0, 32, 34, 0, 34, 41, 10>>, <<45, 32, 0, 61, 61, 61, 10>>, <<10>>, <<32, 32, 32, 32, 0, 10>>, <<61, 61, 61, 10>> }
            [] name = "fullDcr" -> { <<97, 32, 42, 98, 13>>, <<99, 42, 13>>, <<96, 99, 13>>, <<100, 96, 13>>, <<91, 120, 93, 40, 47, 117, 13>>, <<39, 116, 39, 41, 13>>, <<97, 92, 13>>, <<98, 32, 32, 13>>, <<91, 120, 93, 91, 97, 13>>, <<98, 93, 13>>, <<91, 97, 13>>, <<98, 93, 58, 32, 47, 117, 13>>, <<62, 9, 97, 32, 42, 98, 13>>, <<62, 9, 99, 42, 13>>, <<62, 9, 96, 99, 13>>, <<62, 9, 100, 96, 13>>, <<62, 9, 91, 120, 93, 40, 47, 117, 13>>, <<62, 9, 39, 116, 39, 41, 13>>, <<62, 9, 97, 92, 13>>, <<62, 9, 98, 32, 32, 13>>, <<62, 9, 91, 120, 93, 91, 97, 13>>, <<62, 9, 98, 93, 13>>, <<62, 9, 91, 97, 13>>, <<62, 9, 98, 93, 58, 32, 47, 117, 13>>, <<45, 9, 97, 32, 42, 98, 13>>, <<45, 9, 99, 42, 13>>, <<45, 9, 96, 99, 13>>, <<45, 9, 100, 96, 13>>, <<45, 9, 91, 120, 93, 40, 47, 117, 13>>, <<45, 9, 39, 116, 39, 41, 13>>, <<45, 9, 97, 92, 13>>, <<45, 9, 98, 32, 32, 13>>, <<45, 9, 91, 120, 93, 91, 97, 13>>, <<45, 9, 98, 93, 13>>, <<45, 9, 91, 97, 13>>, <<45, 9, 98, 93, 58, 32, 47, 117, 13>>, <<9, 97, 32, 42, 98, 13>>, <<9, 99, 42, 13>>, <<9, 96, 99, 13>>, <<9, 100, 96, 13>>, <<9, 91, 120, 93, 40, 47, 117, 13>>, <<9, 39, 116, 39, 41, 13>>, <<9, 97, 92, 13>>, <<9, 98, 32, 32, 13>>, <<9, 91, 120, 93, 91, 97, 13>>, <<9, 98, 93, 13>>, <<9, 91, 97, 13>>, <<9, 98, 93, 58, 32, 47, 117, 13>>, <<32, 9, 97, 32, 42, 98, 13>>, <<32, 9, 99, 42, 13>>, <<32, 9, 96, 99, 13>>, <<32, 9, 100, 96, 13>>, <<32, 9, 91, 120, 93, 40, 47, 117, 13>>, <<32, 9, 39, 116, 39, 41, 13>>, <<32, 9, 97, 92, 13>>, <<32, 9, 98, 32, 32, 13>>, <<32, 9, 91, 120, 93, 91, 97, 13>>, <<32, 9, 98, 93, 13>>, <<32, 9, 91, 97, 13>>, <<32, 9, 98, 93, 58, 32, 47, 117, 13>>, <<62, 32, 97, 32, 42, 98, 13>>, <<62, 32, 99, 42, 13>>, <<62, 32, 96, 99, 13>>, <<62, 32, 100, 96, 13>>, <<62, 32, 91, 120, 93, 40, 47, 117, 13>>, <<62, 32, 39, 116, 39, 41, 13>>, <<62, 32, 97, 92, 13>>, <<62, 32, 98, 32, 32, 13>>, <<62, 32, 91, 120, 93, 91, 97, 13>>, <<62, 32, 98, 93, 13>>, <<62, 32, 91, 97, 13>>, <<62, 32, 98, 93, 58, 32, 47, 117, 13>>, <<13>> }
            [] name = "fullAcrlf" -> { <<97, 32, 42, 98, 13, 10>>, <<99, 42, 32, 100, 13, 10>>, <<42, 101, 42, 13, 10>>, <<97, 32, 32, 13, 10>>, <<97, 92, 13, 10>>, <<32, 98, 13, 10>>, <<97, 32, 13, 10>>, <<42, 42, 102, 13, 10>>, <<42, 13, 10>>, <<95, 97, 13, 10>>, <<95, 32, 98, 13, 10>>, <<62, 32, 97, 32, 42, 98, 13, 10>>, <<62, 32, 99, 42, 32, 100, 13, 10>>, <<62, 32, 42, 101, 42, 13, 10>>, <<62, 32, 97, 32, 32, 13, 10>>, <<62, 32, 97, 92, 13, 10>>, <<62, 32, 32, 98, 13, 10>>, <<62, 32, 97, 32, 13, 10>>, <<62, 32, 42, 42, 102, 13, 10>>, <<62, 32, 42, 13, 10>>, <<62, 32, 95, 97, 13, 10>>, <<62, 32, 95, 32, 98, 13, 10>>, <<45, 32, 97, 32, 42, 98, 13, 10>>, <<45, 32, 99, 42, 32, 100, 13, 10>>, <<45, 32, 42, 101, 42, 13, 10>>, <<45, 32, 97, 32, 32, 13, 10>>, <<45, 32, 97, 92, 13, 10>>, <<45, 32, 32, 98, 13, 10>>, <<45, 32, 97, 32, 13, 10>>, <<45, 32, 42, 42, 102, 13, 10>>, <<45, 32, 42, 13, 10>>, <<45, 32, 95, 97, 13, 10>>, <<45, 32, 95, 32, 98, 13, 10>>, <<32, 32, 97, 32, 42, 98, 13, 10>>, <<32, 32, 99, 42, 32, 100, 13, 10>>, <<32, 32, 42, 101, 42, 13, 10>>, <<32, 32, 97, 32, 32, 13, 10>>, <<32, 32, 97, 92, 13, 10>>, <<32, 32, 32, 98, 13, 10>>, <<32, 32, 97, 32, 13, 10>>, <<32, 32, 42, 42, 102, 13, 10>>, <<32, 32, 42, 13, 10>>, <<32, 32, 95, 97, 13, 10>>, <<32, 32, 95, 32, 98, 13, 10>>, <<62, 97, 32, 42, 98, 13, 10>>, <<62, 99, 42, 32, 100, 13, 10>>, <<62, 42, 101, 42, 13, 10>>, <<62, 97, 32, 32, 13, 10>>, <<62, 97, 92, 13, 10>>, <<62, 32, 98, 13, 10>>, <<62, 97, 32, 13, 10>>, <<62, 42, 42, 102, 13, 10>>, <<62, 42, 13, 10>>, <<62, 95, 97, 13, 10>>, <<62, 95, 32, 98, 13, 10>>, <<13, 10>>, <<62, 13, 10>>, <<99, 42>> }
            [] name = "fullGcr" -> { <<91, 97, 93, 40, 60, 98, 92, 13>>, <<99, 62, 41, 13>>, <<91, 97, 93, 40, 47, 117, 32, 34, 116, 92, 13>>, <<117, 34, 41, 13>>, <<91, 97, 93, 40, 47, 117, 92, 13>>, <<41, 13>>, <<91, 97, 92, 13>>, <<98, 93, 13>>, <<98, 93, 58, 32, 47, 117, 13>>, <<60, 97, 32, 98, 61, 34, 99, 92, 13>>, <<100, 34, 62, 13>>, <<96, 97, 92, 13>>, <<98, 96, 13>>, <<60, 104, 116, 116, 112, 58, 47, 47, 97, 92, 13>>, <<98, 62, 13>>, <<91, 120, 93, 58, 32, 60, 117, 92, 13>>, <<118, 62, 13>>, <<91, 120, 93, 58, 32, 47, 117, 32, 39, 116, 92, 13>>, <<119, 39, 13>>, <<91, 120, 93, 58, 32, 47, 117, 92, 13>>, <<91, 120, 93, 13>>, <<62, 32, 91, 97, 93, 40, 60, 98, 92, 13>>, <<62, 32, 99, 62, 41, 13>>, <<62, 32, 91, 97, 93, 40, 47, 117, 32, 34, 116, 92, 13>>, <<62, 32, 117, 34, 41, 13>>, <<62, 32, 91, 97, 93, 40, 47, 117, 92, 13>>, <<62, 32, 41, 13>>, <<62, 32, 91, 97, 92, 13>>, <<62, 32, 98, 93, 13>>, <<62, 32, 98, 93, 58, 32, 47, 117, 13>>, <<62, 32, 60, 97, 32, 98, 61, 34, 99, 92, 13>>, <<62, 32, 100, 34, 62, 13>>, <<62, 32, 96, 97, 92, 13>>, <<62, 32, 98, 96, 13>>, <<62, 32, 60, 104, 116, 116, 112, 58, 47, 47, 97, 92, 13>>, <<62, 32, 98, 62, 13>>, <<62, 32, 91, 120, 93, 58, 32, 60, 117, 92, 13>>, <<62, 32, 118, 62, 13>>, <<62, 32, 91, 120, 93, 58, 32, 47, 117, 32, 39, 116, 92, 13>>, <<62, 32, 119, 39, 13>>, <<62, 32, 91, 120, 93, 58, 32, 47, 117, 92, 13>>, <<62, 32, 91, 120, 93, 13>>, <<45, 32, 91, 97, 93, 40, 60, 98, 92, 13>>, <<45, 32, 99, 62, 41, 13>>, <<45, 32, 91, 97, 93, 40, 47, 117, 32, 34, 116, 92, 13>>, <<45, 32, 117, 34, 41, 13>>, <<45, 32, 91, 97, 93, 40, 47, 117, 92, 13>>, <<45, 32, 41, 13>>, <<45, 32, 91, 97, 92, 13>>, <<45, 32, 98, 93, 13>>, <<45, 32, 98, 93, 58, 32, 47, 117, 13>>, <<45, 32, 60, 97, 32, 98, 61, 34, 99, 92, 13>>, <<45, 32, 100, 34, 62, 13>>, <<45, 32, 96, 97, 92, 13>>, <<45, 32, 98, 96, 13>>, <<45, 32, 60, 104, 116, 116, 112, 58, 47, 47, 97, 92, 13>>, <<45, 32, 98, 62, 13>>, <<45, 32, 91, 120, 93, 58, 32, 60, 117, 92, 13>>, <<45, 32, 118, 62, 13>>, <<45, 32, 91, 120, 93, 58, 32, 47, 117, 32, 39, 116, 92, 13>>, <<45, 32, 119, 39, 13>>, <<45, 32, 91, 120, 93, 58, 32, 47, 117, 92, 13>>, <<45, 32, 91, 120, 93, 13>>, <<13>> }
            [] name = "fullGcrlf" -> { <<91, 97, 93, 40, 60, 98, 92, 13, 10>>, <<99, 62, 41, 13, 10>>, <<91, 97, 93, 40, 47, 117, 32, 34, 116, 92, 13, 10>>, <<117, 34, 41, 13, 10>>, <<91, 97, 93, 40, 47, 117, 92, 13, 10>>, <<41, 13, 10>>, <<91, 97, 92, 13, 10>>, <<98, 93, 13, 10>>, <<98, 93, 58, 32, 47, 117, 13, 10>>, <<60, 97, 32, 98, 61, 34, 99, 92, 13, 10>>, <<100, 34, 62, 13, 10>>, <<96, 97, 92, 13, 10>>, <<98, 96, 13, 10>>, <<60, 104, 116, 116, 112, 58, 47, 47, 97, 92, 13, 10>>, <<98, 62, 13, 10>>, <<91, 120, 93, 58, 32, 60, 117, 92, 13, 10>>, <<118, 62, 13, 10>>, <<91, 120, 93, 58, 32, 47, 117, 32, 39, 116, 92, 13, 10>>, <<119, 39, 13, 10>>, <<91, 120, 93, 58, 32, 47, 117, 92, 13, 10>>, <<91, 120, 93, 13, 10>>, <<62, 32, 91, 97, 93, 40, 60, 98, 92, 13, 10>>, <<62, 32, 99, 62, 41, 13, 10>>, <<62, 32, 91, 97, 93, 40, 47, 117, 32, 34, 116, 92, 13, 10>>, <<62, 32, 117, 34, 41, 13, 10>>, <<62, 32, 91, 97, 93, 40, 47, 117, 92, 13, 10>>, <<62, 32, 41, 13, 10>>, <<62, 32, 91, 97, 92, 13, 10>>, <<62, 32, 98, 93, 13, 10>>, <<62, 32, 98, 93, 58, 32, 47, 117, 13, 10>>, <<62, 32, 60, 97, 32, 98, 61, 34, 99, 92, 13, 10>>, <<62, 32, 100, 34, 62, 13, 10>>, <<62, 32, 96, 97, 92, 13, 10>>, <<62, 32, 98, 96, 13, 10>>, <<62, 32, 60, 104, 116, 116, 112, 58, 47, 47, 97, 92, 13, 10>>, <<62, 32, 98, 62, 13, 10>>, <<62, 32, 91, 120, 93, 58, 32, 60, 117, 92, 13, 10>>, <<62, 32, 118, 62, 13, 10>>, <<62, 32, 91, 120, 93, 58, 32, 47, 117, 32, 39, 116, 92, 13, 10>>, <<62, 32, 119, 39, 13, 10>>, <<62, 32, 91, 120, 93, 58, 32, 47, 117, 92, 13, 10>>, <<62, 32, 91, 120, 93, 13, 10>>, <<45, 32, 91, 97, 93, 40, 60, 98, 92, 13, 10>>, <<45, 32, 99, 62, 41, 13, 10>>, <<45, 32, 91, 97, 93, 40, 47, 117, 32, 34, 116, 92, 13, 10>>, <<45, 32, 117, 34, 41, 13, 10>>, <<45, 32, 91, 97, 93, 40, 47, 117, 92, 13, 10>>, <<45, 32, 41, 13, 10>>, <<45, 32, 91, 97, 92, 13, 10>>, <<45, 32, 98, 93, 13, 10>>, <<45, 32, 98, 93, 58, 32, 47, 117, 13, 10>>, <<45, 32, 60, 97, 32, 98, 61, 34, 99, 92, 13, 10>>, <<45, 32, 100, 34, 62, 13, 10>>, <<45, 32, 96, 97, 92, 13, 10>>, <<45, 32, 98, 96, 13, 10>>, <<45, 32, 60, 104, 116, 116, 112, 58, 47, 47, 97, 92, 13, 10>>, <<45, 32, 98, 62, 13, 10>>, <<45, 32, 91, 120, 93, 58, 32, 60, 117, 92, 13, 10>>, <<45, 32, 118, 62, 13, 10>>, <<45, 32, 91, 120, 93, 58, 32, 47, 117, 32, 39, 116, 92, 13, 10>>, <<45, 32, 119, 39, 13, 10>>, <<45, 32, 91, 120, 93, 58, 32, 47, 117, 92, 13, 10>>, <<45, 32, 91, 120, 93, 13, 10>>, <<13, 10>> }
            [] name = "tabs" -> { <<45, 32, 96, 96, 96, 10>>, <<32, 32, 96, 96, 96, 10>>, <<32, 32, 9, 120, 10>>, <<32, 32, 120, 10>>, <<9, 120, 10>>, <<62, 32, 96, 96, 96, 10>>, <<62, 32, 9, 120, 10>>, <<62, 9, 120, 10>>, <<96, 96, 96, 10>>, <<32, 9, 120, 10>>, <<49, 46, 32, 96, 96, 96, 10>>, <<32, 32, 32, 9, 120, 10>>, <<32, 32, 32, 96, 96, 96, 10>>, <<10>>, <<120, 10>>, <<32, 32, 32, 32, 9, 120, 10>>, <<45, 32, 9, 120, 10>>, <<32, 96, 96, 96, 10>>, <<45, 9, 120, 10>>, <<9, 9, 120, 10>>, <<32, 9, 45, 32, 120, 10>>, <<49, 46, 9, 120, 10>> }
VARIABLES doc
Init == doc = <<>>
Flatten(d) == LET RECURSIVE F(_) F(k) == IF k > Len(d) THEN <<>> ELSE d[k] \o F(k+1) IN F(1)
\* a shape without a final LF would glue to the next one: it can only be the last line
Next == /\ Len(doc) < MaxLines
        /\ (IF doc = <<>> THEN TRUE ELSE doc[Len(doc)][Len(doc[Len(doc)])] \in {LF, 13})
        /\ \E sh \in Shapes : doc' = Append(doc, sh)
\* ---- C09 at model level: quoting every line nests the blocks unchanged ----
RECURSIVE Strip(_), StripSeq(_)
StripSeq(ns) == [i \in 1..Len(ns) |-> Strip(ns[i])]
Strip(n) == <<n.k, (IF n.k \in {"atx", "setext", "item"} THEN n.a ELSE 0), (IF n.k \in {"list", "item"} THEN n.t ELSE TRUE), StripSeq(n.kids), Len(n.txt)>>
QuoteDoc(d) == [k \in 1..Len(d) |-> <<GT, SP>> \o d[k]]
WellFormedDoc(d) == \A k \in 1..(Len(d)-1) : d[k][Len(d[k])] = LF
QuoteLemma == (doc # <<>> /\ WellFormedDoc(doc)) =>
   LET q == ParseDoc(Flatten(QuoteDoc(doc)))
   IN Len(q) = 1 /\ q[1].k = "quote" /\ StripSeq(q[1].kids) = StripSeq(ParseDoc(Flatten(doc)))
Spaces(n) == [k \in 1..n |-> SP]
ListDoc(d, mk, n) == [k \in 1..Len(d) |-> IF k = 1 THEN mk \o Spaces(n) \o d[k] ELSE Spaces(Len(mk) + n) \o d[k]]
NoBlankLines(d) == \A k \in 1..Len(d) : ~RestBlank(d[k], 0)
ListLemma == (doc # <<>> /\ WellFormedDoc(doc) /\ doc[1][1] # SP /\ NoBlankLines(doc)) =>
   \A mk \in {<<DASH>>, <<49, DOT>>, <<49, 50, RP>>} : \A n \in 1..4 :
     LET ld == ListDoc(doc, mk, n)
         q == ParseDoc(Flatten(ld))
     IN ThematicBreak(ld[1], 0) \/
        ( Len(q) = 1 /\ q[1].k = "list" /\ Len(q[1].kids) = 1 /\ q[1].kids[1].k = "item"
          /\ StripSeq(Tail(q[1].kids[1].kids)) = StripSeq(ParseDoc(Flatten(doc))) )
\* ---- C16 at model level: every root block parsed alone gives the same block ----
RECURSIVE LineStartBefore(_, _)
LineStartBefore(src, o) == IF o = 0 \/ src[o] = LF THEN o ELSE LineStartBefore(src, o - 1)
ReparseLemma == doc # <<>> =>
   LET src == Flatten(doc)
       roots == ParseDoc(src)
   IN \A r \in 1..Len(roots) :
        LET ls == LineStartBefore(src, roots[r].s)
            alone == ParseDoc(SubSeq(src, ls + 1, roots[r].e))
        IN Len(alone) = 1 /\ Strip(alone[1]) = Strip(roots[r])
\* ---- C14 at model level: a missing final newline does not change the blocks ----
FinalNewlineLemma == (doc # <<>> /\ doc[Len(doc)][Len(doc[Len(doc)])] # LF) =>
   StripSeq(ParseDoc(Flatten(doc) \o <<LF>>)) = StripSeq(ParseDoc(Flatten(doc)))
\* ---- C05/C02 at model level: the skeleton is a legal derivation with nested, ordered spans ----
RECURSIVE WellNested(_, _, _)
WellNested(ns, lo, hi) == \A i \in 1..Len(ns) :
     /\ lo <= ns[i].s /\ ns[i].s <= ns[i].e /\ ns[i].e <= hi
     /\ (i > 1 => ns[i-1].e <= ns[i].s)
     /\ (ns[i].k = "list" => ns[i].kids # <<>> /\ \A j \in 1..Len(ns[i].kids) : ns[i].kids[j].k = "item" /\ ns[i].kids[j].t = ns[i].t)
     /\ (ns[i].k = "item" => ns[i].kids # <<>> /\ ns[i].kids[1].k = "marker")
     /\ WellNested(ns[i].kids, ns[i].s, ns[i].e)
SkeletonLegal == doc # <<>> => WellNested(ParseDoc(Flatten(doc)), 0, Len(Flatten(doc)))
Emit == doc # <<>> => PrintT(ToJson([src |-> Flatten(doc), tree |-> SkelLSeq(ParseDoc(Flatten(doc)), Flatten(doc))]))
=============================================================================
