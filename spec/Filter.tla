---------------------------- MODULE Filter ----------------------------
(* Tag filtering (C17): HTMLRenderer.FilterTag / filterRaw.

   Abstract requirement, for raw HTML r, a predicate P on lower-cased tag names and the rendered outputs
   plain (no filter) and filt (with P):
     (i)   filt differs from plain only by '<' characters replaced with "&lt;"          (OnlyLt)
     (ii)  a predicate that rejects nothing changes nothing                              (decided with P = never)
     (iii) an HTML tokenizer (Html.tla, WHATWG data-state rules) reading filt never sees a start tag whose
           lower-cased name P rejects                                                     (NoRejectedStart)
   Implementation-shaped layer: FR is html_renderer.go's scanner (copy / comment / declaration states,
   "a tag runs to the next '>'"), a SECOND definition; the generator config checks it against the abstract
   requirement on every raw string of up to MaxToks tokens (ScannerSound), and emits the vectors so that the
   real renderer answers for each of them (direction A); recorded real outputs are judged by Verdict only.
*)
EXTENDS Html

CONSTANTS MaxToks, TokSet, PerLineState, FirstLines

\* ---- predicates: 1 GFM, 2 always, 3 never, 4 {script}, 5 {b, script}
Name(str) == CASE str = "script" -> <<115, 99, 114, 105, 112, 116>> [] str = "style" -> <<115, 116, 121, 108, 101>>
               [] str = "title" -> <<116, 105, 116, 108, 101>> [] str = "textarea" -> <<116, 101, 120, 116, 97, 114, 101, 97>>
               [] str = "xmp" -> <<120, 109, 112>> [] str = "iframe" -> <<105, 102, 114, 97, 109, 101>>
               [] str = "noembed" -> <<110, 111, 101, 109, 98, 101, 100>> [] str = "noframes" -> <<110, 111, 102, 114, 97, 109, 101, 115>>
               [] str = "plaintext" -> <<112, 108, 97, 105, 110, 116, 101, 120, 116>> [] str = "b" -> <<98>>
GFMSet == {Name("title"), Name("textarea"), Name("style"), Name("xmp"), Name("iframe"), Name("noembed"), Name("noframes"), Name("script"), Name("plaintext")}
Rejects(p, name) == CASE p = 1 -> name \in GFMSet [] p = 2 -> TRUE [] p = 3 -> FALSE [] p = 4 -> name = Name("script")
                      [] p = 5 -> name \in {Name("b"), Name("script")} [] OTHER -> FALSE

\* ---- abstract requirement
NoRejectedStart(out, p) == LET toks == Tokens(out) IN \A k \in 1..Len(toks) : ~(toks[k].t = "start" /\ Rejects(p, toks[k].name))
ESC == <<38, 108, 116, 59>>
\* filt is plain with some '<' replaced by "&lt;" (walk both; deterministic because plain is given)
RECURSIVE OnlyLtFrom(_, _, _, _)
OnlyLtFrom(plain, i, filt, j) ==
  IF i > Len(plain) THEN j > Len(filt)
  ELSE \/ (j <= Len(filt) /\ filt[j] = plain[i] /\ OnlyLtFrom(plain, i + 1, filt, j + 1))
       \/ (plain[i] = 60 /\ HasPrefixAt(filt, j, ESC) /\ OnlyLtFrom(plain, i + 1, filt, j + 4))
OnlyLt(plain, filt) == OnlyLtFrom(plain, 1, filt, 1)

\* ---- the code's scanner (html_renderer.go filterRaw). The renderer calls it once per raw HTML node, i.e. once per LINE of
\* an HTML block or inline tag; the scanner state (copy / comment / decl / tag) carries over from one line to the next, and a
\* non-rejected tag runs to the next '>' ON ITS LINE, else the scanner stays in the tag on the following line.
\* Named deviation PerLineState (FALSE in every property config): the state is reset at every line start, as the pinned code
\* did (known_findings.json F-C17-per-line-filter-state); with it TLC finds ScannerSound violated, e.g. by
\* "<![CDATA[" LF "<!--" ">" "<script" ">".
RECURSIVE IndexOfIn(_, _, _, _), NameEnd(_, _, _), LineEnd(_, _)
LFB == 10
LineEnd(s, i) == IF i > Len(s) THEN Len(s) ELSE IF s[i] = LFB THEN i ELSE LineEnd(s, i + 1)     \* index of the line's last byte
IndexOfIn(s, i, c, lim) == IF i > lim THEN 0 ELSE IF s[i] = c THEN i ELSE IndexOfIn(s, i + 1, c, lim)
NameEnd(s, i, lim) == IF i >= lim THEN lim ELSE IF IsAlpha(s[i]) \/ IsDigit(s[i]) \/ s[i] = DASH THEN NameEnd(s, i + 1, lim) ELSE i
LowerSeq(x) == [k \in 1..Len(x) |-> Lower(x[k])]
Carry(st, s, i) == IF PerLineState /\ i > 1 /\ s[i - 1] = LFB THEN "copy" ELSE st          \* i is the first byte of a line
RECURSIVE FR(_, _, _, _, _)
FR(s, i, st0, out, p) ==
  IF i > Len(s) THEN out
  ELSE
  LET st == Carry(st0, s, i) IN
  CASE st = "copy" ->
         IF s[i] # LT THEN FR(s, i + 1, "copy", Append(out, s[i]), p)
         ELSE IF HasPrefixAt(s, i, <<LT, BANG, DASH, DASH>>) THEN
              (IF At(s, i + 4) = GT THEN FR(s, i + 5, "copy", out \o SubSeq(s, i, i + 4), p)
               ELSE IF At(s, i + 4) = DASH /\ At(s, i + 5) = GT THEN FR(s, i + 6, "copy", out \o SubSeq(s, i, i + 5), p)
               ELSE FR(s, i + 4, "comment", out \o SubSeq(s, i, i + 3), p))
         ELSE IF At(s, i + 1) \in {BANG, QM} THEN FR(s, i + 2, "decl", out \o SubSeq(s, i, i + 1), p)
         ELSE IF IsAlpha(At(s, i + 1)) \/ At(s, i + 1) = SLASH THEN
              LET ns == i + 1
                  le == LineEnd(s, i)
                  gt == IndexOfIn(s, ns, GT, le)
                  tagEnd == IF gt = 0 THEN le + 1 ELSE gt + 1          \* exclusive
                  ne == IF IsAlpha(At(s, ns)) THEN NameEnd(s, ns + 1, tagEnd) ELSE ns
                  name == LowerSeq(SubSeq(s, ns, ne - 1))
              IN IF Rejects(p, name) THEN FR(s, ns, "copy", out \o ESC, p)      \* the rest of the tag is text now: keep scanning it
                 ELSE FR(s, tagEnd, (IF gt = 0 THEN "tag" ELSE "copy"), out \o SubSeq(s, i, tagEnd - 1), p)
         ELSE FR(s, i + 1, "copy", Append(out, s[i]), p)
    [] st = "comment" ->
         IF HasPrefixAt(s, i, <<DASH, DASH, GT>>) THEN FR(s, i + 3, "copy", out \o <<DASH, DASH, GT>>, p)
         ELSE IF HasPrefixAt(s, i, <<DASH, DASH, BANG, GT>>) THEN FR(s, i + 4, "copy", out \o <<DASH, DASH, BANG, GT>>, p)
         ELSE FR(s, i + 1, "comment", Append(out, s[i]), p)
    [] st \in {"decl", "tag"} -> FR(s, i + 1, (IF s[i] = GT THEN "copy" ELSE st), Append(out, s[i]), p)
FilterRaw(s, p) == FR(s, 1, "copy", <<>>, p)

\* ---- generator: raw strings = concatenations of up to MaxToks tokens
Tk(name) == CASE name = "<" -> <<LT>> [] name = ">" -> <<GT>> [] name = "!" -> <<BANG>> [] name = "-" -> <<DASH>> [] name = "/" -> <<SLASH>>
              [] name = "?" -> <<QM>> [] name = "[CDATA[" -> <<91, 67, 68, 65, 84, 65, 91>> [] name = "]]" -> <<93, 93>>
              [] name = "script" -> Name("script") [] name = "ScRiPt" -> <<83, 99, 82, 105, 80, 116>> [] name = "b" -> <<98>>
              [] name = "3" -> <<51>> [] name = " " -> <<32>> [] name = "DQ" -> <<34>> [] name = "=" -> <<61>> [] name = "a" -> <<97>>
              [] name = "NL" -> <<10>> [] name = "<!--" -> <<LT, BANG, DASH, DASH>> [] name = "<script" -> <<LT>> \o Name("script")
              \* first lines that leave a tokenizer inside a bogus comment, a comment or a tag when the line ends
              [] name = "P?" -> <<LT, QM, 10>> [] name = "Pb" -> <<LT, 98, 10>> [] name = "Pcdata" -> <<LT, BANG, 91, 67, 68, 65, 84, 65, 91, 10>>
              [] name = "Pcomment" -> <<LT, BANG, DASH, DASH, 10>> [] name = "Pattr" -> <<LT, 98, 32, 97, 61, 34, 10>>
VARIABLES doc
RECURSIVE FlattenFrom(_, _)
FlattenFrom(d, k) == IF k > Len(d) THEN <<>> ELSE Tk(d[k]) \o FlattenFrom(d, k + 1)
Raw == FlattenFrom(doc, 1)
\* FirstLines: a subset of {"P?", "Pb", "Pcdata", "Pcomment", "Pattr"} (empty in the wide-alphabet configs)
GenInit == (doc = <<>> \/ \E f \in FirstLines : doc = <<f>>) /\ tid = 0 /\ verdict = "ok"
GenNext == Len(doc) < MaxToks /\ (\E t \in TokSet : doc' = Append(doc, t)) /\ UNCHANGED <<tid, verdict>>
\* the implementation-shaped scanner satisfies the abstract requirement (raw string alone, as one data-state document)
ScannerSound == \A p \in {1, 4, 5} : LET f == FilterRaw(Raw, p) IN NoRejectedStart(f, p) /\ OnlyLt(Raw, f)
ScannerIdentity == FilterRaw(Raw, 3) = Raw
EmitRaw == PrintT(ToJson([raw |-> Raw]))

\* ---- trace validation: real outputs. record: p, plain, filt
FilterVerdict(t) ==
  IF ~OnlyLt(t.plain, t.filt) THEN "differs-by-more-than-escaped-angle-brackets"
  ELSE IF t.p = 3 /\ t.filt # t.plain THEN "a-predicate-that-rejects-nothing-changed-the-output"
  ELSE IF ~NoRejectedStart(t.filt, t.p) THEN "rejected-element-can-still-be-opened"
  ELSE "ok"
FInit == (\E k \in 1..Len(Traces) : tid = k /\ verdict = "init") /\ doc = <<>>
FNext == verdict = "init" /\ verdict' = FilterVerdict(Traces[tid]) /\ UNCHANGED <<tid, doc>>
=============================================================================
