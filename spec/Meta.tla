---------------------------- MODULE Meta ----------------------------
(* Relational specifications over pairs of runs (C09, C14, C16).

   The transformations are DEFINED here (Quote, ListIndent, ToCRLF, ToCR, Pad, AppendLF) together with their
   preconditions; a recorded pair (x, tx) is accepted only if tx is exactly the transformation of x, the
   precondition holds, and the observations of the two runs stand in the required relation. Observations
   are canonical strings interned to integers by the harness (per-root safe-mode HTML, tree dumps).

   Records:  rel, x, tx, arg (marker / N / pad bytes), a (observations of Run(x)), b (observations of Run(tx)),
             shape (structure facts about Run(tx)).
     rel "quote":  a = HTML ids of the root blocks of x;  b = HTML ids of the children of the single root of tx;
                   shape = <<number of roots, kind of root 1>>
     rel "list":   arg = <<marker bytes, N>>; as quote, children of the single item (after its marker);
                   shape = <<number of roots, kind of root 1, number of items, thematic?>>
     rel "crlf" / "cr":  a, b = EOL-normalised per-root HTML ids
     rel "pad":    arg = pad bytes; a, b = <<tree id, StartOffset, EndOffset, StartLine>> per root
     rel "final":  a, b = whitespace-normalised safe-mode per-root HTML ids
     rel "reparse": a = <<kind, StartOffset, EndOffset, tree id>> per root; b = <<number of roots, tree id of the first>> per root re-parsed alone
*)
EXTENDS Bytes, TLC, Json

CONSTANT File
Traces == ndJsonDeserialize(File)

TAB == 9   GTC == 62
\* apply F(index, line) to every line
MapLines(ls, F(_, _)) == [i \in 1..Len(ls) |-> F(i, ls[i])]

\* ---- C09
Quote(x) == Concat(MapLines(SplitLines(x), LAMBDA i, l : <<GTC, SP>> \o l))
\* the marker without its optional space: legitimate when no line begins with a space (which the marker would swallow)
QuoteBare(x) == Concat(MapLines(SplitLines(x), LAMBDA i, l : <<GTC>> \o l))
NoLineStartsWithSpace(x) == \A i \in 1..Len(SplitLines(x)) : SplitLines(x)[i][1] # SP
Spaces(n) == [i \in 1..n |-> SP]
ListIndent(x, marker, n) ==
  Concat(MapLines(SplitLines(x), LAMBDA i, l : IF i = 1 THEN marker \o Spaces(n) \o l
                                               ELSE IF LineBody(l) = <<>> THEN l
                                               ELSE Spaces(Len(marker) + n) \o l))
TabFree(x) == \A i \in 1..Len(x) : x[i] # TAB
NoSpaceOnlyLines(x) == \A i \in 1..Len(SplitLines(x)) :
                          LET b == LineBody(SplitLines(x)[i]) IN b = <<>> \/ \E j \in 1..Len(b) : b[j] # SP
ListPre(x) == TabFree(x) /\ x # <<>> /\ x[1] \notin {SP, LF, CR} /\ NoSpaceOnlyLines(x)
IsMarker(m) == \/ m \in {<<45>>, <<43>>, <<42>>}
               \/ /\ Len(m) \in 2..10 /\ m[Len(m)] \in {46, 41}
                  /\ \A i \in 1..(Len(m) - 1) : m[i] \in 48..57
\* first line of the result is a thematic break (decided with the 4.1 definition)
FirstLineThematic(tx) ==
  LET b == LineBody(SplitLines(tx)[1]) IN
  \E c \in {45, 95, 42} : (\A i \in 1..Len(b) : b[i] \in {c, SP}) /\ Cardinality({i \in 1..Len(b) : b[i] = c}) >= 3
KQuote == 9   KList == 11

\* ---- C14
ToCRLF(x) == Concat([i \in 1..Len(x) |-> IF x[i] = LF THEN <<CR, LF>> ELSE <<x[i]>>])
ToCR(x) == [i \in 1..Len(x) |-> IF x[i] = LF THEN CR ELSE x[i]]
CRFree(x) == \A i \in 1..Len(x) : x[i] # CR
EndsWithEOL(x) == x # <<>> /\ x[Len(x)] \in {LF, CR}

\* ---- verdicts
Verdict(t) ==
  CASE t.rel \in {"quote", "quotebare"} ->
         \* long = 1: an input of more than 600 bytes is not shipped (x = tx = <<>>); the harness's transformation is trusted for it
         IF t.long = 0 /\ (~TabFree(t.x) \/ (t.rel = "quotebare" /\ ~NoLineStartsWithSpace(t.x))) THEN "precondition"
         ELSE IF t.long = 0 /\ t.tx # (IF t.rel = "quote" THEN Quote(t.x) ELSE QuoteBare(t.x)) THEN "not-the-transformation"
         ELSE IF t.a = <<>> THEN (IF t.shape[1] = 0 \/ (t.shape[1] = 1 /\ t.shape[2] = KQuote /\ t.b = <<>>) THEN "ok" ELSE "quoted-empty-document-has-content")
         ELSE IF t.shape[1] # 1 \/ t.shape[2] # KQuote THEN "not-a-single-block-quote"
         ELSE IF t.b # t.a THEN "contents-differ"
         ELSE "ok"
    [] t.rel = "list" ->
         IF t.long = 0 /\ (~ListPre(t.x) \/ ~IsMarker(t.arg[1]) \/ t.arg[2] \notin 1..4) THEN "precondition"
         ELSE IF t.long = 0 /\ t.tx # ListIndent(t.x, t.arg[1], t.arg[2]) THEN "not-the-transformation"
         ELSE IF t.long = 0 /\ FirstLineThematic(t.tx) THEN "ok"          \* (the harness does not record long inputs whose result begins with a thematic break)
         ELSE IF t.shape[1] # 1 \/ t.shape[2] # KList \/ t.shape[3] # 1 THEN "not-a-one-item-list"
         ELSE IF t.b # t.a THEN "contents-differ"
         ELSE "ok"
    [] t.rel = "crlf" ->
         IF ~CRFree(t.x) THEN "precondition" ELSE IF t.tx # ToCRLF(t.x) THEN "not-the-transformation"
         ELSE IF t.b # t.a THEN "rendering-differs-beyond-line-ending-bytes" ELSE "ok"
    [] t.rel = "cr" ->
         IF ~CRFree(t.x) THEN "precondition" ELSE IF t.tx # ToCR(t.x) THEN "not-the-transformation"
         ELSE IF t.b # t.a THEN "rendering-differs-beyond-line-ending-bytes" ELSE "ok"
    [] t.rel = "pad" ->
         \* the prefix is arg written rep times (rep > 1: hundreds of blank lines in front of a small document read with a small buffer
         \* limit; tx is not shipped then and the repetitions must not fuse a CR with an LF)
         IF ~IsBlank(t.arg) \/ ~EndsWithEOL(t.arg) \/ (t.arg[Len(t.arg)] = CR /\ t.x # <<>> /\ t.x[1] = LF) \/ t.rep < 1
            \/ (t.rep > 1 /\ t.arg[Len(t.arg)] = CR /\ t.arg[1] = LF) THEN "precondition"
         ELSE IF t.rep = 1 /\ t.tx # t.arg \o t.x THEN "not-the-transformation"
         ELSE IF Len(t.a) # Len(t.b) THEN "number-of-blocks-changed"
         ELSE IF \E k \in 1..Len(t.a) : t.a[k][1] # t.b[k][1] THEN "tree-or-source-changed"
         ELSE IF \E k \in 1..Len(t.a) : t.b[k][2] # t.a[k][2] + t.rep * Len(t.arg) \/ t.b[k][3] # t.a[k][3] + t.rep * Len(t.arg) THEN "offsets-not-shifted-by-prefix"
         ELSE IF \E k \in 1..Len(t.a) : t.b[k][4] # t.a[k][4] + t.rep * LineEndings(t.arg) THEN "lines-not-shifted-by-prefix"
         ELSE "ok"
    [] t.rel = "final" ->
         IF EndsWithEOL(t.x) THEN "precondition" ELSE IF t.tx # t.x \o <<LF>> THEN "not-the-transformation"
         ELSE IF t.b # t.a THEN "final-newline-changes-the-document" ELSE "ok"
    [] t.rel = "reparse" ->
         \* exception: a paragraph (or its setext form) that directly follows a definition split off the same source paragraph
         LET Exempt(k) == k > 1 /\ t.a[k][1] \in {1, 4} /\ t.a[k-1][1] = 8 /\ t.a[k][2] = t.a[k-1][3] IN
         IF Len(t.b) # Len(t.a) THEN "record"
         ELSE IF \E k \in 1..Len(t.a) : ~Exempt(k) /\ t.b[k][1] # 1 THEN "not-exactly-one-root-block"
         ELSE IF \E k \in 1..Len(t.a) : ~Exempt(k) /\ t.b[k][2] # t.a[k][4] THEN "tree-differs-when-parsed-alone"
         ELSE "ok"
    [] OTHER -> "unknown-relation"

VARIABLES tid, verdict
vars == <<tid, verdict>>
Init == \E k \in 1..Len(Traces) : tid = k /\ verdict = "init"
Next == verdict = "init" /\ verdict' = Verdict(Traces[tid]) /\ UNCHANGED tid
Accepted == verdict \in {"init", "ok"}
=============================================================================
