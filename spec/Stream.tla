---------------------------- MODULE Stream ----------------------------
(* BlockParser.NextBlock / readline / makeRoot (parse.go) as a state machine with a reader environment.

   Implementation layer (what the code has):  buf (NUL-padded), i, offset, lineno, err latch, the queue of
   closed-but-unreturned blocks, the line loop with its one-byte CR look-ahead, padNulls on every fill,
   unpaddedNullLength / fillNulls / lineCount when a root block is cut off the buffer, re-basing of leftovers.
   Environment: a reader that delivers any 0..Chunk bytes per Read, may report EOF together with data or
   alone, or fails after exactly failAt bytes.
   Abstract layer (what a caller may observe):  StreamEqualsMemory (C08), Tiling (C01), NoReadAfterLatch.
   Size limit (readline, maxBlockSize): the buffer never grows beyond MaxBuf; a Read asks for Chunk bytes, or for a
   third of the room that is left once three times a chunk no longer fits (every byte read may be a NUL that is padded to
   three); when no room is left and the pending line has no line ending yet, the line is DROPPED, the error
   "line N: block too large" is latched and everything goes on as at end of input (action inside Run: TooLarge).
   Abstract layer for it: BufBounded, LimitPrefix (the caller receives exactly the blocks of the input before the
   dropped line, then that error with that line's number, persistently), LimitNotPremature.

   The block grammar is a deliberately small deterministic one that exercises every book-keeping path:
   '#' line = one-line block (closed on its own line, ends after its EOL); '`' line toggles a block that
   swallows blank lines; other text = paragraph closed by the NEXT line (ends at that line's start), so a
   line can close one block and complete another (pending queue non-empty).
   The real block grammar is modelled in Blocks.tla; this module is about the streaming machinery.
*)
EXTENDS Bytes, TLC, Json, Randomization
CONSTANTS Alphabet,   \* set of byte values used to build inputs
          MaxLen,     \* maximum input length
          Chunk,      \* model chunkSize
          MaxBuf      \* model maxBlockSize (a value no buffer can reach, e.g. 1000, switches the limit off)

\* ---------- parser record ----------
\* buf, i, offset, lineno, err ("nil","EOF","E"), blocks (seq of [s,e,k]; e = -1 open), ls (lineStart), mode, out
\* mode: "idle" = between NextBlock calls; "skip" = skipping blank lines; "lines" = in the line loop waiting for a line
NewParser(buf, err, lineno) == [buf |-> buf, i |-> 0, offset |-> 0, lineno |-> lineno, err |-> err,
                                blocks |-> <<>>, ls |-> 0, mode |-> "idle", out |-> <<>>, ret |-> "nil", want |-> FALSE,
                                eline |-> 0, lim |-> 0, dropped |-> 0]

\* readline: how many bytes the next Read may deliver (newSize - len(buf)); <= 0 means the block is too large
Req(p) == IF Len(p.buf) + Chunk * 3 > MaxBuf THEN (MaxBuf - Len(p.buf)) \div 3 ELSE Chunk
\* the pending line is dropped, the error latched; eline = its line number, lim = buffer length at that moment,
\* dropped = how many input bytes (unpadded) of the pending line had been read already
TooLarge(p) == [p EXCEPT !.buf = Sub(p.buf, 0, p.i), !.err = "TooLarge", !.eline = p.lineno + LineCount(Sub(p.buf, 0, p.i)),
                         !.lim = Len(p.buf), !.dropped = Unpadded(Sub(p.buf, p.i, Len(p.buf)))]

\* index (0-based, relative to buf) of first CR/LF at or after i, or -1
RECURSIVE FindEOL(_, _)
FindEOL(buf, k) == IF k >= Len(buf) THEN -1 ELSE IF buf[k+1] \in {LF, CR} THEN k ELSE FindEOL(buf, k+1)

\* readline scan: returns eolEnd or -1 if more data is needed
ScanEOL(p) ==
  LET e == FindEOL(p.buf, p.i) IN
  IF e >= 0 /\ p.buf[e+1] = LF THEN e + 1
  ELSE IF e >= 0 /\ e + 1 < Len(p.buf) THEN (IF p.buf[e+2] = LF THEN e + 2 ELSE e + 1)
  ELSE IF p.err # "nil" THEN Len(p.buf)
  ELSE -1

\* ---------- toy line grammar (exercises every book-keeping path of makeRoot) ----------
FirstNonSpace(L) == LET S == {k \in 1..Len(L) : L[k] # SP} IN IF S = {} THEN 0 ELSE CHOOSE k \in S : \A j \in S : k <= j
IsOpen(bs) == bs # <<>> /\ bs[Len(bs)].e = -1
CloseLast(bs, end) == [bs EXCEPT ![Len(bs)].e = end]
ProcessLine(bs, ls, L) ==
  LET f == FirstNonSpace(L)
      c == IF f = 0 THEN -1 ELSE L[f]
      endl == ls + Len(L)
      open == IsOpen(bs)
      kind == IF open THEN bs[Len(bs)].k ELSE "none"
  IN
  IF L = <<>> THEN (IF open THEN CloseLast(bs, ls) ELSE bs)
  ELSE IF kind = "fence" THEN (IF c = TICK THEN CloseLast(bs, endl) ELSE bs)
  ELSE LET bs1 == IF kind = "para" /\ (IsBlank(L) \/ c = HASH \/ c = TICK) THEN CloseLast(bs, ls) ELSE bs
           stillPara == kind = "para" /\ ~(IsBlank(L) \/ c = HASH \/ c = TICK)
       IN IF stillPara \/ IsBlank(L) THEN bs1
          ELSE IF c = HASH THEN Append(bs1, [s |-> ls + f - 1, e |-> endl, k |-> "atx"])
          ELSE IF c = TICK THEN Append(bs1, [s |-> ls + f - 1, e |-> -1, k |-> "fence"])
          ELSE Append(bs1, [s |-> ls + f - 1, e |-> -1, k |-> "para"])

\* makeRoot: cut first closed block off the buffer
CanCut(p) == p.blocks # <<>> /\ p.blocks[1].e >= 0
Cut(p) ==
  LET n == p.blocks[1].e
      src == Sub(p.buf, 0, n)
      ol == Unpadded(src)
      rec == [so |-> p.offset, eo |-> p.offset + ol, line |-> p.lineno, src |-> Fill(src), k |-> p.blocks[1].k]
      rest == [j \in 1..(Len(p.blocks)-1) |-> [p.blocks[j+1] EXCEPT !.s = @ - n, !.e = IF @ >= 0 THEN @ - n ELSE @]]
  IN [p EXCEPT !.out = Append(@, rec), !.blocks = rest, !.offset = @ + ol, !.lineno = @ + LineCount(src),
               !.buf = Sub(p.buf, n, Len(p.buf)), !.i = @ - n, !.mode = "idle"]

DropConsumed(p) == [p EXCEPT !.offset = @ + Unpadded(Sub(p.buf, 0, p.i)), !.lineno = @ + LineCount(Sub(p.buf, 0, p.i)),
                            !.buf = Sub(p.buf, p.i, Len(p.buf)), !.i = 0]

\* Run the parser deterministically until it needs a Read (want = TRUE), or has returned an error (mode "done").
\* Each NextBlock return appends to out (block) and goes back to "idle", from which the caller calls again.
RECURSIVE Run(_)
Run(p) ==
  IF p.mode = "done" \/ p.want THEN p
  ELSE IF p.mode = "idle" THEN
      IF CanCut(p) THEN Run(Cut(p))
      ELSE IF Len(p.blocks) > 0 THEN Run([p EXCEPT !.ls = p.i, !.mode = "lines"])
      ELSE Run([DropConsumed(p) EXCEPT !.mode = "skip"])
  ELSE LET e == ScanEOL(p) IN
      IF e < 0 THEN (IF Req(p) <= 0 THEN Run(TooLarge(p)) ELSE [p EXCEPT !.want = TRUE])
      ELSE IF p.mode = "skip" THEN
          IF ~(p.i < e) THEN [p EXCEPT !.mode = "done", !.ret = p.err]          \* readline false: return p.err
          ELSE LET q == [p EXCEPT !.i = e] IN
               IF IsBlank(Sub(q.buf, 0, q.i))
               THEN Run([q EXCEPT !.offset = @ + Unpadded(Sub(q.buf, 0, q.i)), !.lineno = @ + 1,
                                  !.buf = Sub(q.buf, q.i, Len(q.buf)), !.i = 0])
               ELSE LET bs == ProcessLine(q.blocks, 0, Sub(q.buf, 0, q.i))
                        r == [q EXCEPT !.blocks = bs, !.ls = q.i, !.mode = "lines"]
                    IN IF CanCut(r) THEN Run(Cut(r)) ELSE Run(r)
      ELSE \* mode = "lines": ls is the start of the line to read
          LET q == [p EXCEPT !.i = e]
              bs == ProcessLine(q.blocks, q.ls, Sub(q.buf, q.ls, q.i))
              r == [q EXCEPT !.blocks = bs, !.ls = q.i]
          IN IF CanCut(r) THEN Run(Cut(r)) ELSE Run(r)

\* Reference: in-memory Parse = same machine with pre-filled padded buffer and err = EOF
RefOut(x) == Run(NewParser(Pad(x), "EOF", 1)).out

\* ---------- environment + system ----------
VARIABLES input, rpos, failAt, p, sched, empties
vars == <<input, rpos, failAt, p, sched, empties>>
view == <<input, rpos, failAt, p>>          \* sched/empties are observation only (VIEW in exhaustive configs)

CONSTANT MaxEmpty    \* bound on empty reads recorded per behaviour (history only)

RECURSIVE SeqsUpTo(_, _)
SeqsUpTo(S, n) == IF n = 0 THEN {<<>>} ELSE LET R == SeqsUpTo(S, n-1) IN R \cup {Append(s, c) : s \in {r \in R : Len(r) = n-1}, c \in S}

Init == /\ input \in SeqsUpTo(Alphabet, MaxLen)
        /\ failAt \in {-1} \cup (0..Len(input))
        /\ rpos = 0 /\ sched = <<>> /\ empties = 0
        /\ p = Run(NewParser(<<>>, "nil", 1))

\* simulation only: random longer inputs (function sets are sampled, not enumerated)
InitSim == /\ \E n \in 5..MaxLen : input \in RandomSubset(8, [1..n -> Alphabet])
           /\ failAt \in {-1} \cup (0..Len(input))
           /\ rpos = 0 /\ sched = <<>> /\ empties = 0
           /\ p = Run(NewParser(<<>>, "nil", 1))

Cutoff == IF failAt >= 0 THEN failAt ELSE Len(input)

\* The parser wants data: the reader delivers k bytes (0 <= k <= Chunk), possibly together with the
\* terminal condition (EOF or the failure), which may only be reported once everything before it was delivered.
Read == /\ p.want
        /\ \E k \in 0..Req(p) :
             /\ rpos + k <= Cutoff
             /\ \E fin \in BOOLEAN :
                  /\ fin => rpos + k = Cutoff
                  /\ (k = 0 /\ ~fin) => empties < MaxEmpty
                  /\ LET data == Sub(input, rpos, rpos + k)
                         nerr == IF fin THEN (IF failAt >= 0 THEN "E" ELSE "EOF") ELSE "nil"
                         q == [p EXCEPT !.buf = p.buf \o Pad(data), !.err = nerr, !.want = FALSE]
                     IN /\ p' = Run(q)
                        /\ rpos' = rpos + k
                        /\ sched' = Append(sched, <<k, IF fin THEN 1 ELSE 0>>)
                        /\ empties' = IF k = 0 /\ ~fin THEN empties + 1 ELSE empties
        /\ UNCHANGED <<input, failAt>>

Done == p.mode = "done" /\ UNCHANGED vars
Next == Read \/ Done
Spec == Init /\ [][Next]_vars
\* a reader that answers every Read (it may answer with nothing, but only MaxEmpty times in a row ... in a behaviour): the parser terminates -
\* every NextBlock call returns, and after finitely many calls the terminal condition (end of input, the reader's error, block too large) is returned
FairSpec == Init /\ [][Next]_vars /\ WF_vars(Read)
Terminates == <>(p.mode = "done")

\* ---------- properties ----------
\* C08: at termination the emitted blocks are those of the in-memory parse of the delivered prefix, then the right error
\* where the delivered input ends for the caller: at the reader's terminal condition, or before the dropped line
Limited == p.err = "TooLarge"
DropAt == rpos - p.dropped
EndOfData == IF Limited THEN DropAt ELSE Cutoff
StreamEqualsMemory == p.mode = "done" => /\ p.out = RefOut(Sub(input, 0, EndOfData))
                                          /\ p.ret = (IF Limited THEN "TooLarge" ELSE IF failAt >= 0 THEN "E" ELSE "EOF")
\* ---- the size limit ----
BufBounded == Len(p.buf) <= MaxBuf
\* the dropped line starts a line of the input, and the error names that line
LimitPrefix == Limited => /\ (DropAt = 0 \/ input[DropAt] \in {LF, CR})
                          /\ ~(DropAt > 0 /\ DropAt < Len(input) /\ input[DropAt] = CR /\ input[DropAt + 1] = LF)
                          /\ p.eline = 1 + LineCount(Sub(input, 0, DropAt))
\* the parser gives up only when fewer than three bytes of room are left (one more byte might be a NUL)
LimitNotPremature == Limited => p.lim > MaxBuf - 3
\* ... and therefore never on an input whose padded form fits altogether
FitsNeverLimited == Len(Pad(input)) <= MaxBuf - 3 => ~Limited
\* C01 on the model: the emitted records tile the delivered prefix
Tiling(out, x) ==
  /\ \A k \in 1..Len(out) :
       /\ out[k].so < out[k].eo /\ out[k].eo <= Len(x)
       /\ (k > 1 => out[k-1].eo <= out[k].so)
       /\ IsBlank(Sub(x, IF k = 1 THEN 0 ELSE out[k-1].eo, out[k].so))
       /\ out[k].line = 1 + LineCount(Sub(x, 0, out[k].so))
       /\ out[k].src = Fill(Pad(Sub(x, out[k].so, out[k].eo)))
  /\ (out # <<>> => IsBlank(Sub(x, out[Len(out)].eo, Len(x))))
  /\ (out = <<>> => IsBlank(x))
TilingInv == p.mode = "done" => Tiling(p.out, Sub(input, 0, EndOfData))
\* book-keeping invariant of the implementation layer: offset accounts for exactly the bytes cut so far
OffsetInv == ~Limited => p.offset + Unpadded(p.buf) = rpos
\* the error latch: once the reader reported a terminal condition the parser never asks again
NoReadAfterLatch == p.err # "nil" => ~p.want
LatchStable == [][p.err # "nil" => p'.err = p.err]_vars
\* every Read that delivers something makes progress (variant: bytes left + terminal flag)
Progress == [][rpos' > rpos \/ p'.err # "nil" \/ p' = p]_vars

\* direction A: emit one record per terminal state (exhaustive: one representative schedule per distinct
\* terminal state because of VIEW; simulation: the random schedule of the behaviour)
Emit == p.mode = "done" => PrintT(ToJson([in |-> input, fail |-> failAt, sched |-> sched,
                                          n |-> Len(p.out), ret |-> p.ret, eline |-> p.eline, upto |-> EndOfData,
                                          chunk |-> Chunk, max |-> MaxBuf,
                                          outs |-> [k \in 1..Len(p.out) |-> <<p.out[k].so, p.out[k].eo, p.out[k].line>>]]))
=============================================================================
