---------------------------- MODULE Full ----------------------------
(* The whole Parse -> HTML pipeline as ONE executable model: the block phase (Blocks.tla) composed with the inline
   phase (Inline.tla, run on the content of every paragraph and heading: its lines without their container
   prefixes, so that constructs which span lines inside block quotes and list items are decided exactly) and the
   CommonMark 0.30 HTML mapping in the renderer's dialect (the same dialect as Doc.tla's denotation and Render.tla).

     Model(src) = [tree   block skeleton with byte spans, levels, numbers, tightness, literal code content,
                   inl    for every paragraph / heading in document order: nested (kind, lo, hi) of its inline nodes,
                          spans in SOURCE offsets,
                   html   one byte string per root block]

   Reference definitions found by the block phase (first definition wins, labels in normalized form) are the map
   the inline phase resolves against.  Direction A: Emit prints Model(src) for every document over line-shape
   alphabets that mix container prefixes with pieces of multi-line inline constructs; the harness replays src into
   the real Parse + AppendBlock and compares all three parts.  The same operators evaluate recorded documents
   (the 652 examples of the CommonMark spec, with the spec's own expected HTML) in FullTrace mode, which is how the
   model itself is validated.

   Named deviation (the code's documented looseness, reproduced by the harness's normalisation and never a verdict):
   LineEdgeSpace - spaces and tabs at the end of a line before a soft break, at the start of a continuation line
   and at the very end of a paragraph are dropped here, as the spec says; the implementation keeps them inside its
   text nodes, which no listed property forbids (HTML collapses them).
*)
EXTENDS Integers, Sequences, FiniteSets, TLC, Json

CONSTANTS MaxLines, ShapeSetName
VARIABLES doc

B == INSTANCE Blocks
I == INSTANCE Inline WITH MaxLen <- 0, AlphabetName <- "none", str <- doc
L == INSTANCE LineDefs
H == INSTANCE Html WITH File <- "none", tid <- doc, verdict <- doc      \* the WHATWG tokenizer subset and the C07 vocabulary checks

SP == 32  TAB == 9  LF == 10  CR == 13  BS == 92  AMP == 38  SEMI == 59  HASHC == 35  LTC == 60  GTC == 62  DQ == 34  SQ == 39  TICK == 96

\* ------------------------------------------------------------------ strings as bytes (ASCII only)
Asc(c) == CASE c = "<" -> 60 [] c = ">" -> 62 [] c = "/" -> 47 [] c = "\"" -> 34 [] c = "=" -> 61 [] c = " " -> 32 [] c = "-" -> 45 [] c = "&" -> 38 [] c = ";" -> 59
            [] c = "#" -> 35 [] c = ":" -> 58 [] c = "\n" -> 10
            [] c = "a" -> 97 [] c = "b" -> 98 [] c = "c" -> 99 [] c = "d" -> 100 [] c = "e" -> 101 [] c = "f" -> 102 [] c = "g" -> 103 [] c = "h" -> 104 [] c = "i" -> 105
            [] c = "k" -> 107 [] c = "l" -> 108 [] c = "m" -> 109 [] c = "n" -> 110 [] c = "o" -> 111 [] c = "p" -> 112 [] c = "q" -> 113 [] c = "r" -> 114 [] c = "s" -> 115
            [] c = "t" -> 116 [] c = "u" -> 117 [] c = "1" -> 49 [] c = "2" -> 50 [] c = "3" -> 51 [] c = "4" -> 52 [] c = "5" -> 53 [] c = "6" -> 54 [] c = "9" -> 57
S(str) ==
  CASE str = "<p>" -> <<60, 112, 62>> [] str = "</p>" -> <<60, 47, 112, 62>> [] str = "<hr>" -> <<60, 104, 114, 62>>
    [] str = "<pre><code" -> <<60, 112, 114, 101, 62, 60, 99, 111, 100, 101>> [] str = "</code></pre>" -> <<60, 47, 99, 111, 100, 101, 62, 60, 47, 112, 114, 101, 62>>
    [] str = " class=\"language-" -> <<32, 99, 108, 97, 115, 115, 61, 34, 108, 97, 110, 103, 117, 97, 103, 101, 45>>
    [] str = "<blockquote>" -> <<60, 98, 108, 111, 99, 107, 113, 117, 111, 116, 101, 62>> [] str = "</blockquote>" -> <<60, 47, 98, 108, 111, 99, 107, 113, 117, 111, 116, 101, 62>>
    [] str = "<ul>" -> <<60, 117, 108, 62>> [] str = "</ul>" -> <<60, 47, 117, 108, 62>> [] str = "<ol" -> <<60, 111, 108>> [] str = "</ol>" -> <<60, 47, 111, 108, 62>>
    [] str = " start=\"" -> <<32, 115, 116, 97, 114, 116, 61, 34>> [] str = "<li>" -> <<60, 108, 105, 62>> [] str = "</li>" -> <<60, 47, 108, 105, 62>>
    [] str = "<em>" -> <<60, 101, 109, 62>> [] str = "</em>" -> <<60, 47, 101, 109, 62>>
    [] str = "<strong>" -> <<60, 115, 116, 114, 111, 110, 103, 62>> [] str = "</strong>" -> <<60, 47, 115, 116, 114, 111, 110, 103, 62>>
    [] str = "<code>" -> <<60, 99, 111, 100, 101, 62>> [] str = "</code>" -> <<60, 47, 99, 111, 100, 101, 62>>
    [] str = "<a href=\"" -> <<60, 97, 32, 104, 114, 101, 102, 61, 34>> [] str = "</a>" -> <<60, 47, 97, 62>>
    [] str = "<img src=\"" -> <<60, 105, 109, 103, 32, 115, 114, 99, 61, 34>> [] str = " title=\"" -> <<32, 116, 105, 116, 108, 101, 61, 34>>
    [] str = " alt=\"" -> <<32, 97, 108, 116, 61, 34>> [] str = "<br>\n" -> <<60, 98, 114, 62, 10>> [] str = "mailto:" -> <<109, 97, 105, 108, 116, 111, 58>>
    [] str = "\">" -> <<34, 62>> [] str = "\"" -> <<34>> [] str = ">" -> <<62>>
    [] str = "&amp;" -> <<38, 97, 109, 112, 59>> [] str = "&lt;" -> <<38, 108, 116, 59>> [] str = "&gt;" -> <<38, 103, 116, 59>>
    [] str = "&quot;" -> <<38, 113, 117, 111, 116, 59>> [] str = "&#39;" -> <<38, 35, 51, 57, 59>> [] str = "&#34;" -> <<38, 35, 51, 52, 59>>
HOpen(l) == <<60, 104, 48 + l, 62>>
HClose(l) == <<60, 47, 104, 48 + l, 62>>

RECURSIVE MapCat(_, _)
MapCat(F(_), s) == IF s = <<>> THEN <<>> ELSE F(Head(s)) \o MapCat(F, Tail(s))
EscTextByte(b) == CASE b = 38 -> S("&amp;") [] b = 39 -> S("&#39;") [] b = 60 -> S("&lt;") [] b = 62 -> S("&gt;") [] b = 34 -> S("&quot;") [] OTHER -> <<b>>
EscAttrByte(b) == CASE b = 38 -> S("&amp;") [] b = 39 -> S("&#39;") [] b = 60 -> S("&lt;") [] b = 62 -> S("&gt;") [] b = 34 -> S("&#34;") [] OTHER -> <<b>>
EscText(s) == MapCat(EscTextByte, s)
EscAttr(s) == MapCat(EscAttrByte, s)
RECURSIVE Decimal(_)
Decimal(n) == IF n < 10 THEN <<48 + n>> ELSE Decimal(n \div 10) \o <<48 + (n % 10)>>

\* ------------------------------------------------------------------ character references, backslash escapes (decoded text of attributes)
Utf8(cp) ==
  IF cp < 128 THEN <<cp>>
  ELSE IF cp < 2048 THEN <<192 + (cp \div 64), 128 + (cp % 64)>>
  ELSE IF cp < 65536 THEN <<224 + (cp \div 4096), 128 + ((cp \div 64) % 64), 128 + (cp % 64)>>
  ELSE <<240 + (cp \div 262144), 128 + ((cp \div 4096) % 64), 128 + ((cp \div 64) % 64), 128 + (cp % 64)>>
\* the code point a numeric reference stands for: 0, surrogates and values beyond U+10FFFF are U+FFFD (section 6.2)
NumericCP(v) == IF v = 0 \/ v > 1114111 \/ (v >= 55296 /\ v <= 57343) THEN 65533 ELSE v
\* the code points (one or two) a named reference stands for: the complete HTML5 table (Entities.tla)
NamedCPs(name) == I!Ent!EntityCP[name]
RECURSIVE Utf8Seq(_)
Utf8Seq(cps) == IF cps = <<>> THEN <<>> ELSE Utf8(Head(cps)) \o Utf8Seq(Tail(cps))
HexVal(b) == IF b >= 48 /\ b <= 57 THEN b - 48 ELSE IF b >= 97 THEN b - 87 ELSE b - 55
RECURSIVE NumVal(_, _, _)
NumVal(s, base, acc) == IF s = <<>> THEN acc ELSE NumVal(Tail(s), base, acc * base + HexVal(Head(s)))
\* decoded bytes of the reference s[p..e-1] ("&...;")
DecodeRef(s, p, e) ==
  IF s[p + 1] = HASHC THEN
       (IF s[p + 2] \in {120, 88} THEN Utf8(NumericCP(NumVal(SubSeq(s, p + 3, e - 2), 16, 0)))
        ELSE Utf8(NumericCP(NumVal(SubSeq(s, p + 2, e - 2), 10, 0))))
  ELSE Utf8Seq(NamedCPs(SubSeq(s, p + 1, e - 2)))
\* text of a destination / title / info string: backslash escapes and character references resolved
RECURSIVE Unescape(_, _)
Unescape(s, i) ==
  IF i > Len(s) THEN <<>>
  ELSE IF s[i] = BS /\ i < Len(s) /\ I!IsPunct(s[i + 1]) THEN <<s[i + 1]>> \o Unescape(s, i + 2)
  ELSE IF s[i] = AMP /\ I!Entity(s, i) > 0 THEN DecodeRef(s, i, I!Entity(s, i)) \o Unescape(s, I!Entity(s, i))
  ELSE <<s[i]>> \o Unescape(s, i + 1)

\* ------------------------------------------------------------------ the reference map: definitions in document order, first wins
RECURSIVE DefsOf(_)
DefsOf(ns) ==
  IF ns = <<>> THEN <<>>
  ELSE LET n == Head(ns)
           mine == IF n.k = "refdef"
                   THEN LET d == n.kids[2].b
                            dest == IF d # <<>> /\ d[1] = LTC THEN SubSeq(d, 2, Len(d) - 1) ELSE d
                            hasT == Len(n.kids) >= 3
                            t == IF hasT THEN SubSeq(n.kids[3].b, 2, Len(n.kids[3].b) - 1) ELSE <<>>
                        IN << [key |-> I!NormLabel(n.kids[1].b), dest |-> Unescape(dest, 1), title |-> Unescape(t, 1), hasTitle |-> hasT] >>
                   ELSE DefsOf(n.kids)
       IN mine \o DefsOf(Tail(ns))
Lookup(defs, key) == defs[CHOOSE i \in 1..Len(defs) : defs[i].key = key /\ \A j \in 1..(i - 1) : defs[j].key # key]
KeysOf(defs) == {defs[i].key : i \in 1..Len(defs)}

\* ------------------------------------------------------------------ inline HTML
\* code span content: the bytes between the backtick strings, line endings turned into spaces, one space stripped from
\* both ends when both are there and the content is not all spaces
EolToSpace(s) == LET RECURSIVE F(_) F(i) == IF i > Len(s) THEN <<>>
                                            ELSE IF s[i] = CR /\ i < Len(s) /\ s[i + 1] = LF THEN <<SP>> \o F(i + 2)
                                            ELSE IF s[i] \in {LF, CR} THEN <<SP>> \o F(i + 1) ELSE <<s[i]>> \o F(i + 1)
                 IN F(1)
CodeContent(body) ==
  LET n == B!RunLen(body, 0, TICK)
      inner == EolToSpace(SubSeq(body, n + 1, Len(body) - n))
      allSp == \A k \in 1..Len(inner) : inner[k] = SP
  IN IF ~allSp /\ Len(inner) >= 2 /\ inner[1] = SP /\ inner[Len(inner)] = SP THEN SubSeq(inner, 2, Len(inner) - 1) ELSE inner

RECURSIVE InlHtml(_, _, _, _), InlSeq(_, _, _, _), AltText(_, _)
\* cfg = [soft |-> 0 preserve / 1 space / 2 harden, raw |-> 0 keep / 1 IgnoreRaw]: the renderer configuration
DefaultCfg == [soft |-> 0, raw |-> 0]
InlSeq(items, s, defs, cfg) == IF items = <<>> THEN <<>> ELSE InlHtml(Head(items), s, defs, cfg) \o InlSeq(Tail(items), s, defs, cfg)
\* the plain-text content of an image description (the renderer's dialect: references stay as written, breaks are spaces)
AltText(items, s) ==
  IF items = <<>> THEN <<>>
  ELSE LET it == Head(items)
           body == SubSeq(s, it.lo, it.hi - 1)
           mine == CASE it.k = "text" -> EscText(body)
                     [] it.k = "ent" -> body
                     [] it.k \in {"soft", "hard"} -> <<SP>>
                     [] it.k = "code" -> EscText(CodeContent(body))
                     [] it.k = "autolink" -> EscText(SubSeq(body, 2, Len(body) - 1))
                     [] it.k = "html" -> <<>>
                     [] OTHER -> AltText(it.kids, s)
       IN mine \o AltText(Tail(items), s)
LinkTarget(it, s, defs) ==       \* [dest, title, hasTitle]
  IF it.x.ref # <<>> THEN LET d == Lookup(defs, it.x.ref) IN [dest |-> d.dest, title |-> d.title, hasTitle |-> d.hasTitle]
  ELSE [dest |-> (IF it.x.dhi > it.x.dlo THEN Unescape(SubSeq(s, it.x.dlo, it.x.dhi - 1), 1) ELSE <<>>),
        title |-> (IF it.x.tlo > 0 THEN Unescape(SubSeq(s, it.x.tlo, it.x.thi - 1), 1) ELSE <<>>),
        hasTitle |-> it.x.tlo > 0]
TitleAttr(t) == IF t.hasTitle THEN S(" title=\"") \o EscAttr(t.title) \o S("\"") ELSE <<>>
InlHtml(it, s, defs, cfg) ==
  LET body == SubSeq(s, it.lo, it.hi - 1) IN
  CASE it.k = "text" -> EscText(body)
    [] it.k = "ent" -> body
    [] it.k = "soft" -> IF cfg.soft = 2 THEN S("<br>\n") ELSE IF cfg.soft = 1 THEN <<SP>> ELSE body
    [] it.k = "hard" -> S("<br>\n")
    [] it.k = "emph" -> S("<em>") \o InlSeq(it.kids, s, defs, cfg) \o S("</em>")
    [] it.k = "strong" -> S("<strong>") \o InlSeq(it.kids, s, defs, cfg) \o S("</strong>")
    [] it.k = "code" -> S("<code>") \o EscText(CodeContent(body)) \o S("</code>")
    [] it.k = "link" -> LET t == LinkTarget(it, s, defs) IN
                        S("<a href=\"") \o EscAttr(L!Normalize(t.dest)) \o S("\"") \o TitleAttr(t) \o S(">") \o InlSeq(it.kids, s, defs, cfg) \o S("</a>")
    [] it.k = "image" -> LET t == LinkTarget(it, s, defs) IN
                         S("<img src=\"") \o EscAttr(L!Normalize(t.dest)) \o S("\"") \o TitleAttr(t) \o S(" alt=\"") \o AltText(it.kids, s) \o S("\">")
    [] it.k = "autolink" -> LET u == SubSeq(body, 2, Len(body) - 1) IN
                            S("<a href=\"") \o (IF L!IsEmail(u) THEN S("mailto:") ELSE <<>>) \o EscAttr(L!Normalize(u)) \o S("\">") \o EscAttr(u) \o S("</a>")
    [] it.k = "html" -> IF cfg.raw = 1 THEN <<>> ELSE body

\* ------------------------------------------------------------------ content of the leaf blocks
\* paragraph / setext heading: the bytes of its lines (container prefixes left out) with their source offsets; what is
\* left of a paragraph after its leading definitions starts at n.s
Content(n, src) == SelectSeq(B!ContentOf(n.txt, src), LAMBDA e : e[2] >= n.s)
\* ATX heading: [lo, hi) source offsets of the content (after the opening sequence, without the optional closing
\* sequence, trimmed)
AtxRange(n, src) ==
  LET line == L!Body(SubSeq(src, n.s + 1, n.e))
      raw == SubSeq(line, n.a + 1, Len(line))
      e0 == L!RStrip(raw)
      rs == L!Min({k \in 1..(e0 + 1) : \A j \in k..e0 : raw[j] = 35})
      hasClosing == rs <= e0 /\ rs >= 2 /\ L!IsWS(raw[rs - 1])
      e1 == IF hasClosing THEN L!RStrip(SubSeq(raw, 1, rs - 1)) ELSE e0
      s0 == L!LStrip(SubSeq(raw, 1, e1))
  IN IF s0 > e1 THEN <<n.s + n.a, n.s + n.a>> ELSE <<n.s + n.a + s0 - 1, n.s + n.a + e1>>
LeafContent(n, src) ==
  IF n.k = "atx" THEN LET r == AtxRange(n, src) IN [i \in 1..(r[2] - r[1]) |-> <<src[r[1] + i], r[1] + i - 1>>]
  ELSE Content(n, src)
BytesOf(C) == [i \in 1..Len(C) |-> C[i][1]]
LeafItems(n, src, defs) == I!ParseInlineWith(BytesOf(LeafContent(n, src)), KeysOf(defs))

\* inline structure in source offsets: nested [k, lo, hi, kids] of the non-text nodes
RECURSIVE InlNodes(_, _)
InlNodes(items, C) ==
  IF items = <<>> THEN <<>>
  ELSE LET h == Head(items) IN
       (IF h.k = "text" THEN <<>>
        ELSE << [k |-> h.k, lo |-> C[h.lo][2], hi |-> C[h.hi - 1][2] + 1, kids |-> InlNodes(h.kids, C)] >>) \o InlNodes(Tail(items), C)

\* ------------------------------------------------------------------ block HTML
\* literal lines of code and HTML blocks: virtual spaces of a partially consumed tab, then the bytes; code lines always end in a line ending
RECURSIVE Raw(_, _)
Raw(txt, src) == IF txt = <<>> THEN <<>>
                 ELSE LET sp == Head(txt) IN [k \in 1..sp[3] |-> SP] \o SubSeq(src, sp[1] + 1, sp[2]) \o Raw(Tail(txt), src)
\* first word of a fenced code block's info string, decoded
InfoWord(n, src) ==
  LET first == B!LineStartBefore(src, n.s)     \* not used: the fence line runs from n.s to its line ending
      RECURSIVE EolAt(_)
      EolAt(i) == IF i > Len(src) \/ src[i] \in {LF, CR} THEN i ELSE EolAt(i + 1)
      line == SubSeq(src, n.s + 1, EolAt(n.s + 1) - 1)
      rest == SubSeq(line, n.a + 1, Len(line))
      info == L!Trim(rest)
      RECURSIVE WordEnd(_)
      WordEnd(i) == IF i > Len(info) \/ info[i] \in {SP, TAB} THEN i ELSE WordEnd(i + 1)
  IN Unescape(SubSeq(info, 1, WordEnd(1) - 1), 1)

RECURSIVE BlockHtmlC(_, _, _, _, _), BlockSeqC(_, _, _, _, _)
BlockSeqC(ns, tight, src, defs, cfg) == IF ns = <<>> THEN <<>> ELSE BlockHtmlC(Head(ns), tight, src, defs, cfg) \o BlockSeqC(Tail(ns), tight, src, defs, cfg)
BlockHtmlC(n, tight, src, defs, cfg) ==
  CASE n.k = "para" -> LET h == InlSeq(LeafItems(n, src, defs), BytesOf(LeafContent(n, src)), defs, cfg) IN
                       IF tight THEN h ELSE S("<p>") \o h \o S("</p>")
    [] n.k \in {"atx", "setext"} -> HOpen(n.a) \o InlSeq(LeafItems(n, src, defs), BytesOf(LeafContent(n, src)), defs, cfg) \o HClose(n.a)
    [] n.k = "hr" -> S("<hr>")
    [] n.k = "fcode" -> LET w == InfoWord(n, src) IN
                        S("<pre><code") \o (IF w # <<>> THEN S(" class=\"language-") \o EscAttr(w) \o S("\"") ELSE <<>>) \o S(">")
                        \o EscText(B!Lit(n.txt, src)) \o S("</code></pre>")
    [] n.k = "icode" -> S("<pre><code") \o S(">") \o EscText(B!Lit(n.txt, src)) \o S("</code></pre>")
    [] n.k = "html" -> IF cfg.raw = 1 THEN <<>> ELSE Raw(n.txt, src)
    [] n.k = "quote" -> S("<blockquote>") \o BlockSeqC(n.kids, FALSE, src, defs, cfg) \o S("</blockquote>")
    [] n.k = "list" -> IF n.a >= 0 THEN S("<ol") \o (IF n.a # 1 THEN S(" start=\"") \o Decimal(n.a) \o S("\"") ELSE <<>>) \o S(">") \o BlockSeqC(n.kids, n.t, src, defs, cfg) \o S("</ol>")
                       ELSE S("<ul>") \o BlockSeqC(n.kids, n.t, src, defs, cfg) \o S("</ul>")
    [] n.k = "item" -> S("<li>") \o BlockSeqC(Tail(n.kids), n.t, src, defs, cfg) \o S("</li>")
    [] OTHER -> <<>>          \* reference definitions, list markers

BlockHtml(n, tight, src, defs) == BlockHtmlC(n, tight, src, defs, DefaultCfg)
BlockSeq(ns, tight, src, defs) == BlockSeqC(ns, tight, src, defs, DefaultCfg)

\* inline structure of every paragraph / heading, in document order
RECURSIVE LeafInl(_, _, _)
LeafInl(ns, src, defs) ==
  IF ns = <<>> THEN <<>>
  ELSE LET n == Head(ns)
           mine == IF n.k \in {"para", "atx", "setext"} THEN << InlNodes(LeafItems(n, src, defs), LeafContent(n, src)) >> ELSE LeafInl(n.kids, src, defs)
       IN mine \o LeafInl(Tail(ns), src, defs)

Model(src) ==
  LET roots == B!ParseDoc(src)
      defs == DefsOf(roots)
  IN [src |-> src, tree |-> B!SkelLSeq(roots, src), inl |-> LeafInl(roots, src, defs),
      html |-> [i \in 1..Len(roots) |-> BlockHtml(roots[i], FALSE, src, defs)],
      \* the same under other renderer configurations: soft breaks as spaces, soft breaks hardened, raw HTML ignored
      hcfg |-> [c \in 1..3 |-> [i \in 1..Len(roots) |->
                   BlockHtmlC(roots[i], FALSE, src, defs, (CASE c = 1 -> [soft |-> 1, raw |-> 0] [] c = 2 -> [soft |-> 2, raw |-> 0] [] c = 3 -> [soft |-> 0, raw |-> 1]))]]]

\* ------------------------------------------------------------------ generator (Blocks.tla's: sequences of line shapes) and Emit
Init == B!Init
Next == B!Next
\* NUL: "for security reasons the Unicode character U+0000 must be replaced with the REPLACEMENT CHARACTER" (section 2.3) - before anything
\* else is decided. The model of a document with NUL bytes is the model of the replaced text; its positions are positions in that text
\* (which is what a root block's Source holds), the record keeps the original bytes for the replay.
RECURSIVE ReplaceNUL(_)
ReplaceNUL(x) == IF x = <<>> THEN <<>> ELSE (IF Head(x) = 0 THEN <<239, 191, 189>> ELSE <<Head(x)>>) \o ReplaceNUL(Tail(x))
HasNUL(x) == \E i \in 1..Len(x) : x[i] = 0
ModelOf(x) == IF HasNUL(x) THEN [Model(ReplaceNUL(x)) EXCEPT !.src = x] ELSE Model(x)
Emit == doc # <<>> => PrintT(ToJson(ModelOf(B!Flatten(doc))))
\* ------------------------------------------------------------------ model-level lemmas on the composed pipeline (checked by TLC on every generated document)
RECURSIVE ConcatAll(_)
ConcatAll(ss) == IF ss = <<>> THEN <<>> ELSE Head(ss) \o ConcatAll(Tail(ss))
HtmlOf(src) == Model(src).html
Src == B!Flatten(doc)
TabFree == \A k \in 1..Len(Src) : Src[k] # TAB
\* C09, first clause, on HTML: quoting every line (marker with its optional space; and the bare marker when no line starts
\* with a space, which the marker's optional space would swallow) nests the document's HTML in one <blockquote>
QuoteWith(d, pre) == [k \in 1..Len(d) |-> pre \o d[k]]
NoLineStartsWithSpace == \A k \in 1..Len(doc) : doc[k][1] \notin {SP, TAB}
QuoteHtmlLemma ==
  (doc # <<>> /\ B!WellFormedDoc(doc) /\ TabFree) =>
     /\ HtmlOf(B!Flatten(QuoteWith(doc, <<GTC, SP>>))) = << S("<blockquote>") \o ConcatAll(HtmlOf(Src)) \o S("</blockquote>") >>
     /\ (NoLineStartsWithSpace => HtmlOf(B!Flatten(QuoteWith(doc, <<GTC>>))) = << S("<blockquote>") \o ConcatAll(HtmlOf(Src)) \o S("</blockquote>") >>)
\* C09, second clause, on HTML: list marker of width W, N spaces, the other lines indented by W + N
ListHtmlLemma ==
  (doc # <<>> /\ B!WellFormedDoc(doc) /\ TabFree /\ doc[1][1] # SP /\ B!NoBlankLines(doc)) =>
     \A mk \in {<<45>>, <<49, 46>>, <<49, 50, 41>>} : \A n \in {1, 3, 4} :
        LET ld == B!ListDoc(doc, mk, n)
            ordered == Len(mk) > 1
            open == IF ~ordered THEN S("<ul>") ELSE IF mk = <<49, 46>> THEN S("<ol") \o S(">") ELSE S("<ol") \o S(" start=\"") \o <<49, 50>> \o S("\"") \o S(">")
            close == IF ordered THEN S("</ol>") ELSE S("</ul>")
            inner == B!ParseDoc(Src)
            \* the document has no blank line, yet the one-item list may be loose: a blank line INSIDE a nested container that
            \* ends an empty list item there counts for every enclosing block ("> *" / ">" / "c"); tightness is read off the result
            q == B!ParseDoc(B!Flatten(ld))
            defs == DefsOf(inner)
        IN B!ThematicBreak(ld[1], 0) \/
           ( Len(q) = 1 /\ q[1].k = "list"
             /\ HtmlOf(B!Flatten(ld)) = << open \o S("<li>") \o BlockSeq(inner, q[1].t, Src, defs) \o S("</li>") \o close >> )
\* C14, first clause, on HTML: CRLF and CR line endings give the same HTML up to the line endings that are copied
EolNorm(h) == LET RECURSIVE F(_) F(i) == IF i > Len(h) THEN <<>>
                                         ELSE IF h[i] = CR /\ i < Len(h) /\ h[i + 1] = LF THEN <<LF>> \o F(i + 2)
                                         ELSE IF h[i] = CR THEN <<LF>> \o F(i + 1) ELSE <<h[i]>> \o F(i + 1)
              IN F(1)
DocWithEOL(d, eol) == [k \in 1..Len(d) |-> B!WithEOL(d[k], eol)]
EolHtmlLemma ==
  (doc # <<>> /\ \A k \in 1..Len(Src) : Src[k] # CR) =>
     \A eol \in {<<CR, LF>>, <<CR>>} :
        LET h == HtmlOf(B!Flatten(DocWithEOL(doc, eol))) IN
        Len(h) = Len(HtmlOf(Src)) /\ \A i \in 1..Len(h) : EolNorm(h[i]) = HtmlOf(Src)[i]
\* C14, third clause, on HTML: a missing final line ending changes nothing but trailing white space of raw HTML
RECURSIVE StripTail(_)
StripTail(h) == IF h # <<>> /\ h[Len(h)] \in {LF, CR, SP, TAB} THEN StripTail(SubSeq(h, 1, Len(h) - 1)) ELSE h
\* the same inside containers: raw HTML that ends an item or a quote is followed by "</li>" / "</blockquote>" (nothing else the mapping
\* emits can put significant white space there: code ends in "</code></pre>", a paragraph's trailing white space is the property's own exception)
CloseLi == <<60, 47, 108, 105, 62>>
CloseBq == <<60, 47, 98, 108, 111, 99, 107, 113, 117, 111, 116, 101, 62>>
StartsAt(h, i, pat) == i + Len(pat) - 1 <= Len(h) /\ SubSeq(h, i, i + Len(pat) - 1) = pat
RECURSIVE WsRunEnd(_, _)
WsRunEnd(h, i) == IF i <= Len(h) /\ h[i] \in {LF, CR, SP, TAB} THEN WsRunEnd(h, i + 1) ELSE i
NormTail(h) == LET RECURSIVE F(_)
                   F(i) == IF i > Len(h) THEN <<>>
                           ELSE IF h[i] \in {LF, CR, SP, TAB}
                                THEN LET j == WsRunEnd(h, i) IN
                                     IF j > Len(h) \/ StartsAt(h, j, CloseLi) \/ StartsAt(h, j, CloseBq) THEN F(j) ELSE SubSeq(h, i, j - 1) \o F(j)
                                ELSE <<h[i]>> \o F(i + 1)
               IN F(1)
FinalNewlineHtmlLemma ==
  (doc # <<>> /\ doc[Len(doc)][Len(doc[Len(doc)])] \notin {LF, CR}) =>
     LET a == HtmlOf(Src)  b == HtmlOf(Src \o <<LF>>) IN
     Len(a) = Len(b) /\ \A i \in 1..Len(a) : NormTail(a[i]) = NormTail(b[i])
\* C07 at model level: the HTML of a document without raw HTML is well-formed over the fixed vocabulary, every attribute value is
\* quoted and escaped, every ampersand begins a character reference - for the MODEL's mapping (C10 binds the code to the mapping)
RECURSIVE HasRawInline(_), HasRaw(_, _, _)
HasRawInline(items) == \E i \in 1..Len(items) : items[i].k = "html" \/ HasRawInline(items[i].kids)
HasRaw(ns, src, defs) == \E i \in 1..Len(ns) :
     \/ ns[i].k = "html"
     \/ (ns[i].k \in {"para", "atx", "setext"} /\ HasRawInline(LeafItems(ns[i], src, defs)))
     \/ HasRaw(ns[i].kids, src, defs)
WellFormedHtmlLemma ==
  doc # <<>> =>
     LET roots == B!ParseDoc(Src)
         defs == DefsOf(roots)
     IN \A r \in 1..Len(roots) : HasRaw(<<roots[r]>>, Src, defs) \/ H!Verdict(BlockHtml(roots[r], FALSE, Src, defs)) = "ok"
\* C16 on HTML: a root block parsed alone renders as it does in the document, when the document defines no references
ReparseHtmlLemma ==
  (doc # <<>> /\ DefsOf(B!ParseDoc(Src)) = <<>>) =>
     LET roots == B!ParseDoc(Src) IN
     \A r \in 1..Len(roots) :
        LET ls == B!LineStartBefore(Src, roots[r].s)
            alone == HtmlOf(SubSeq(Src, ls + 1, roots[r].e))
        IN alone = << HtmlOf(Src)[r] >>
=============================================================================
