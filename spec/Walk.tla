---------------------------- MODULE Walk ----------------------------
(* commonmark.Walk (walk.go) as a pushdown machine, and its requirement.

   Tree: nodes 1..n in pre-order; par[i] (0 for the root); blk[i] = the node is a block;
         vnode = the node (0: none) that is the zero Node presented through custom ChildCount/Child: node 1 as format.Format
         does for its virtual root, or node 2 - an interior position: the zero Node is a node like any other to Walk.
   Environment = the callbacks: prune = nodes on which Pre returns false, abort = the node on which Post
         returns false (0: none), preNil / postNil = the callback is nil; lazy = the children of a node only become available
         through its Pre callback (a view that is expanded on visit, inline content parsed on demand): Pre is "called before the
         node's children are traversed", so the machine reads a node's children AFTER Pre has returned - the callback sequence
         is the same with and without lazy, which is exactly what the replay checks (custom ChildCount reports 0 until Pre ran);
         nest = nodes that the Pre callback handles itself: it walks each of their children with the SAME WalkOptions value (a
         nested, complete Walk per child, each child a root of its own) and returns false. Walks are re-entrant: the outer walk
         goes on afterwards as if the node had simply been pruned. (The replay uses an options value that has been used before.)
   Machine (one action per loop iteration of walk.go): explicit stack of frames
         [node, parent, block, index, post]; Pop a frame; a post frame calls Post (and stops if it returns
         false); otherwise call Pre, and unless pruned push the post frame and the children in reverse.
   Requirement (C18): the callback sequence equals Ref, the recursive pre/post-order restricted by the
         policy, every callback carrying the cursor <<node, parent, index, nearest enclosing block>>.

   Exhaustive configs enumerate all trees x typings x policies and check CallsAreRef, StackDiscipline and
   termination; Emit prints each behaviour for replay against the real Walk on a virtual tree (custom child
   functions over real Node identities). Trace mode validates callback traces recorded on real parsed trees.
*)
EXTENDS Integers, Sequences, FiniteSets, TLC, Json

CONSTANTS MaxNodes, File

\* ------------------------------------------------------------------ trees
RECURSIVE Anc(_, _)
Anc(t, i) == IF i = 0 THEN {} ELSE {i} \cup Anc(t, t[i])
RECURSIVE Trees(_)
Trees(n) == IF n = 1 THEN {<<0>>}
            ELSE UNION {{Append(t, q) : q \in Anc(t, Len(t))} : t \in Trees(n-1)}
Kids(par, i) == LET S == {j \in 1..Len(par) : par[j] = i} IN
                [k \in 1..Cardinality(S) |-> CHOOSE j \in S : Cardinality({m \in S : m < j}) = k - 1]
Typings(par, vn) == {b \in [1..Len(par) -> BOOLEAN] :
                       /\ (vn # 0 => ~b[vn])
                       /\ \A i \in 2..Len(par) : b[i] => (b[par[i]] \/ par[i] = vn)}

\* ------------------------------------------------------------------ requirement
\* calls are tuples <<kind (1 pre, 2 post), node, parent, index, parentBlock>>
RECURSIVE Visit(_, _, _, _, _), VisitKids(_, _, _, _, _), NestedWalks(_, _, _)
Visit(T, i, p, idx, b) ==
  LET pre == IF T.preNil THEN <<>> ELSE << <<1, i, p, idx, b>> >>
      post == IF T.postNil THEN <<>> ELSE << <<2, i, p, idx, b>> >>
      descend == T.preNil \/ i \notin T.prune
      nb == IF T.blk[i] THEN i ELSE b
      kids == IF i \in T.hide THEN <<>> ELSE Kids(T.par, i)      \* a user-supplied ChildCount that reports 0 hides the children
  IN IF ~T.preNil /\ i \in T.nest THEN pre \o NestedWalks(T, Kids(T.par, i), 1)      \* Pre walks the children itself and returns false
     ELSE pre \o (IF descend THEN VisitKids(T, kids, 1, i, nb) \o post ELSE <<>>)
NestedWalks(T, kids, k) == IF k > Len(kids) THEN <<>> ELSE Visit(T, kids[k], 0, -1, 0) \o NestedWalks(T, kids, k + 1)
VisitKids(T, kids, k, p, nb) ==
  IF k > Len(kids) THEN <<>> ELSE Visit(T, kids[k], p, k - 1, nb) \o VisitKids(T, kids, k + 1, p, nb)
Ref(T) ==
  LET full == Visit(T, 1, 0, -1, 0)
      stops == {k \in 1..Len(full) : full[k][1] = 2 /\ full[k][2] = T.abort}
  IN IF stops = {} THEN full ELSE SubSeq(full, 1, CHOOSE k \in stops : TRUE)

\* ------------------------------------------------------------------ machine
VARIABLES T, stack, calls, done, tid, verdict
vars == <<T, stack, calls, done, tid, verdict>>
tvars == <<tid, verdict>>

Policies(n) == {pol \in [prune : SUBSET (1..n), abort : 0..n, preNil : BOOLEAN, postNil : BOOLEAN, lazy : BOOLEAN, nest : {{}} \cup {{m} : m \in 2..n}] :
                   /\ (pol.preNil => ~pol.lazy)
                   /\ (pol.nest # {} => pol.abort = 0 /\ ~pol.preNil /\ ~pol.lazy /\ pol.prune = {})}
Init == /\ \E n \in 1..MaxNodes : \E par \in Trees(n) : \E vn \in (0..2) \cap (0..n) : \E b \in Typings(par, vn) : \E pol \in Policies(n) :
             T = [par |-> par, blk |-> b, vnode |-> vn, prune |-> pol.prune, abort |-> pol.abort,
                  preNil |-> pol.preNil, postNil |-> pol.postNil, hide |-> {}, lazy |-> pol.lazy, nest |-> pol.nest]
        /\ stack = << [node |-> 1, parent |-> 0, block |-> 0, index |-> -1, post |-> FALSE] >>
        /\ calls = <<>> /\ done = FALSE /\ tid = 0 /\ verdict = "ok"

Cur == stack[Len(stack)]
Rest == SubSeq(stack, 1, Len(stack) - 1)
Call(kind, f) == <<kind, f.node, f.parent, f.index, f.block>>

PopPost == /\ ~done /\ stack # <<>> /\ Cur.post
           /\ calls' = IF T.postNil THEN calls ELSE Append(calls, Call(2, Cur))
           /\ IF ~T.postNil /\ Cur.node = T.abort
              THEN done' = TRUE /\ stack' = Rest            \* Post returned false: stop immediately
              ELSE done' = (Rest = <<>>) /\ stack' = Rest
           /\ UNCHANGED <<T, tid, verdict>>
PopPre == /\ ~done /\ stack # <<>> /\ ~Cur.post
          /\ IF ~T.preNil /\ Cur.node \in T.nest
             THEN \* the callback runs complete nested walks (atomic here: they are user code inside Pre) and returns false
                  /\ calls' = Append(calls, Call(1, Cur)) \o NestedWalks(T, Kids(T.par, Cur.node), 1)
                  /\ stack' = Rest /\ done' = (Rest = <<>>)
             ELSE /\ calls' = IF T.preNil THEN calls ELSE Append(calls, Call(1, Cur))
                  /\ IF ~T.preNil /\ Cur.node \in T.prune
                     THEN stack' = Rest /\ done' = (Rest = <<>>)     \* pruned: no children, no Post
                     ELSE LET kids == IF Cur.node \in T.hide THEN <<>> ELSE Kids(T.par, Cur.node)     \* read now, after the Pre call above (T.lazy)
                              nb == IF T.blk[Cur.node] THEN Cur.node ELSE Cur.block
                              n == Len(kids)
                              pushed == [k \in 1..n |-> [node |-> kids[n - k + 1], parent |-> Cur.node, block |-> nb,
                                                          index |-> n - k, post |-> FALSE]]
                          IN stack' = Rest \o <<[Cur EXCEPT !.post = TRUE]>> \o pushed /\ done' = FALSE
          /\ UNCHANGED <<T, tid, verdict>>
Finished == done /\ UNCHANGED vars
Next == PopPost \/ PopPre \/ Finished
Spec == Init /\ [][Next]_vars /\ WF_vars(PopPost \/ PopPre)

\* ------------------------------------------------------------------ properties of the machine
CallsAreRef == done => calls = Ref(T)
CallsPrefix == calls = SubSeq(Ref(T), 1, Len(calls))                     \* at every step, not only at the end
StackDiscipline == \A i, j \in 1..Len(stack) : i # j => ~(stack[i].node = stack[j].node /\ stack[i].post = stack[j].post)
Terminates == <>done
\* each reachable node once: no (kind, node) pair is called twice
OncePerNode == \A i, j \in 1..Len(calls) : i # j => ~(calls[i][1] = calls[j][1] /\ calls[i][2] = calls[j][2])

Emit == done => PrintT(ToJson([par |-> T.par, blk |-> T.blk, vnode |-> T.vnode, prune |-> T.prune, abort |-> T.abort,
                               preNil |-> T.preNil, postNil |-> T.postNil, lazy |-> T.lazy, nest |-> T.nest, calls |-> calls]))

\* ------------------------------------------------------------------ trace validation (direction B)
\* record: par, blk, prune, abort, preNil, postNil, hide (nodes for which a custom ChildCount - with the default Child - reports 0), evs = <<kind, node, parent, index, parentBlock, consistent>>
Traces == ndJsonDeserialize(File)
TraceVerdict(t) ==
  LET TT == [par |-> t.par, blk |-> [i \in 1..Len(t.blk) |-> t.blk[i] = 1], vnode |-> 0,
             prune |-> {t.prune[i] : i \in 1..Len(t.prune)}, abort |-> t.abort,
             preNil |-> t.preNil = 1, postNil |-> t.postNil = 1, hide |-> {t.hide[i] : i \in 1..Len(t.hide)}, nest |-> {}]
      want == Ref(TT)
      got == [k \in 1..Len(t.evs) |-> SubSeq(t.evs[k], 1, 5)]
  IN IF Len(got) # Len(want) THEN "number-of-callbacks"
     ELSE IF \E k \in 1..Len(got) : got[k][1] # want[k][1] \/ got[k][2] # want[k][2] THEN "callback-order"
     ELSE IF \E k \in 1..Len(got) : got[k][3] # want[k][3] \/ got[k][4] # want[k][4] THEN "cursor-parent-or-index"
     ELSE IF \E k \in 1..Len(got) : got[k][5] # want[k][5] THEN "cursor-parent-block"
     ELSE IF \E k \in 1..Len(t.evs) : t.evs[k][6] # 1 THEN "parent-child-index-inconsistent"
     ELSE "ok"
TraceInit == /\ \E k \in 1..Len(Traces) : tid = k /\ verdict = "init"
             /\ T = <<>> /\ stack = <<>> /\ calls = <<>> /\ done = TRUE
TraceNext == verdict = "init" /\ verdict' = TraceVerdict(Traces[tid]) /\ UNCHANGED <<tid, T, stack, calls, done>>
Accepted == verdict \in {"init", "ok"}
=============================================================================
