---------------------------- MODULE Format ----------------------------
(* format.Format's indenting writer (format/format.go:374-451) as a machine with the io.Writer as its
   environment, the abstract writer protocol it must refine, and the validation of recorded executions of
   format.Format on a healthy and on a failing writer (C20, first clause).

   Implementation layer.  State: indents (stack of byte strings), started (a line has been started),
   written (hasWritten), err (sticky error; 0 = nil), out (every WriteString call the machine issued, in
   order, including the failing one).  Program operations (what preBlock / postBlock / visitInline do):
   Push(indent), Pop, S(bytes).  S follows formatWriter.s write by write: a line that starts gets the whole
   indent stack (one WriteString per entry, empty entries included), a blank line gets the indent stack
   trimmed of trailing white space, the text up to and including each line ending is one write.
   Environment: the failAt-th WriteString fails (0 = never) with error identity failAt; a later call would
   fail with a different identity.

   Abstract layer (what a caller may rely on):
     Protocol      no WriteString is issued after one failed; the sticky error is the first failure's
                   identity; on a healthy writer it stays nil
     Content       on a healthy writer the bytes written are RefText(ops): the concatenation of the S
                   arguments, each non-blank line prefixed by the indent stack in force when its first byte
                   was written and each blank line by that stack trimmed on the right
     PrefixOfHealthy   with a failure at k the calls issued are exactly the first k calls of the healthy run

   Generator config: all operation sequences up to MaxOps over a small vocabulary x all failure points;
   Emit prints each behaviour for replay against the real formatWriter (verif-tag export VerifWriter).

   Trace mode (direction B): one record per (input, writer flavour):
     h, h2   the healthy run's calls as <<length, digest>> pairs, twice (second run: other flavour)
     ret0, ret02   their results (0 = nil)
     o1, o2  digest of the whole output of each healthy run
     d1, d2  digest of the canonical dump of tree and Source before / after all runs
     runs    <<k, flavour, ret, calls>>: the k-th call fails; ret = identity of the returned error
             (k for that call's error, 0 for nil, -1 for anything else); calls include the failing one
   RunVerdict folds each run through the protocol machine.
*)
EXTENDS Integers, Sequences, FiniteSets, TLC, Json

CONSTANTS MaxOps, MaxFail, File

LF == 10
SP == 32
IsSpace(c) == c \in {9, 10, 11, 12, 13, 32}

\* ------------------------------------------------------------------ implementation layer
\* one WriteString call; never invoked with st.err # 0 (callers guard, as the code does)
Write(st, p) ==
  LET n == Len(st.out) + 1 IN
  IF n = st.failAt THEN [st EXCEPT !.out = Append(@, p), !.err = n] ELSE [st EXCEPT !.out = Append(@, p)]
RECURSIVE WriteStrings(_, _, _)
WriteStrings(st, slice, i) ==
  IF i > Len(slice) \/ st.err # 0 THEN st ELSE WriteStrings(Write(st, slice[i]), slice, i + 1)
AllSpace(s) == \A i \in 1..Len(s) : IsSpace(s[i])
RECURSIVE DropBlankTail(_)
DropBlankTail(ind) == IF ind = <<>> THEN <<>> ELSE IF AllSpace(ind[Len(ind)]) THEN DropBlankTail(SubSeq(ind, 1, Len(ind) - 1)) ELSE ind
LastNonSpace(s) == CHOOSE i \in 1..Len(s) : ~IsSpace(s[i]) /\ \A j \in (i+1)..Len(s) : IsSpace(s[j])
WriteTrimmedIndent(st) ==
  LET ind == DropBlankTail(st.indents) IN
  IF ind = <<>> THEN st
  ELSE LET st1 == WriteStrings(st, SubSeq(ind, 1, Len(ind) - 1), 1)
           last == ind[Len(ind)]
       IN IF st1.err # 0 THEN st1 ELSE Write(st1, SubSeq(last, 1, LastNonSpace(last)))
IndexLF(s) == IF \E i \in 1..Len(s) : s[i] = LF THEN CHOOSE i \in 1..Len(s) : s[i] = LF /\ \A j \in 1..(i-1) : s[j] # LF ELSE 0
RECURSIVE DoS(_, _)
DoS(st, s) ==
  IF st.err # 0 THEN st
  ELSE LET i == IndexLF(s) IN
    IF i = 0 THEN
      (IF s = <<>> THEN st
       ELSE LET st0 == [st EXCEPT !.written = TRUE]
                st1 == IF ~st0.started THEN WriteStrings(st0, st0.indents, 1) ELSE st0
            IN IF st1.err # 0 THEN st1 ELSE [Write(st1, s) EXCEPT !.started = TRUE])
    ELSE LET st0 == [st EXCEPT !.written = TRUE] IN
      IF ~st0.started /\ i = 1 THEN
        LET st1 == WriteTrimmedIndent(st0) IN
        IF st1.err # 0 THEN st1
        ELSE LET st2 == Write(st1, <<LF>>) IN IF st2.err # 0 THEN st2 ELSE DoS(st2, SubSeq(s, 2, Len(s)))
      ELSE
        LET st1 == IF ~st0.started THEN WriteStrings(st0, st0.indents, 1) ELSE st0 IN
        IF st1.err # 0 THEN st1
        ELSE LET st2 == Write(st1, SubSeq(s, 1, i)) IN
             IF st2.err # 0 THEN st2 ELSE DoS([st2 EXCEPT !.started = FALSE], SubSeq(s, i + 1, Len(s)))
ApplyOp(st, op) ==
  CASE op[1] = "push" -> [st EXCEPT !.indents = Append(@, op[2])]
    [] op[1] = "pop" -> [st EXCEPT !.indents = SubSeq(@, 1, Len(@) - 1)]
    [] op[1] = "s" -> DoS(st, op[2])
St0(k) == [indents |-> <<>>, started |-> FALSE, written |-> FALSE, err |-> 0, out |-> <<>>, failAt |-> k]
RECURSIVE RunOps(_, _, _)
RunOps(st, ops, i) == IF i > Len(ops) THEN st ELSE RunOps(ApplyOp(st, ops[i]), ops, i + 1)

\* ------------------------------------------------------------------ abstract layer
RECURSIVE Flat(_)
Flat(ss) == IF ss = <<>> THEN <<>> ELSE Head(ss) \o Flat(Tail(ss))
RECURSIVE TrimRight(_)
TrimRight(s) == IF s = <<>> THEN <<>> ELSE IF IsSpace(s[Len(s)]) THEN TrimRight(SubSeq(s, 1, Len(s) - 1)) ELSE s
\* the bytes of all S arguments, each tagged with the flattened indent stack in force at its S call
RECURSIVE Tagged(_, _, _)
Tagged(ops, i, ind) ==
  IF i > Len(ops) THEN <<>>
  ELSE CASE ops[i][1] = "push" -> Tagged(ops, i + 1, Append(ind, ops[i][2]))
         [] ops[i][1] = "pop" -> Tagged(ops, i + 1, SubSeq(ind, 1, Len(ind) - 1))
         [] ops[i][1] = "s" -> [j \in 1..Len(ops[i][2]) |-> <<ops[i][2][j], Flat(ind)>>] \o Tagged(ops, i + 1, ind)
RECURSIVE RefFrom(_, _, _)
RefFrom(tb, i, atStart) ==
  IF i > Len(tb) THEN <<>>
  ELSE LET c == tb[i][1]  ind == tb[i][2] IN
       (IF atStart THEN (IF c = LF THEN TrimRight(ind) ELSE ind) ELSE <<>>) \o <<c>> \o RefFrom(tb, i + 1, c = LF)
RefText(ops) == RefFrom(Tagged(ops, 1, <<>>), 1, TRUE)
\* the protocol machine: a Write is a step only while no failure has happened
ProtoStep(p, failed) == IF p.bad # "" THEN p
                        ELSE IF p.err # 0 THEN [p EXCEPT !.bad = "write-after-failure"]
                        ELSE [p EXCEPT !.n = @ + 1, !.err = IF failed THEN p.n + 1 ELSE 0]
RECURSIVE ProtoFold(_, _, _, _)
ProtoFold(p, n, k, i) == IF i > n THEN p ELSE ProtoFold(ProtoStep(p, i = k), n, k, i + 1)
P0 == [n |-> 0, err |-> 0, bad |-> ""]

\* ------------------------------------------------------------------ generator machine
VARIABLES st, ops, tid, verdict
vars == <<st, ops, tid, verdict>>
Strs == {<<97>>, <<LF>>, <<97, LF>>, <<LF, 97>>, <<97, LF, 98>>, <<LF, LF>>, <<97, LF, LF, 98, LF>>, <<SP>>, <<>>}
Inds == {<<>>, <<62, SP>>, <<SP, SP>>, <<62>>, <<SP, 62, SP, SP>>}
Init == /\ \E k \in 0..MaxFail : st = St0(k)
        /\ ops = <<>> /\ tid = 0 /\ verdict = "ok"
Push == \E ind \in Inds : Len(st.indents) < 3 /\ ops' = Append(ops, <<"push", ind>>) /\ st' = ApplyOp(st, <<"push", ind>>)
Pop == st.indents # <<>> /\ ops' = Append(ops, <<"pop">>) /\ st' = ApplyOp(st, <<"pop">>)
S == \E s \in Strs : ops' = Append(ops, <<"s", s>>) /\ st' = ApplyOp(st, <<"s", s>>)
Next == Len(ops) < MaxOps /\ (Push \/ Pop \/ S) /\ UNCHANGED <<tid, verdict>>
Spec == Init /\ [][Next]_vars

Healthy == RunOps(St0(0), ops, 1)
Protocol == LET p == ProtoFold(P0, Len(st.out), st.failAt, 1) IN p.bad = "" /\ p.err = st.err
ErrIsFirstFailure == st.err \in {0, st.failAt} /\ (st.err # 0 <=> (st.failAt # 0 /\ Len(st.out) >= st.failAt))
NoWriteAfterFailure == st.err # 0 => Len(st.out) = st.failAt
Content == st.failAt = 0 => Flat(st.out) = RefText(ops)
PrefixOfHealthy == LET h == Healthy.out IN
                   /\ Len(st.out) <= Len(h)
                   /\ st.out = SubSeq(h, 1, Len(st.out))
                   /\ (st.err = 0 => st.out = h)
\* the sticky error never changes once set, and nothing is written afterwards (action property)
ErrSticky == [][st.err # 0 => st'.err = st.err /\ st'.out = st.out]_vars
\* a blank line never carries trailing white space from the indentation
NoTrailingIndent == st.failAt = 0 =>
                      LET t == Flat(st.out) IN \A i \in 1..Len(t) : (t[i] = LF /\ i > 1 /\ IsSpace(t[i-1]) /\ t[i-1] # LF) =>
                         \E j \in 1..Len(ops) : ops[j][1] = "s" /\ \E m \in 1..Len(ops[j][2]) : ops[j][2][m] = SP
Emit == (ops # <<>> /\ (st.failAt = 0 \/ st.failAt <= Len(Healthy.out) + 1)) =>
           PrintT(ToJson([ops |-> ops, failAt |-> st.failAt, out |-> st.out, err |-> st.err]))

\* ------------------------------------------------------------------ trace validation (direction B)
Traces == ndJsonDeserialize(File)
RunVerdict(h, run) ==
  LET k == run[1]  ret == run[3]  calls == run[4]  n == Len(calls)
      p == ProtoFold(P0, n, k, 1)
  IN IF p.bad # "" THEN p.bad
     ELSE IF n > Len(h) \/ calls # SubSeq(h, 1, n) THEN "calls-differ-from-healthy-run"
     ELSE IF p.err = 0 /\ n # Len(h) THEN "calls-missing"
     ELSE IF p.err = 0 /\ ret # 0 THEN "error-without-failure"
     ELSE IF p.err # 0 /\ ret = 0 THEN "failure-swallowed"
     ELSE IF ret # p.err THEN "wrong-error-returned"
     ELSE "ok"
RECURSIVE RunsVerdict(_, _, _)
RunsVerdict(h, runs, i) == IF i > Len(runs) THEN "ok"
                           ELSE LET v == RunVerdict(h, runs[i]) IN IF v # "ok" THEN v ELSE RunsVerdict(h, runs, i + 1)
TraceVerdict(t) ==
  IF t.ret0 # 0 \/ t.ret02 # 0 THEN "error-on-healthy-writer"
  ELSE IF t.h # t.h2 \/ t.o1 # t.o2 THEN "not-deterministic"
  ELSE IF t.d1 # t.d2 THEN "tree-or-source-changed"
  ELSE RunsVerdict(t.h, t.runs, 1)
TraceInit == (\E k \in 1..Len(Traces) : tid = k /\ verdict = "init") /\ st = St0(0) /\ ops = <<>>
TraceNext == verdict = "init" /\ verdict' = TraceVerdict(Traces[tid]) /\ UNCHANGED <<tid, st, ops>>
Accepted == verdict \in {"init", "ok"}
=============================================================================
