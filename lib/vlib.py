"""Shared machinery for /verif/bin/vcheck.

Responsibilities (DESIGN.md sections 3, 4, 7):
  * scratch directories (created with mkdtemp, removed on exit)
  * building the Go harness from $VERIF_REPO (default /repo) with -tags verif
  * launching TLC (generator configs and trace-validation configs) under a timeout
  * parsing TLC's report (states generated / distinct, invariant violations, coverage)
  * confirming every candidate violation in a fresh harness process
  * matching confirmed violations against /verif/known_findings.json
  * writing /verif/evidence/<id>.json and printing VIOLATION / KNOWN-FINDING lines

Exit codes: 0 held (possibly KNOWN-FINDING lines), 1 VIOLATION, 2 infrastructure trouble.
"""
import atexit
import json
import os
import re
import shutil
import subprocess
import sys
import tempfile
import time

VERIF = os.path.dirname(os.path.dirname(os.path.abspath(__file__)))
REPO = os.environ.get("VERIF_REPO", "/repo")
JAR = "/opt/veriftools/tla/tla2tools.jar:/opt/veriftools/tla/CommunityModules-deps.jar"
NCPU = os.cpu_count() or 4

GOENV = dict(os.environ)
GOENV.update({
    "GOFLAGS": "-mod=mod",
    "GOPROXY": "off",
    "GOSUMDB": "off",
    "GOTOOLCHAIN": "local",
    "VERIF_REPO": REPO,
})


class Infra(Exception):
    """Infrastructure trouble: never a verdict (exit 2)."""


class Rerun(Exception):
    """Some candidates did not reproduce when re-executed alone in a fresh process. The whole check is run a second
    time; a candidate that shows up again in that second, identical run is a violation that depends on the executions
    before it (state kept across calls), reported as sequence-dependent."""

    def __init__(self, keys):
        Exception.__init__(self, "rerun")
        self.keys = keys


def cand_key(c):
    return json.dumps(c["sig"], sort_keys=True)


def log(*a):
    print(*a, file=sys.stderr, flush=True)


class Ctx:
    def __init__(self, prop, tier, seed):
        self.prop = prop
        self.tier = tier
        self.seed = seed
        self.t0 = time.time()
        base = os.environ.get("VERIF_TMP") or tempfile.gettempdir()
        self.scratch = tempfile.mkdtemp(prefix="vcheck-%s-" % prop, dir=base)
        atexit.register(shutil.rmtree, self.scratch, True)
        self.specdir = os.path.join(self.scratch, "spec")
        shutil.copytree(os.path.join(VERIF, "spec"), self.specdir)
        self.harness_bin = None
        self.harness_race_bin = None
        # evidence accumulators
        self.states = 0
        self.transitions = 0
        self.traces = 0
        self.evaluations = 0
        self.nontrivial = 0
        self.samples = []
        self.extra = {}
        self.assumptions = []
        self.candidates = []   # candidate violations: dicts with at least 'sig' and 'replay'
        self.model_drift = []
        self.tlc_runs = []
        self.exhaustive = False
        self.rule = ""
        self.unconfirmed = []     # candidates that did not reproduce alone
        self.second_pass = None   # set of candidate keys that did not reproduce alone in the first pass

    # ------------------------------------------------------------- confirmation
    def keep_confirmed(self, cands, conf):
        """Returns the candidates that conf() reproduces alone in a fresh process; the others are remembered: if this
        is the second pass and the candidate was also seen in the first, it is confirmed as sequence-dependent."""
        out = []
        notest = bool(os.environ.get("VERIF_SELFTEST_NOCONFIRM"))   # selftest of the second-pass path: pretend nothing reproduces alone
        for c in cands:
            if not notest and conf(c):
                out.append(c)
            elif self.second_pass is not None and cand_key(c) in self.second_pass:
                c["what"] = "[reproduces only after the executions that precede it in the check's sequence] " + c.get("what", "")
                c["record"] = dict(c.get("record") or {}, sequence_dependent=True)
                out.append(c)
            else:
                self.unconfirmed.append(c)
        return out

    def keep_confirmed_batch(self, cands, batchfn):
        oks = batchfn(cands) if cands else []
        it = iter(oks)
        return self.keep_confirmed(cands, lambda c: next(it))

    # ------------------------------------------------------------------ harness
    def build_harness(self, race=False):
        out = os.path.join(self.scratch, "vharness-race" if race else "vharness")
        if os.path.exists(out):
            return out
        hdir = os.path.join(VERIF, "harness")
        modfile = os.path.join(self.scratch, "go.mod")
        if not os.path.exists(modfile):
            src = open(os.path.join(hdir, "go.mod")).read()
            src = src.replace("=> /repo", "=> " + REPO)
            open(modfile, "w").write(src)
            shutil.copy(os.path.join(REPO, "go.sum"), os.path.join(self.scratch, "go.sum"))
        cmd = ["go", "build", "-modfile", modfile, "-tags", "verif", "-o", out]
        if race:
            cmd.insert(2, "-race")
        elif os.environ.get("VERIF_COVERDIR"):
            # development aid (bin/code-coverage): which statements of the library does this check execute at all
            cmd[2:2] = ["-cover", "-coverpkg=zombiezen.com/go/commonmark,zombiezen.com/go/commonmark/format"]
        cmd.append("./cmd/vharness")
        p = subprocess.run(cmd, cwd=hdir, env=GOENV, capture_output=True, text=True)
        if p.returncode != 0:
            raise Infra("harness build failed:\n" + p.stdout + p.stderr)
        if race:
            self.harness_race_bin = out
        else:
            self.harness_bin = out
        return out

    def harness(self, args, timeout=3600, race=False, stdin=None, check=True, env=None):
        """Run the harness; it prints one JSON object on its last stdout line."""
        binp = self.build_harness(race=race)
        e = dict(GOENV)
        e["VERIF_SEED"] = str(self.seed)
        e["VERIF_TIER"] = self.tier
        if os.environ.get("VERIF_COVERDIR") and not race:
            e["GOCOVERDIR"] = os.environ["VERIF_COVERDIR"]
        if env:
            e.update(env)
        try:
            p = subprocess.run([binp] + [str(a) for a in args], capture_output=True, text=True,
                               timeout=timeout, env=e, input=stdin, cwd=self.scratch)
        except subprocess.TimeoutExpired:
            raise Infra("harness timeout: %s" % (args,))
        if p.returncode not in (0, 1) and check:
            raise Infra("harness %s failed rc=%d:\n%s\n%s" % (args, p.returncode, p.stdout[-4000:], p.stderr[-4000:]))
        res = None
        for line in reversed(p.stdout.strip().split("\n")):
            line = line.strip()
            if line.startswith("{"):
                try:
                    res = json.loads(line)
                    break
                except ValueError:
                    continue
        if res is None and check:
            raise Infra("harness %s produced no result:\n%s\n%s" % (args, p.stdout[-2000:], p.stderr[-4000:]))
        if p.stderr and os.environ.get("VERIF_VERBOSE"):
            log(p.stderr[-4000:])
        return p.returncode, res, p

    # ---------------------------------------------------------------------- TLC
    def tlc(self, module, cfg_text, name=None, workers=None, timeout=1800, simulate=None,
            cont=False, coverage=False, xss="512m", heap=None, expect_clean=True, depth=None):
        """Run TLC on spec/<module>.tla with the given config text.

        Returns a dict: out (path of raw output), generated, distinct, violations
        (list of dicts {kind, name, text}), rc.
        """
        name = name or module
        cfg = os.path.join(self.specdir, name + ".cfg")
        open(cfg, "w").write(cfg_text)
        meta = tempfile.mkdtemp(prefix="meta-", dir=self.scratch)
        out = os.path.join(self.scratch, name + ".tlcout")
        workers = workers or NCPU
        cmd = ["java", "-Xss" + xss, "-XX:+UseParallelGC", "-Djava.io.tmpdir=" + self.scratch]
        if heap:
            cmd.append("-Xmx" + heap)
        cmd += ["-cp", JAR, "tlc2.TLC", "-workers", str(workers), "-metadir", meta,
                "-config", name + ".cfg", "-noGenerateSpecTE"]
        if cont:
            cmd.append("-continue")
        if coverage:
            cmd += ["-coverage", "1"]
        if simulate:
            cmd += ["-simulate", simulate]
            if depth:
                cmd += ["-depth", str(depth)]
            cmd += ["-seed", str(self.seed)]
        cmd.append(module + ".tla")
        t0 = time.time()
        with open(out, "w") as fo:
            try:
                p = subprocess.run(cmd, cwd=self.specdir, stdout=fo, stderr=subprocess.STDOUT, timeout=timeout)
                rc = p.returncode
            except subprocess.TimeoutExpired:
                if simulate:
                    rc = -9   # simulation is stopped by its timeout by design
                else:
                    raise Infra("TLC timeout (%ds) on %s" % (timeout, name))
        shutil.rmtree(meta, True)
        res = parse_tlc(out)
        res["rc"] = rc
        res["out"] = out
        res["wall_s"] = round(time.time() - t0, 1)
        res["name"] = name
        self.states += res["distinct"]
        self.transitions += res["generated"]
        self.tlc_runs.append({k: res[k] for k in ("name", "generated", "distinct", "wall_s", "rc")})
        log("TLC %s: %d generated, %d distinct, %d violations, rc=%d, %.1fs" %
            (name, res["generated"], res["distinct"], len(res["violations"]), rc, res["wall_s"]))
        if res["errors"]:
            raise Infra("TLC error in %s:\n%s" % (name, "\n".join(res["errors"][:20])))
        if expect_clean and res["violations"]:
            raise Infra("model-level invariant violated in %s (a defect of the specification, not a verdict):\n%s"
                        % (name, res["violations"][0]["text"][:3000]))
        if res["generated"] == 0 and not simulate:
            raise Infra("TLC produced no states in %s; see %s\n%s" % (name, out, tail(out)))
        return res

    def apalache_inductive(self, module, cinit="ConstInit", init="Init", indinit="IndInit", inv="IndInv", timeout=300):
        """Unbounded-length safety of a small typed module by an inductive invariant (Apalache): Init => IndInv (length 0) and
        IndInv /\\ Next => IndInv' (length 1 from IndInit). Returns True / False (invariant not inductive) / None (Apalache unavailable,
        stalled or crashed: reported in the evidence, never a verdict)."""
        import shutil as _sh
        if _sh.which("apalache-mc") is None:
            return None
        outdir = tempfile.mkdtemp(prefix="apalache-", dir=self.scratch)
        ok = True
        for args in (["--init=" + init, "--length=0"], ["--init=" + indinit, "--length=1"]):
            cmd = ["apalache-mc", "check", "--out-dir=" + outdir, "--cinit=" + cinit, "--inv=" + inv] + args + [module + ".tla"]
            try:
                p = subprocess.run(cmd, cwd=self.specdir, capture_output=True, text=True, timeout=timeout)
            except subprocess.TimeoutExpired:
                return None
            if "EXITCODE: OK" in p.stdout:
                continue
            if "Checker has found an error" in p.stdout or "violated" in p.stdout:
                ok = False
            else:
                return None
        log("Apalache %s: %s is %s" % (module, inv, "inductive" if ok else "NOT inductive"))
        return ok

    def tlc_many(self, jobs, parallel=4):
        """Run several TLC jobs (dicts of tlc() keyword arguments) concurrently; returns results in order."""
        from concurrent.futures import ThreadPoolExecutor
        with ThreadPoolExecutor(max_workers=parallel) as ex:
            futs = [ex.submit(lambda j=j: self.tlc(**j)) for j in jobs]
            return [f.result() for f in futs]

    def validate_traces(self, module, base, nshards, constants, what, timeout=3000, workers=2,
                        head="INIT Init\nNEXT Next\nINVARIANT Accepted\n", verdict_re=r'verdict = "([^"]*)"',
                        states_of=None, parallel=None):
        """Direction B: run <module> over every shard <base>.<k> (each trace its own initial state,
        tlc -continue). Every rejected trace becomes a candidate whose replay record is the matching
        line of <base>.replay.<k>. states_of(trace_dict) = number of distinct states a fully consumed
        trace contributes (integrity check: a mismatch is infrastructure trouble, not a verdict).
        Returns the number of traces accepted."""
        jobs = []
        shards = []
        for k in range(nshards):
            f = "%s.%d" % (base, k)
            if not os.path.exists(f) or os.path.getsize(f) == 0:
                continue
            local = os.path.basename(f)
            if os.path.dirname(os.path.abspath(f)) != os.path.abspath(self.specdir):
                shutil.copy(f, os.path.join(self.specdir, local))
            cfg = "%sCHECK_DEADLOCK FALSE\nCONSTANTS\n  File = \"%s\"\n%s" % (
                head, local, "".join("  %s = %s\n" % kv for kv in constants.items()))
            jobs.append(dict(module=module, cfg_text=cfg, name="%s_%s_%d" % (module, os.path.basename(base).split(".")[0], k),
                             workers=workers, timeout=timeout, cont=True, expect_clean=False, heap="3g"))
            shards.append(k)
        results = self.tlc_many(jobs, parallel=parallel or max(1, NCPU // workers))
        accepted = 0
        for k, r in zip(shards, results):
            ntr = 0
            expect = 0
            with open("%s.%d" % (base, k)) as fh:
                for ln in fh:
                    ntr += 1
                    expect += states_of(json.loads(ln)) if states_of else 2
            rejected = {}
            for v in r["violations"]:
                m = re.search(r"tid = (\d+)", v["text"])
                m2 = re.findall(verdict_re, v["text"])
                if m:
                    rejected[int(m.group(1))] = (m2[-1] if m2 else "?")
            if r["distinct"] != expect:
                raise Infra("trace validation %s: %d traces, %d distinct states, expected %d (a trace was not consumed to its end)"
                            % (r["name"], ntr, r["distinct"], expect))
            accepted += ntr - len(rejected)
            if rejected:
                lines = open("%s.replay.%d" % (base, k)).read().split("\n")
                for tid, verdict in sorted(rejected.items()):
                    rec = json.loads(lines[tid - 1])
                    sig = {"class": verdict}
                    if "input" in rec and len(rec["input"]) <= 400:
                        sig["input"] = rec["input"]
                    self.add_candidate(sig, rec, "%s: specification rejects the recorded execution: %s; %s" % (what, verdict, summarize(rec)))
        self.traces += accepted
        return accepted

    def absorb(self, res):
        """Fold a harness Result into the evidence accumulators and candidate list."""
        self.evaluations += res.get("evaluations", 0)
        self.nontrivial += res.get("nontrivial", 0)
        self.traces += res.get("traces", 0)
        self.samples += res.get("samples") or []
        for k, v in (res.get("extra") or {}).items():
            if isinstance(v, (int, float)) and isinstance(self.extra.get(k), (int, float)):
                self.extra[k] += v
            else:
                self.extra[k] = v
        self.model_drift += res.get("drift") or []
        for c in res.get("candidates") or []:
            self.add_candidate(c["sig"], c.get("record") or {}, c.get("what", ""))
        self.ncandidates_total = getattr(self, "ncandidates_total", 0) + res.get("ncandidates", 0)

    # --------------------------------------------------------------- violations
    def add_candidate(self, sig, record, what=""):
        self.candidates.append({"sig": sig, "record": record, "what": what})

    def finish(self, level="model_checking", confirm=None, coverage_extra=None, confirm_batch=None):
        """Confirm candidates, match known findings, write evidence, exit."""
        known = load_known()
        # development runs against a modified copy (bin/seed-eval, bin/try-mutant) must not touch the committed evidence
        outroot = os.path.join(self.scratch, "out") if os.environ.get("VERIF_NO_EVIDENCE") else VERIF
        vdir = os.path.join(outroot, "violations", self.prop)
        confirmed = []
        seen = set()
        uniq = []
        for c in self.candidates:
            key = cand_key(c)
            if key not in seen:
                seen.add(key)
                uniq.append(c)
        if confirm_batch is not None:
            confirmed = self.keep_confirmed_batch(uniq[:400], confirm_batch)
        elif confirm is not None:
            confirmed = self.keep_confirmed(uniq[:200], confirm)
        else:
            confirmed = uniq[:200]
        if self.unconfirmed and self.second_pass is None and not os.environ.get("VERIF_NO_RERUN"):
            log("%d candidate(s) did not reproduce alone; running the check a second time to see whether they depend on the preceding executions"
                % len(self.unconfirmed))
            raise Rerun({cand_key(c) for c in self.unconfirmed})
        unreproduced = len(self.unconfirmed)
        violations = []
        matched = {}
        for c in confirmed:
            kf = match_known(known, self.prop, c)
            if kf is not None:
                matched.setdefault(kf["id"], [kf, 0])[1] += 1
                continue
            violations.append(c)
        for kid, (kf, n) in sorted(matched.items()):
            print("KNOWN-FINDING: property=%s %s [%s, %d case(s) this run]" % (self.prop, kf["what"], kid, n))
        for d in self.model_drift[:5]:
            print("MODEL-DRIFT property=%s %s" % (self.prop, d[:600]))
        paths = []
        if violations or matched:
            byclass = {}
            for c in confirmed:
                k = str(c["sig"].get("class") or c["sig"].get("deviation") or "-")
                byclass[k] = byclass.get(k, 0) + 1
            log("confirmed candidates by class:", json.dumps(byclass, sort_keys=True))
        if violations:
            os.makedirs(vdir, exist_ok=True)
            for i, c in enumerate(violations[:50]):
                path = os.path.join(vdir, "%s-%s-%d-%d.json" % (self.prop, self.tier, self.seed, i))
                rec = {"property": self.prop, "tier": self.tier, "seed": self.seed, "sig": c["sig"],
                       "what": c["what"], "record": c["record"],
                       "how_to_replay": "bin/vcheck %s --replay %s" % (self.prop, path)}
                json.dump(rec, open(path, "w"), indent=1)
                paths.append(path)
                print("VIOLATION property=%s replay=%s" % (self.prop, path))
                if i < 10:
                    log("   ", c["what"][:600])
        cov = {
            "states": max(self.states, 0),
            "transitions": max(self.transitions, 0),
            "traces_validated_against_impl": self.traces,
            "samples": self.samples[:12] or ["(none)"],
            "evaluations": self.evaluations,
            "distinct_nontrivial": self.nontrivial,
            "rule": self.rule,
            "exhaustive": self.exhaustive,
            "tlc_runs": self.tlc_runs,
            "model_drift": self.model_drift[:20],
            "unreproduced": unreproduced,
            "known_findings_matched": {k: v[1] for k, v in matched.items()},
            "candidates": len(self.candidates),
        }
        cov.update(self.extra)
        if coverage_extra:
            cov.update(coverage_extra)
        ev = {
            "property_id": self.prop,
            "tier": self.tier,
            "seed": self.seed,
            "level": level,
            "coverage": cov,
            "assumptions": self.assumptions,
            "wall_s": round(time.time() - self.t0, 1),
            "violations": len(violations),
        }
        os.makedirs(os.path.join(outroot, "evidence"), exist_ok=True)
        json.dump(ev, open(os.path.join(outroot, "evidence", self.prop + ".json"), "w"), indent=1, sort_keys=True)
        log("%s %s: evaluations=%d nontrivial=%d states=%d traces=%d violations=%d known=%d unreproduced=%d wall=%.1fs" % (
            self.prop, self.tier, self.evaluations, self.nontrivial, self.states, self.traces,
            len(violations), sum(v[1] for v in matched.values()), unreproduced, ev["wall_s"]))
        if unreproduced > 3 and unreproduced > len(confirmed):
            log("too many unreproduced candidates: infrastructure trouble")
            sys.exit(2)
        sys.exit(1 if violations else 0)


def summarize(rec):
    out = {}
    for k, v in rec.items():
        if k == "input" and isinstance(v, list):
            try:
                out[k] = bytes(v[:200]).decode("latin-1")
            except (ValueError, TypeError):
                out[k] = v[:200]
        else:
            out[k] = v
    return json.dumps(out)[:700]


def tail(path, n=40):
    try:
        lines = [l for l in open(path, errors="replace") if not l.startswith('"{')]
        return "".join(lines[-n:])
    except OSError:
        return ""


RE_STATS = re.compile(r"^(\d+) states generated, (\d+) distinct states found, (\d+) states left on queue")
RE_SIM = re.compile(r"^The number of states generated: (\d+)")
RE_INV = re.compile(r"^Error: Invariant (\S+) is violated")
RE_ACT = re.compile(r"^Error: Action property (\S+) is violated")


def parse_tlc(out):
    generated = distinct = 0
    violations = []
    errors = []
    cur = None
    with open(out, errors="replace") as f:
        for line in f:
            if line.startswith('"{') or line.startswith('"['):
                continue
            m = RE_STATS.match(line)
            if m:
                generated, distinct = int(m.group(1)), int(m.group(2))
                continue
            m = RE_SIM.match(line)
            if m:
                generated = int(m.group(1))
                distinct = max(distinct, generated)
                continue
            m = RE_INV.match(line) or RE_ACT.match(line)
            if m:
                cur = {"kind": "invariant", "name": m.group(1), "text": ""}
                violations.append(cur)
                continue
            if line.startswith("Error:"):
                if "behavior up to this point" in line or "The behavior up to" in line:
                    continue
                cur = None
                errors.append(line.rstrip())
                continue
            if cur is not None:
                if line.startswith("Finished") or line.startswith("Progress") or RE_STATS.match(line):
                    cur = None
                elif len(cur["text"]) < 20000:
                    cur["text"] += line
            elif errors and len(errors) < 60 and line.strip() and not line.startswith(("Progress", "Finished", "Starting", "Computing", "Computed", "Checking", "Model checking", "The depth", "TLC2", "Running", "Parsing", "Semantic", "Implied", "Warning")):
                errors.append(line.rstrip())
    # "Error: The behavior up to this point is:" follows invariant violations; other Error: lines are real errors
    real = [e for e in errors if e.startswith("Error:")]
    return {"generated": generated, "distinct": distinct, "violations": violations,
            "errors": errors if real else []}


def read_coverage(out):
    """Per-action counts from -coverage output: {action: (distinct, total)}."""
    cov = {}
    rx = re.compile(r"^<(\w+) line .* of module (\w+)>: (\d+):(\d+)")
    for line in open(out, errors="replace"):
        m = rx.match(line)
        if m:
            cov[m.group(1)] = (int(m.group(3)), int(m.group(4)))
    return cov


# ----------------------------------------------------------------- known findings
def load_known():
    p = os.path.join(VERIF, "known_findings.json")
    if not os.path.exists(p):
        return []
    return json.load(open(p))["findings"]


def match_known(known, prop, cand):
    """A candidate matches a 'known' entry of the same property iff
       - signature kind 'input': the candidate's sig['input'] equals the listed bytes (and entry/config if given)
       - signature kind 'deviation': the harness classified the case as reproducing exactly that named
         spec deviation operator (sig['deviation'] == name); the harness only sets this when the code's
         observable equals the spec-with-deviation prediction and differs from the plain spec.
       - signature kind 'class': sig['class'] == name, a syntactic class computed by the harness from the
         failing case itself (documented per entry).
    """
    sig = cand["sig"]
    for k in known:
        if k.get("status") != "known":
            continue
        if prop not in k.get("properties", [k.get("property")]):
            continue
        s = k["signature"]
        if s["kind"] == "input":
            if sig.get("input") == s["input"] and all(sig.get(f) == s[f] for f in s if f not in ("kind", "input")):
                return k
        elif s["kind"] == "deviation":
            if sig.get("deviation") == s["name"]:
                return k
        elif s["kind"] == "class":
            if sig.get("class") == s["name"]:
                return k
    return None


def main_guard(fn):
    try:
        fn()
    except Infra as e:
        log("INFRASTRUCTURE:", e)
        sys.exit(2)
    except (SystemExit, Rerun):
        raise
    except BaseException:
        import traceback
        traceback.print_exc()
        log("INFRASTRUCTURE: unexpected exception in the checker")
        sys.exit(2)
