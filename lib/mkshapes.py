#!/usr/bin/env python3
"""Regenerates the line-shape sets of Full.tla (the "full*" cases of BaseShapes in spec/Blocks.tla) from the fragment and
prefix lists below: every container prefix x every fragment, plus a few extra lines. Run after editing the lists."""
import json
import os
import re

SETS = {
    # emphasis, hard / soft breaks at the edges of container-prefixed lines
    "fullA": (["a *b", "c* d", "*e*", "a  ", "a\\", " b", "a ", "**f", "*", "_a", "_ b"], ["", "> ", "- ", "  ", ">"], ["\n", ">\n", "c*"]),
    # links, reference definitions, code spans, raw tags in pieces
    "fullB": (["[x](/u", "\"t\")", "[a]: /u", "[a]", "[x][a", "]", "`c", "d` e", "<b", "e=\"f\">", "[b]: <v w> 't'", "![i][b]",
               "d` **e** f", "\"t\") __g__"], ["", "> ", "- ", "  "], ["\n", "[a]"]),
    # headings, code blocks, HTML blocks, entities, autolinks, images
    "fullC": (["# h *e*", "## ", "a *b*", "===", "---", "```x", "~~~ y&amp;z\\*", "    code <", "<div>", "*a* &amp; \\* &#35;", "1. a", "   b",
               "<http://x.y/%5Bé> <m@x.y>", "`` ` ``", "![*i* &amp; `c` <b> &#35;](/s \"t\")",
               "&nLt; &AElig; &hellip &nbsp;x", "[t](/u \"&nGt;&NotEqualTilde;&Dcaron;\")",
               " ```x y", "   ~~~z"], ["", "> ", "- "], ["\n", "```x", "    c", "> ~~~", "c `d"]),
    # lazy continuation lines, setext underlines and thematic breaks inside containers, nested containers, ordered items whose
    # content column is 3-5, fenced code opened and closed at different depths - with inline pieces on the text lines
    "fullE": (["a *b", "c*", "===", "---", "```", "[x](/u", ")", "# h", "1. i", "- j", "> q", "   k", "    m"], ["", "> ", "- ", "1. ", "   ", "> - ", "  > "], ["\n", ">\n"]),
    # tabs and partially consumed tabs in front of inline content; CR and CRLF line endings
    "fullD": (["a *b", "c*", "`c", "d`", "[x](/u", "'t')", "a\\", "b  ", "[x][a", "b]", "[a", "b]: /u"], ["", ">\t", "-\t", "\t", " \t", "> "], ["\n"]),
    # pieces of HTML blocks (start lines, lines that meet an end condition, one-line blocks) behind tabs and partially consumed tabs:
    # raw content is verbatim, only the rest of a partially consumed tab becomes spaces
    "fullH": (["a *b", "c*", "<!-- c -->", "<pre>", "x</pre>", "<?php", "y ?>", "<div>", "</div>", "z"], ["", ">\t", "-\t", "\t", " \t", "> ", "  "], ["\n"]),
    # shortcut / collapsed references whose label is broken across prefixed lines (the definition follows in the same shape, so that
    # two shapes make the whole case), backslash escapes inside destinations and titles (an escaped backslash before an escaped
    # punctuation character, an escaped ampersand before an entity name). Shapes with inner line endings: oracle runs only, not the lemmas.
    "fullF": (["[a", "![a", "b]", "b][]", "b]\n\n[a b]: /u", "b][]\n\n[a b]: /u", r'[x](/p\\\(q "t\\\*u \&amp;")',
               r'[e]: </p\\\(q> "x\\\*y \&amp;"', "[x][e] [e]",
               "[c]: /u\n[x][c", "[c]: /u\n![x][c ", "]", "] z"], ["", "> ", "- ", "  "], ["\n", "[a b]: /u\n"]),
    # a backslash as the last byte of a line inside every construct that may (title, label, raw tag, code span, plain destination) or
    # may not (<...> destination, autolink) continue on the next line; with CR and CRLF endings as fullGcr / fullGcrlf
    "fullG": (["[a](<b\\", "c>)", "[a](/u \"t\\", "u\")", "[a](/u\\", ")", "[a\\", "b]", "b]: /u", "<a b=\"c\\", "d\">", "`a\\", "b`", "<http://a\\", "b>",
               "[x]: <u\\", "v>", "[x]: /u 't\\", "w'", "[x]: /u\\", "[x]"], ["", "> ", "- "], ["\n"]),
    # NUL bytes (each becomes U+FFFD before anything else is decided) in text, next to delimiter runs, in labels, destinations,
    # titles, code spans, info strings, tags, and the numeric reference &#0;
    "fullN": (["a\x00b", "\x00", "*\x00*", "_\x00_a", "[\x00]: /u", "[x][\x00]", "`\x00`", "# \x00", "```\x00", "<\x00>", "<a \x00>", "&#0; &#x0;",
               "[y](/\x00 \"\x00\")", "\x00==="], ["", "> ", "- "], ["\n", "    \x00\n", "===\n"]),
}
EOLS = {"fullDcr": ("fullD", "\r"), "fullAcrlf": ("fullA", "\r\n"), "fullGcr": ("fullG", "\r"), "fullGcrlf": ("fullG", "\r\n")}


def tl(s):
    return "<<" + ", ".join(str(b) for b in s.encode()) + ">>"


def shapes(name):
    frags, prefixes, extra = SETS[name]
    out = []
    for p in prefixes:
        for f in frags:
            out.append(p + f + "\n")
    out += extra
    seen = []
    for x in out:
        if x not in seen:
            seen.append(x)
    return seen


def main():
    path = os.path.join(os.path.dirname(os.path.dirname(os.path.abspath(__file__))), "spec", "Blocks.tla")
    s = open(path).read()
    s = re.sub(r'            \[\] name = "full\w+" -> [^\n]*\n', "", s)
    marker = '            [] name = "tabs" ->'
    add = ""
    for name in SETS:
        add += '            [] name = "%s" -> { %s }\n' % (name, ", ".join(tl(x) for x in shapes(name)))
    for name, (base, eol) in EOLS.items():
        add += '            [] name = "%s" -> { %s }\n' % (name, ", ".join(tl(x[:-1] + eol if x.endswith("\n") else x) for x in shapes(base)))
    assert marker in s
    s = s.replace(marker, add + marker)
    open(path, "w").write(s)
    gopath = os.path.join(os.path.dirname(os.path.dirname(os.path.abspath(__file__))), "harness", "cmd", "vharness", "shapes_gen.go")
    with open(gopath, "w") as g:
        g.write("// Code generated by lib/mkshapes.py. DO NOT EDIT.\n\npackage main\n\n// fullShapes are the line-shape sets of Full.tla (spec/Blocks.tla, BaseShapes \"full*\").\nvar fullShapes = map[string][]string{\n")
        allsets = {name: shapes(name) for name in SETS}
        for name, (base, eol) in EOLS.items():
            allsets[name] = [x[:-1] + eol if x.endswith("\n") else x for x in shapes(base)]
        for name, sh in allsets.items():
            g.write("\t%s: {%s},\n" % (json.dumps(name), ", ".join(json.dumps(x) for x in sh)))
        g.write("}\n")
    for name in SETS:
        print(name, len(shapes(name)))


if __name__ == "__main__":
    main()
