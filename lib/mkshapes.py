#!/usr/bin/env python3
"""Regenerates the line-shape sets of Full.tla (the "full*" cases of BaseShapes in spec/Blocks.tla) from the fragment and
prefix lists below: every container prefix x every fragment, plus a few extra lines. Run after editing the lists."""
import os
import re

SETS = {
    # emphasis, hard / soft breaks at the edges of container-prefixed lines
    "fullA": (["a *b", "c* d", "*e*", "a  ", "a\\", " b", "a ", "**f", "*", "_a", "_ b"], ["", "> ", "- ", "  ", ">"], ["\n", ">\n", "c*"]),
    # links, reference definitions, code spans, raw tags in pieces
    "fullB": (["[x](/u", "\"t\")", "[a]: /u", "[a]", "[x][a", "]", "`c", "d` e", "<b", "e=\"f\">", "[b]: <v w> 't'", "![i][b]"], ["", "> ", "- ", "  "], ["\n", "[a]"]),
    # headings, code blocks, HTML blocks, entities, autolinks, images
    "fullC": (["# h *e*", "## ", "a *b*", "===", "---", "```x", "~~~ y&amp;z\\*", "    code <", "<div>", "*a* &amp; \\* &#35;", "1. a", "   b",
               "<http://x.y/%5Bé> <m@x.y>", "`` ` ``", "![*i*](/s \"t\")"], ["", "> ", "- "], ["\n"]),
    # tabs and partially consumed tabs in front of inline content; CR and CRLF line endings
    "fullD": (["a *b", "c*", "`c", "d`", "[x](/u", "'t')", "a\\", "b  "], ["", ">\t", "-\t", "\t", " \t", "> "], ["\n"]),
}
EOLS = {"fullDcr": ("fullD", "\r"), "fullAcrlf": ("fullA", "\r\n")}


def tl(s):
    return "<<" + ", ".join(str(b) for b in s.encode()) + ">>"


def shapes(name):
    frags, prefixes, extra = SETS[name]
    out = []
    for p in prefixes:
        for f in frags:
            out.append(p + f + "\n")
    out += extra
    seen = []
    for x in out:
        if x not in seen:
            seen.append(x)
    return seen


def main():
    path = os.path.join(os.path.dirname(os.path.dirname(os.path.abspath(__file__))), "spec", "Blocks.tla")
    s = open(path).read()
    s = re.sub(r'            \[\] name = "full\w+" -> [^\n]*\n', "", s)
    marker = '            [] name = "tabs" ->'
    add = ""
    for name in SETS:
        add += '            [] name = "%s" -> { %s }\n' % (name, ", ".join(tl(x) for x in shapes(name)))
    for name, (base, eol) in EOLS.items():
        add += '            [] name = "%s" -> { %s }\n' % (name, ", ".join(tl(x[:-1] + eol if x.endswith("\n") else x) for x in shapes(base)))
    assert marker in s
    s = s.replace(marker, add + marker)
    open(path, "w").write(s)
    for name in SETS:
        print(name, len(shapes(name)))


if __name__ == "__main__":
    main()
