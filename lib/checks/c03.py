"""C03 - no source text is lost or duplicated by the tree."""
from checks import treefam


def run(ctx):
    quick = ctx.tier == "quick"
    jobs = [dict(module="Tree", cfg_text=treefam.gen_cfg("NoDoubleCover StackNested", 4 if quick else 5, 4, "{1, 107, 101}"),
                 name="Tree_coverlemma", workers=8, timeout=3000)]
    treefam.run(ctx, jobs)


def replay(ctx, path):
    treefam.replay(ctx, path)


def selftest(ctx):
    def corrupt(t, i):
        ents = [e for e in t["evs"] if e[0] == 1]
        leaves = [e for e in ents if e[1] == 101 and e[3] - e[2] >= 2]
        if i % 40 == 5 and leaves:
            leaves[-1][2] += 1        # a text leaf loses its first byte (uncovered letter) - if it was a letter
            return any(chr(t["src"][leaves[-1][2] - 1]).isalnum() for _ in [0])
        return False
    treefam.selftest(ctx, corrupt)
