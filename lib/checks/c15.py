"""C15 - line-level recognisers and byte classifiers match the spec's definitions.

Direction A: LineRules.tla holds the declarative definitions; TLC enumerates every line body over the
rule's alphabet up to the bound (x 4 line endings), model-checks the lemmas, and emits the expected
decision; the harness calls the real recognisers through the verif-tag exports AND parses the
one-line document through the block parser, and compares.
"""
import sys

import vlib
from checks.common import confirm_with, replay_with


def cfg(rule, alphabet, maxlen):
    return """INIT Init
NEXT Next
INVARIANT Lemmas
CONSTRAINT Emit
CHECK_DEADLOCK FALSE
CONSTANTS
  Rule = "%s"
  Alphabet = {%s}
  MaxLen = %d
""" % (rule, ", ".join(str(b) for b in alphabet), maxlen)


def B(s):
    return [ord(c) for c in s]


# rule -> (alphabet bytes, quick length, thorough length)
# Every alphabet holds form feed (\f): white space to Unicode-aware library functions (bytes.TrimSpace, unicode.IsSpace)
# but an ordinary character to CommonMark's line rules, which know only space, tab and line endings.
PLAN = {
    "thematic": (B("-_* \ta\f"), 6, 7),
    "atx":      (B("# \ta\\\f"), 6, 8),
    "setext":   (B("=- \ta\f"), 6, 8),
    "fence":    (B("`~ a\t\f"), 6, 8),
    "marker":   (B("-+*10.) \ta\f"), 5, 6),
    "uri":      (B("a%4G/ \"") + [0xC3, 0xA9, 0xFF, 0xC5, 0x81], 5, 6),   # C5 81 = U+0141, a code point >= U+0100 whose low byte is an ASCII letter
    "email":    (B("a1-.@! "), 6, 8),
    "autolink": (B("<>a1:+@. "), 6, 7),
    "bytes":    ([97], 0, 0),
}


def run(ctx):
    ctx.build_harness()
    jobs = []
    for rule, (alpha, q, t) in PLAN.items():
        n = q if ctx.tier == "quick" else t
        jobs.append(dict(module="LineRules", cfg_text=cfg(rule, alpha, n), name="LineRules_" + rule, workers=4, timeout=3000))
    for rule in ("marker", "email", "autolink"):
        jobs.append(dict(module="LineRules", cfg_text=cfg(rule, [97], 0).replace("INIT Init", "INIT InitBoundary"), name="LineRules_boundary_" + rule,
                         workers=1, timeout=600))
    # boundary lengths that the exhaustive alphabets cannot reach: 9/10-digit ordered markers,
    # 63/64-byte domain labels, 32/33-character schemes; and seeded random longer lines per rule
    for rule, (alpha, q, t) in PLAN.items():
        if rule == "bytes":
            continue
        num = 300 if ctx.tier == "quick" else 5000
        depth = {"marker": 14, "email": 70, "autolink": 40}.get(rule, 24)
        alpha2 = {"marker": B("1234567890.) a"), "email": B("aaaa1-.@"), "autolink": B("<>aaa1:+.@ ")}.get(rule, alpha)
        jobs.append(dict(module="LineRules", cfg_text=cfg(rule, alpha2, depth), name="LineRules_sim_" + rule,
                         simulate="num=%d" % num, depth=depth + 1, workers=1, timeout=600))
    outs = [r["out"] for r in ctx.tlc_many(jobs, parallel=5)]
    rc, res, _ = ctx.harness(["linerules"] + outs, timeout=3000)
    ctx.absorb(res)
    ctx.exhaustive = True
    ctx.rule = ("per rule: every line body over the rule's alphabet up to the length bound (exhaustive, TLC) x 4 line endings, "
                "plus TLC-simulated longer lines; all 256 bytes x 6 classifiers; non-trivial = the spec definition accepts the line "
                "(or normalisation changes it); distinct by line bytes")
    ctx.assumptions += ["LineRules.tla transcribes CommonMark 0.30 sections 2.1, 4.1, 4.2, 4.3, 4.5, 5.2, 6.5 and RFC 3986's character sets",
                        "recognisers are defined on lines whose <=3 columns of indentation were stripped by the caller",
                        "the verif-tag exports are thin aliases (cross-checked end to end through the block parser)"]
    ctx.finish(confirm=confirm_with(ctx, "linerules"))


def replay(ctx, path):
    replay_with(ctx, "linerules", path)


def selftest(ctx):
    import os
    r = ctx.tlc("LineRules", cfg("setext", B("=- a"), 3), name="LineRules_self")
    text = open(r["out"]).read().replace('\\"level\\":2', '\\"level\\":1', 3)
    p = os.path.join(ctx.scratch, "corrupt.tlcout")
    open(p, "w").write(text)
    rc, res, _ = ctx.harness(["linerules", p])
    ok = rc == 1 and res["ncandidates"] >= 3
    print("selftest C15: harness flagged %d corrupted expectations -> %s" % (res["ncandidates"], "OK" if ok else "FAILED"))
    sys.exit(0 if ok else 2)
