"""C13 - each node's span delimits exactly the syntax of its construct."""
from checks import treefam


def run(ctx):
    treefam.run(ctx, [])


def replay(ctx, path):
    treefam.replay(ctx, path)


def selftest(ctx):
    def corrupt(t, i):
        ents = [e for e in t["evs"] if e[0] == 1 and e[1] in (107, 108, 109, 110, 114, 115, 116, 105)]
        if i % 10 == 5 and ents and ents[0][3] - ents[0][2] >= 3:
            ents[0][3] = ents[0][2] + 1   # the span keeps only the construct's first byte
            return True
        return False
    treefam.selftest(ctx, corrupt)
