"""C05 - parsed trees obey the documented node grammar (and the accessors agree with the shape)."""
from checks import treefam


def run(ctx):
    quick = ctx.tier == "quick"
    jobs = [dict(module="Tree", cfg_text=treefam.gen_cfg("ConsumersSafe", 4 if quick else 5, 0, treefam.ALLKINDS),
                 name="Tree_grammar", workers=16, timeout=3000)]
    treefam.run(ctx, jobs)


def replay(ctx, path):
    treefam.replay(ctx, path)


def selftest(ctx):
    def corrupt(t, i):
        ents = [e for e in t["evs"] if e[0] == 1]
        if i % 40 == 5 and len(ents) >= 2:
            ents[-1][1] = 118         # an Unparsed node left behind
            return True
        if i % 40 == 15 and ents[0][1] in (3, 4):
            ents[0][4] = 7            # heading level out of range
            return True
        return False
    treefam.selftest(ctx, corrupt)
