"""C08 - streaming parse equals in-memory parse under any read schedule or reader fault.

Model: Stream.tla (implementation-shaped buffer machine + reader environment), exhaustively checked by
TLC for StreamEqualsMemory, Tiling, OffsetInv, NoReadAfterLatch, LatchStable, Progress, the size-limit laws, and
Terminates under weak fairness of the reader (FairSpec).
Direction A: the terminal states' schedules (and TLC-simulated longer ones) are replayed through a
scripted io.Reader into the real BlockParser.
Direction B: every execution (TLC schedules, all compositions of short inputs, seeded schedules on the
mixed sources, large inputs) is recorded and validated by TLC against the abstract layer (StreamTrace.tla).
"""
import sys

import vlib
from checks.common import confirm_with, replay_with

ALPHA = "{97, 32, 10, 13, 0, 35, 96}"


def cfg(maxlen, chunk, emit=True, view=True, props=True, maxbuf=1000, alpha=None):
    return """INIT Init
NEXT Next
%sINVARIANTS StreamEqualsMemory TilingInv NoReadAfterLatch OffsetInv BufBounded LimitPrefix LimitNotPremature FitsNeverLimited
%s%sCHECK_DEADLOCK FALSE
CONSTANTS
  Alphabet = %s
  MaxLen = %d
  Chunk = %d
  MaxEmpty = 1
  MaxBuf = %d
""" % ("VIEW view\n" if view else "", "PROPERTIES LatchStable Progress\n" if props else "",
       "CONSTRAINT Emit\n" if emit else "", alpha or ALPHA, maxlen, chunk, maxbuf)


def live_cfg(maxlen, chunk, maxbuf=1000, alpha=None):
    """Liveness: under a reader that answers every Read (weak fairness on Read) the machine terminates. No VIEW, no state constraint."""
    return """SPECIFICATION FairSpec
PROPERTY Terminates
CHECK_DEADLOCK FALSE
CONSTANTS
  Alphabet = %s
  MaxLen = %d
  Chunk = %d
  MaxEmpty = 1
  MaxBuf = %d
""" % (alpha or ALPHA, maxlen, chunk, maxbuf)


def run(ctx):
    ctx.build_harness()
    quick = ctx.tier == "quick"
    jobs = [dict(module="Stream", cfg_text=cfg(4 if quick else 5, 2), name="Stream_c2", workers=8, timeout=3000),
            dict(module="Stream", cfg_text=cfg(3 if quick else 4, 3), name="Stream_c3", workers=8, timeout=3000)]
    if not quick:
        jobs.append(dict(module="Stream", cfg_text=cfg(6, 2, emit=False), name="Stream_c2_n6", workers=16, timeout=3000))
    # the size limit ("block too large"): paragraphs and blank lines only, where the toy grammar and the real one cut the same
    # blocks, so the model's expectation (which line is dropped, which blocks come before it) is exact for the real parser
    LIM = "{97, 10, 13, 0}"
    nlim = len(jobs)
    for mb, ch in ([(5, 2), (7, 2), (6, 1)] if quick else [(4, 2), (5, 2), (6, 2), (7, 2), (8, 3), (6, 1), (9, 2)]):
        jobs.append(dict(module="Stream", cfg_text=cfg(5 if quick else 6, ch, maxbuf=mb, alpha=LIM), name="Stream_lim_m%d_c%d" % (mb, ch), workers=4, timeout=3000))
    nlive = len(jobs)
    jobs.append(dict(module="Stream", cfg_text=live_cfg(3 if quick else 4, 2), name="Stream_live", workers=4, timeout=3000))
    jobs.append(dict(module="Stream", cfg_text=live_cfg(4 if quick else 5, 2, maxbuf=5, alpha=LIM), name="Stream_live_lim", workers=4, timeout=3000))
    rs = ctx.tlc_many(jobs, parallel=4)
    outs = [r["out"] for r in rs[:2]] + [r["out"] for r in rs[nlim:nlive]]
    # TLC-simulated random schedules on longer inputs (history not hidden: the schedule is the behaviour)
    r = ctx.tlc("Stream", cfg(10, 3, view=False, props=False).replace("INIT Init", "INIT InitSim"), name="Stream_sim", simulate="num=%d" % (300 if quick else 4000),
                depth=30, workers=1, timeout=900)
    outs.append(r["out"])
    base = ctx.scratch + "/c08.ndjson"
    nsh = 8 if quick else 16
    rc, res, _ = ctx.harness(["stream", "c08", base] + outs, timeout=3000, env={"VERIF_SHARDS": str(nsh)})
    ctx.absorb(res)
    ctx.traces = 0
    ctx.validate_traces("StreamTrace", base, nsh, {"Mode": '"c08"'}, "C08")
    ctx.exhaustive = True
    ctx.rule = ("model: all inputs <= n over {a, space, LF, CR, NUL, #, `} x all read schedules (0..chunk bytes per read, EOF with or without "
                "data, every fault point); real code: TLC schedules + every composition of every input <= 4/5 symbols over a 10-symbol alphabet "
                "(CRLF, NUL runs, multi-byte characters split) + seeded schedules on mixed sources + >8KiB/>64KiB inputs; "
                "non-trivial = >= 2 root blocks or >= 3 reads; distinct by (input, cut, schedule)")
    ctx.assumptions += ["blocks below the 1 MiB streaming limit", "tree equality = equality of canonical dumps (kinds, spans, accessors, offsets, lines, Source)",
                        "dumps are interned to integers by the harness before TLC compares them"]
    ctx.finish(confirm=confirm_with(ctx, "stream"))


def replay(ctx, path):
    replay_with(ctx, "stream", path)


def selftest(ctx):
    """Corrupt recorded fields: an expected block id, drop an error event, add a late read."""
    import json, os
    base = ctx.scratch + "/self.ndjson"
    ctx.build_harness()
    rc, res, _ = ctx.harness(["stream", "c08", base], env={"VERIF_SHARDS": "1", "VERIF_SELFTEST": "1"})
    lines = open(base + ".0").read().split("\n")[:300]
    bad = 0
    out = []
    for i, ln in enumerate(lines):
        t = json.loads(ln)
        if i % 100 == 10 and t["expb"]:
            t["expb"][0] += 1000; bad += 1
        elif i % 100 == 20:
            t["evs"] = [e for e in t["evs"] if e[0] != 3][:]
            bad += 1
        elif i % 100 == 30:
            t["after"] = 1; bad += 1
        out.append(json.dumps(t))
    open(base + ".0", "w").write("\n".join(out) + "\n")
    rl = open(base + ".replay.0").read().split("\n")[:300]
    open(base + ".replay.0", "w").write("\n".join(rl) + "\n")
    ctx.validate_traces("StreamTrace", base, 1, {"Mode": '"c08"'}, "C08")
    ok = len(ctx.candidates) == bad
    print("selftest C08: corrupted %d traces, TLC rejected %d -> %s" % (bad, len(ctx.candidates), "OK" if ok else "FAILED"))
    sys.exit(0 if ok else 2)
