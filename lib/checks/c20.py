"""C20 - Format is total, deterministic, and meaning-preserving on canonical documents.

Format.tla  the formatter's indenting writer as a machine (Push / Pop / S, write by write) with the io.Writer
            as environment (the k-th call fails), model checked against the abstract layer (Protocol,
            ErrIsFirstFailure, NoWriteAfterFailure, ErrSticky, Content = RefText, PrefixOfHealthy);
            direction A: every behaviour replayed on the real formatWriter (verif-tag export VerifWriter),
            both writer flavours, exact call sequences and error identity;
            direction B: format.Format on every explored input with a healthy writer (twice) and with a writer
            failing at every k-th call; TLC folds each run through the protocol machine (RunVerdict) and checks
            determinism and tree/Source immutability.
Doc.tla     (FmtMode) canonical documents over the supported construct set: html(Parse(Format(Parse(x)))) =
            html(Parse(x)) per root block and Format is a fixpoint on its own output.
            The formatter itself is modelled as a program over the abstract document (FB / FItems through the token-level indenting
            writer): FmtText(doc) is compared byte for byte with what Format writes (a difference that keeps the meaning is MODEL-DRIFT),
            and "Full.Model(FmtText(doc)).html = Denote(doc)" is checked by TLC (FullTrace.tla) - the meaning clause as a theorem.
"""
import sys

import vlib
from checks import tracefam
from checks.c06 import doc_cfg
from checks.common import confirm_with, replay_with

HEAD = "INIT TraceInit\nNEXT TraceNext\nINVARIANT Accepted\n"
CONSTS = {"MaxOps": "0", "MaxFail": "0"}


def model_cfg(maxops, maxfail):
    return """SPECIFICATION Spec
INVARIANTS Protocol ErrIsFirstFailure NoWriteAfterFailure Content PrefixOfHealthy NoTrailingIndent
PROPERTY ErrSticky
CONSTRAINT Emit
CHECK_DEADLOCK FALSE
CONSTANTS
  MaxOps = %d
  MaxFail = %d
  File = "none"
""" % (maxops, maxfail)


def doc_plan(tier):
    if tier == "quick":
        return [(5, 3, "fstructure", "default"), (3, 2, "finline", "default"), (3, 2, "fcode", "default"), (3, 2, "fstructure", "single"),
                (2, 2, "finline", "single")]
    # (finline at 4 nodes is 7.6 M documents since links with line endings are admitted inside containers: more than the replay holds in memory)
    return [(6, 3, "fstructure", "default"), (3, 3, "finline", "default"), (4, 3, "fcode", "default"), (4, 3, "fstructure", "single"),
            (3, 2, "finline", "single"), (3, 2, "fcode", "single"), (3, 2, "fstructure", "pairs"), (3, 2, "finline", "pairs")]


def theorem_plan(tier):
    if tier == "quick":
        return [(2, 2, "finline", "default"), (4, 2, "fstructure", "default"), (2, 2, "fcode", "default")]
    return [(3, 2, "finline", "default"), (4, 3, "fstructure", "default"), (3, 2, "fcode", "single")]


def meaning_theorem(ctx):
    """C20's second clause as a theorem of the two models, no code involved: Full.tla's Model (evaluated by TLC through FullTrace.tla) on
    the text Doc.tla's formatter program writes - and on the canonical serialization itself - gives exactly the HTML Doc.tla denotes."""
    from checks import fullfam
    ctx.extra["meaning_theorem_documents_agree"] = fullfam.doc_crosscheck(ctx, theorem_plan(ctx.tier), "fmt", doc_cfg)


def gen(base):
    return ["format", "gen", base]


def regen(base, rp):
    return ["format", "regen", base, rp]


def run(ctx):
    ctx.build_harness()
    quick = ctx.tier == "quick"
    # the abstract writer protocol for ANY number of writes and any failure point: inductive invariant (Apalache, Proto.tla)
    ind = ctx.apalache_inductive("Proto")
    ctx.extra["protocol_invariant_inductive_apalache"] = {True: "yes", False: "NO", None: "not run (apalache unavailable or timed out)"}[ind]
    if ind is False:
        raise vlib.Infra("Proto.tla: IndInv is not inductive (a defect of the specification, not a verdict)")
    # writer machine: model check + direction A
    r = ctx.tlc("Format", model_cfg(3 if quick else 4, 6 if quick else 8), name="Format_mc", timeout=3000)
    rc, res, _ = ctx.harness(["format", "model", r["out"]], timeout=3000)
    ctx.absorb(res)
    conf = confirm_with(ctx, "format")
    model_cands = ctx.keep_confirmed(ctx.candidates, conf)
    ctx.candidates = []
    # the meaning clause inside the specification: Full.Model(FmtText(doc)) = Denote(doc)
    meaning_theorem(ctx)
    # canonical documents (second clause): direction A
    jobs = [dict(module="Doc", cfg_text=doc_cfg(*p), name="Doc_%s_%s_%d" % (p[2], p[3], p[0]), workers=8, timeout=6000) for p in doc_plan(ctx.tier)]
    rs = ctx.tlc_many(jobs, parallel=2)
    rc, res, _ = ctx.harness(["doc", "c20"] + [x["out"] for x in rs], timeout=6000)
    ctx.absorb(res)
    x = res.get("extra") or {}
    ctx.extra["format_output_equals_formatter_program"] = x.get("format_output_equals_model", 0)
    ctx.extra["format_output_differs_from_formatter_program"] = x.get("format_output_differs_from_model", 0)
    conf = confirm_with(ctx, "doc")
    doc_cands = ctx.keep_confirmed(ctx.candidates, conf)
    ctx.candidates = []
    # all inputs x failure points (first clause): direction B
    nsh = 16
    base = ctx.scratch + "/format.ndjson"
    rc, res, _ = ctx.harness(gen(base), timeout=3000, env={"VERIF_SHARDS": str(nsh)})
    ctx.absorb(res)
    ctx.traces -= res["traces"]
    panic_cands = list(ctx.candidates)
    ctx.candidates = []
    ctx.validate_traces("Format", base, nsh, CONSTS, "C20", head=HEAD, workers=1, parallel=16, timeout=3000)
    trace_cands = list(ctx.candidates)
    ctx.candidates = model_cands + doc_cands + panic_cands + ctx.keep_confirmed_batch(trace_cands, tracefam.batch_confirmer(ctx, "Format", regen, CONSTS, HEAD))
    ctx.exhaustive = True
    ctx.rule = ("writer machine: every Push/Pop/S sequence <= 3/4 operations over 9 strings x 5 indents x every failure point, replayed on the real "
                "formatWriter in both writer flavours; Format on all inputs: spec examples, seeded mixed sources, fragment pairs, every string <= 3/4 over a "
                "13-symbol container alphabet, each with a healthy writer twice and a writer failing at call k for every k <= 14/40 plus sampled later k, n, n+1 "
                "(non-trivial = >= 6 write calls); canonical documents: Doc.tla in FmtMode (supported construct set of DESIGN.md C20) up to the node/depth bounds "
                "under default, single and pair choice vectors; distinct by input bytes / operation sequence")
    ctx.assumptions += ["the supported construct set of the meaning clause is the one fixed in DESIGN.md section C20 (Doc.tla FmtMode)",
                        "write calls are compared as (length, 20-bit FNV digest) pairs in direction B"]
    ctx.finish()


def replay(ctx, path):
    import json
    kind = json.load(open(path))["record"].get("kind", "")
    if kind == "format-model":
        replay_with(ctx, "format", path)
    elif kind.startswith("doc-"):
        replay_with(ctx, "doc", path)
    else:
        tracefam.replay(ctx, "Format", regen, CONSTS, path, HEAD)


def selftest(ctx):
    import json
    ctx.build_harness()
    base = ctx.scratch + "/self.ndjson"
    ctx.harness(gen(base), env={"VERIF_SHARDS": "64"})
    lines = open(base + ".0").read().split("\n")[:200]
    rl = open(base + ".replay.0").read().split("\n")[:200]
    bad = 0
    out = []
    for i, ln in enumerate(lines):
        t = json.loads(ln)
        runs = [r for r in t["runs"] if r[2] != 0]
        if i % 20 == 3 and runs:
            runs[0][3].append([1, 1]); bad += 1                       # a write after the failure
        elif i % 20 == 9 and runs:
            runs[-1][2] = 0; bad += 1                                   # the failure swallowed
        elif i % 20 == 15 and len(runs) >= 2:
            runs[0][2] = runs[0][2] + 1; bad += 1                       # a later error returned instead of the first
        elif i % 20 == 17:
            t["d2"] ^= 1; bad += 1                                      # the tree changed
        out.append(json.dumps(t))
    open(base + ".0", "w").write("\n".join(out) + "\n")
    open(base + ".replay.0", "w").write("\n".join(rl) + "\n")
    ctx.validate_traces("Format", base, 1, CONSTS, "C20", workers=2, head=HEAD)
    ok = len(ctx.candidates) == bad > 0
    print("selftest C20: corrupted %d traces, TLC rejected %d -> %s" % (bad, len(ctx.candidates), "OK" if ok else "FAILED"))
    sys.exit(0 if ok else 2)
