from checks import metafam


def run(ctx):
    metafam.run(ctx, "c09")


def replay(ctx, path):
    metafam.replay(ctx, path)


def selftest(ctx):
    def corrupt(t, i):
        if i % 25 == 3 and t["rel"] == "quote" and len(t["b"]) >= 1:
            t["b"][0] += 100000          # contents of the quote differ
            return True
        if i % 25 == 9 and t["rel"] == "list" and len(t["tx"]) > 3:
            t["tx"][2] = 120             # the recorded T(x) is not the transformation of x
            return True
        return False
    metafam.selftest(ctx, "c09", corrupt)
