"""C01 - root blocks tile the input losslessly, with exact offsets and line numbers.

Model: Stream.tla - the implementation-shaped book-keeping (offset, lineno, NUL padding, leftover
re-basing) is model-checked against the abstract Tiling statement for all inputs up to the bound.
Direction B: for every explored input both entry points (Parse, NewBlockParser) are executed; the
recorded root-block fields, Source bytes, aliasing and buffer-unchanged observations are validated
by TLC against the abstract tiling (StreamTrace.tla, Mode c01) - the logged segmentation is the
only thing taken from the code.
"""
import sys

import vlib
from checks.common import confirm_with, replay_with
from checks.c08 import cfg


def run(ctx):
    ctx.build_harness()
    quick = ctx.tier == "quick"
    # the abstract tiling (blocks emitted left to right, non-empty, lines never decreasing) for ANY number of blocks: inductive invariant
    ind = ctx.apalache_inductive("Proto")
    ctx.extra["tiling_invariant_inductive_apalache"] = {True: "yes", False: "NO", None: "not run (apalache unavailable or timed out)"}[ind]
    if ind is False:
        raise vlib.Infra("Proto.tla: IndInv is not inductive (a defect of the specification, not a verdict)")
    ctx.tlc("Stream", cfg(4 if quick else 6, 2, emit=False), name="Stream_tiling", workers=16, timeout=3000)
    base = ctx.scratch + "/c01.ndjson"
    nsh = 8 if quick else 16
    rc, res, _ = ctx.harness(["stream", "c01", base], timeout=3000, env={"VERIF_SHARDS": str(nsh)})
    ctx.absorb(res)
    ctx.traces = 0
    ctx.validate_traces("StreamTrace", base, nsh, {"Mode": '"c01"'}, "C01")
    ctx.exhaustive = True
    ctx.rule = ("every string <= 4 (quick) / 5 (thorough) symbols over {a, space, tab, LF, CR, NUL, >, -, #, `} plus seeded mixed sources "
                "(spec examples, damage, fragment products, wrapped documents), every prefix of every spec example (thorough) and inputs "
                "> 8 KiB / > 64 KiB, each through both entry points; non-trivial = >= 2 root blocks or a NUL byte; distinct by input bytes")
    ctx.assumptions += ["inputs longer than 96 bytes are validated through derived per-block flags (gap blank, line, Source equality) computed by the harness projection",
                        "aliasing is observed by pointer equality of &Source[0] and &input[StartOffset]"]
    ctx.finish(confirm=confirm_with(ctx, "stream"))


def replay(ctx, path):
    replay_with(ctx, "stream", path)


def selftest(ctx):
    import json
    base = ctx.scratch + "/self.ndjson"
    ctx.build_harness()
    ctx.harness(["stream", "c01", base], env={"VERIF_SHARDS": "1"})
    lines = open(base + ".0").read().split("\n")[2000:2400]
    rl = open(base + ".replay.0").read().split("\n")[2000:2400]
    bad = 0
    out = []
    for i, ln in enumerate(lines):
        t = json.loads(ln)
        if t["recs"] and i % 50 == 7:
            t["recs"][0][2] += 1; bad += 1       # StartLine off by one
        elif t["recs"] and i % 50 == 17:
            t["recs"][-1][1] += 1; bad += 1      # EndOffset off by one
        elif i % 50 == 27:
            t["same"] = 0; bad += 1              # caller's buffer modified
        out.append(json.dumps(t))
    open(base + ".0", "w").write("\n".join(out) + "\n")
    open(base + ".replay.0", "w").write("\n".join(rl) + "\n")
    ctx.validate_traces("StreamTrace", base, 1, {"Mode": '"c01"'}, "C01")
    ok = len(ctx.candidates) == bad and bad > 0
    print("selftest C01: corrupted %d traces, TLC rejected %d -> %s" % (bad, len(ctx.candidates), "OK" if ok else "FAILED"))
    sys.exit(0 if ok else 2)
