"""Blocks.tla: the exact block oracle (DESIGN 5.0) - generator + lemmas + replay into the real parser."""
from checks.common import confirm_with


def cfg(shapes, maxlines, invs="SkeletonLegal", emit=True):
    return """INIT Init
NEXT Next
INVARIANTS %s
%sCHECK_DEADLOCK FALSE
CONSTANTS
  MaxLines = %d
  ShapeSetName = "%s"
""" % (invs, "CONSTRAINT Emit\n" if emit else "", maxlines, shapes)


def plan(tier):
    if tier == "quick":
        return [("wide", 3), ("tabs", 3), ("core", 4), ("defs", 3), ("html", 3), ("coremixed", 3), ("defscrlf", 2), ("htmlcr", 2)]
    return [("wide", 4), ("tabs", 4), ("core", 6), ("defs", 4), ("html", 4), ("coremixed", 4), ("corecr", 5), ("defscrlf", 3), ("htmlcr", 3)]


def lemma_job(name, invs, tier):
    """Model-level lemmas over the wide shape set (<= 2 lines quick, <= 3 thorough)."""
    return dict(module="Blocks", cfg_text=cfg("wide", 2 if tier == "quick" else 3, invs=invs, emit=False),
                name="Blocks_" + name, workers=8, timeout=6000)


def run_oracle(ctx):
    """Generate all documents over the shape sets, replay each into the real parser. Adds candidates."""
    ctx.build_harness()
    jobs = [dict(module="Blocks", cfg_text=cfg(s, n), name="Blocks_%s%d" % (s, n), workers=8, timeout=6000) for s, n in plan(ctx.tier)]
    rs = ctx.tlc_many(jobs, parallel=3)
    rc, res, _ = ctx.harness(["blocks"] + [r["out"] for r in rs], timeout=6000)
    ctx.absorb(res)
    conf = confirm_with(ctx, "blocks")
    ctx.candidates = ctx.keep_confirmed(ctx.candidates, lambda c: (c["record"].get("kind") != "blocks") or conf(c))
