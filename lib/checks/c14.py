from checks import metafam


def run(ctx):
    metafam.run(ctx, "c14")


def replay(ctx, path):
    metafam.replay(ctx, path)


def selftest(ctx):
    def corrupt(t, i):
        if i % 25 == 3 and t["rel"] == "pad" and len(t["b"]) >= 1:
            t["b"][0][3] += 1            # StartLine not shifted by exactly the prefix
            return True
        if i % 25 == 9 and t["rel"] in ("crlf", "cr", "final") and len(t["b"]) >= 1:
            t["b"][-1] += 100000         # rendering differs
            return True
        return False
    metafam.selftest(ctx, "c14", corrupt)
