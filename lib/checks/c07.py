"""C07 - without raw HTML, output is well-formed, fixed-vocabulary, fully escaped HTML.

Html.tla: WHATWG tokenizer subset + open-element stack. Direction B: every rendered output (IgnoreRaw x 3
soft-break modes; IgnoreRaw=false for documents without raw HTML nodes) is tokenised by TLC; the verdict
names the first problem: a tokenizer parse error within the subset, markup other than tags, a tag or
attribute outside the fixed vocabulary, improper nesting, a bare ampersand.
"""
import sys

from checks import tracefam

CONSTS = {}


def gen(base):
    return ["html", "c07", base]


def regen(base, rp):
    return ["html", "regen", base, rp]


def run(ctx):
    ctx.rule = ("attribute-bearing templates (image alt, destinations, titles, info strings, autolinks, reference definitions) filled with every string "
                "<= 3/4 over {<, >, &, \", ', a, space, \\, =, /} and with hostile entities; spec examples; seeded mixed sources; all fragment pairs; "
                "x IgnoreRaw with 3 soft-break modes, + IgnoreRaw=false when the tree has no raw HTML node; outputs de-duplicated; "
                "non-trivial = output carries an attribute; distinct by output bytes")
    ctx.assumptions += ["Html.tla covers the tokenizer states reachable from the data state for tags, comments, declarations; RCDATA/RAWTEXT/script states are not needed because the fixed vocabulary has no such element"]
    # model level: the HTML that the composed model (Full.tla) assigns to every generated document without raw HTML passes the
    # same tokenizer and vocabulary checks - the mapping's escaping discipline is sufficient (C10 binds the code to the mapping)
    from checks import fullfam
    sets = ["fullA", "fullB", "fullC"] + (["fullD"] if ctx.tier == "thorough" else [])
    ctx.tlc_many([dict(module="Full", cfg_text=fullfam.cfg(st, 2 if ctx.tier == "quick" else 3).replace("CONSTRAINT Emit\n", "INVARIANT WellFormedHtmlLemma\n"),
                       name="Full_wellformed_%s" % st, workers=8, timeout=6000) for st in sets], parallel=3)
    tracefam.run(ctx, "Html", gen, regen, CONSTS, nsh=16)


def replay(ctx, path):
    tracefam.replay(ctx, "Html", regen, CONSTS, path)


def selftest(ctx):
    import json
    ctx.build_harness()
    base = ctx.scratch + "/self.ndjson"
    ctx.harness(gen(base), env={"VERIF_SHARDS": "64"})
    lines = open(base + ".0").read().split("\n")[:300]
    rl = open(base + ".replay.0").read().split("\n")[:300]
    bad = 0
    out = []
    for i, ln in enumerate(lines):
        t = json.loads(ln)
        o = bytes(t["out"])
        if i % 30 == 3 and b'="' in o:
            o = o.replace(b'="', b'="" onerror="x', 1); bad += 1      # injected attribute
        elif i % 30 == 13 and b"</p>" in o:
            o = o.replace(b"</p>", b"", 1); bad += 1                   # unbalanced
        elif i % 30 == 23 and b"<p>" in o:
            o = o.replace(b"<p>", b"<p><script>", 1); bad += 1         # foreign element
        t["out"] = list(o)
        out.append(json.dumps(t))
    open(base + ".0", "w").write("\n".join(out) + "\n")
    open(base + ".replay.0", "w").write("\n".join(rl) + "\n")
    ctx.validate_traces("Html", base, 1, CONSTS, "C07", workers=2)
    ok = len(ctx.candidates) == bad > 0
    print("selftest C07: corrupted %d outputs, TLC rejected %d -> %s" % (bad, len(ctx.candidates), "OK" if ok else "FAILED"))
    sys.exit(0 if ok else 2)
