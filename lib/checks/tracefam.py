"""Generic driver for checks of the form: harness explores and records one trace per execution ->
TLC validates each trace in one functional step (verdict variable) -> rejected traces are re-generated
in a fresh harness process and re-validated before they count."""
import json
import os
import sys


def run(ctx, module, gen_args, regen_args, consts, nsh=16, workers=1, parallel=16, timeout=3000, finish=True, head=None):
    ctx.build_harness()
    base = ctx.scratch + "/tr.ndjson"
    rc, res, _ = ctx.harness(gen_args(base), timeout=timeout, env={"VERIF_SHARDS": str(nsh)})
    ctx.absorb(res)
    ctx.traces = 0
    kw = {"head": head} if head else {}
    ctx.validate_traces(module, base, nsh, consts, ctx.prop, workers=workers, parallel=parallel, timeout=timeout, **kw)
    if finish:
        ctx.finish(confirm_batch=batch_confirmer(ctx, module, regen_args, consts, head))


def batch_confirmer(ctx, module, regen_args, consts, head=None):
    kw = {"head": head} if head else {}
    def confirm_batch(cands):
        rp = os.path.join(ctx.scratch, "confirm.replay")
        with open(rp, "w") as f:
            for c in cands:
                f.write(json.dumps(c["record"]) + "\n")
        cbase = ctx.scratch + "/confirm.ndjson"
        rc2, res2, _ = ctx.harness(regen_args(cbase, rp), env={"VERIF_SHARDS": "1"})
        saved, ctx.candidates = ctx.candidates, []
        tr = ctx.traces
        if os.path.exists(cbase + ".0") and os.path.getsize(cbase + ".0") > 0:
            ctx.validate_traces(module, cbase, 1, consts, ctx.prop, workers=2, **kw)
        again = {json.dumps(c["record"], sort_keys=True) for c in ctx.candidates}
        panics = {json.dumps(c["record"], sort_keys=True) for c in (res2.get("candidates") or [])}
        ctx.candidates = saved
        ctx.traces = tr
        return [json.dumps(c["record"], sort_keys=True) in again or json.dumps(c["record"], sort_keys=True) in panics for c in cands]
    return confirm_batch


def replay(ctx, module, regen_args, consts, path, head=None):
    kw = {"head": head} if head else {}
    ctx.build_harness()
    rec = json.load(open(path))["record"]
    rp = os.path.join(ctx.scratch, "one.replay")
    open(rp, "w").write(json.dumps(rec) + "\n")
    base = ctx.scratch + "/one.ndjson"
    rc, res, _ = ctx.harness(regen_args(base, rp), env={"VERIF_SHARDS": "1"})
    if res.get("candidates"):
        print("VIOLATION property=%s replay=%s" % (ctx.prop, path))
        sys.exit(1)
    if os.path.exists(base + ".0") and os.path.getsize(base + ".0") > 0:
        ctx.validate_traces(module, base, 1, consts, ctx.prop, workers=2, **kw)
    if ctx.candidates:
        print("VIOLATION property=%s replay=%s" % (ctx.prop, path))
        print(ctx.candidates[0]["what"], file=sys.stderr)
        sys.exit(1)
    print("not reproduced", file=sys.stderr)
    sys.exit(0)
