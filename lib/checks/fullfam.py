"""Full.tla: the composed model of the whole pipeline (Blocks.tla o Inline.tla o HTML mapping) - generator + replay into the
real Parse + AppendBlock: block skeleton, inline structure of every paragraph / heading in source offsets, HTML per root."""
from checks.common import confirm_with


def cfg(shapes, maxlines):
    return """INIT Init
NEXT Next
CONSTRAINT Emit
CHECK_DEADLOCK FALSE
CONSTANTS
  MaxLines = %d
  ShapeSetName = "%s"
""" % (maxlines, shapes)


def plan(tier):
    if tier == "quick":
        return [("fullA", 2), ("fullB", 2), ("fullC", 2), ("fullD", 2), ("fullE", 2), ("fullF", 2), ("fullN", 2), ("fullDcr", 2), ("fullAcrlf", 2), ("fullG", 2), ("fullGcr", 2), ("fullGcrlf", 2), ("fullH", 2)]
    return [("fullA", 3), ("fullB", 3), ("fullC", 3), ("fullD", 3), ("fullE", 3), ("fullF", 3), ("fullN", 3), ("fullDcr", 3), ("fullAcrlf", 3), ("fullG", 3), ("fullGcr", 2), ("fullGcrlf", 3), ("fullH", 3)]


def run_oracle(ctx, plan_override=None, part="default"):
    """part = "default": skeleton, inline structure, HTML under the default configuration (C06);
       part = "cfg": additionally the HTML under soft-breaks-as-spaces / hardened / IgnoreRaw (C10)."""
    ctx.build_harness()
    jobs = [dict(module="Full", cfg_text=cfg(s, n), name="Full_%s%d" % (s, n), workers=8, timeout=6000) for s, n in (plan_override or plan(ctx.tier))]
    rs = ctx.tlc_many(jobs, parallel=3)
    import vlib
    vlib.GOENV["VERIF_FULL_PART"] = part          # also seen by the fresh-process confirmation below
    rc, res, _ = ctx.harness(["full"] + [r["out"] for r in rs], timeout=6000)
    ctx.absorb(res)
    conf = confirm_with(ctx, "full")
    ctx.candidates = ctx.keep_confirmed(ctx.candidates, lambda c: (c["record"].get("kind") != "full") or conf(c))


def run_directed(ctx):
    """Directed documents (FullDirected.tla): what matters in them is a count - runs of 255 / 256 / 257 fence characters, backticks,
    delimiters, spaces; ten-digit markers; seven '#'. The harness writes them, TLC evaluates ModelOf on each, the harness compares
    the real parser with the model's complete expectation exactly as for the generated documents."""
    import os
    ctx.build_harness()
    path = os.path.join(ctx.specdir, "directed.ndjson")
    rc, res, _ = ctx.harness(["full", "dirgen", path])
    n = (res.get("extra") or {}).get("directed", 0)
    cfg_text = "INIT Init\nNEXT Next\nCHECK_DEADLOCK FALSE\nCONSTANTS\n  File = \"directed.ndjson\"\n"
    r = ctx.tlc("FullDirected", cfg_text, name="FullDirected", workers=16, timeout=3000, cont=True, xss="1g")
    import vlib
    vlib.GOENV["VERIF_FULL_PART"] = "default"
    rc, res, _ = ctx.harness(["full", r["out"]], timeout=3000)
    if res.get("evaluations", 0) != n or not n:
        raise vlib.Infra("FullDirected.tla evaluated %s of %s directed documents" % (res.get("evaluations"), n))
    before = list(ctx.candidates)
    ctx.absorb(res)
    new = [c for c in ctx.candidates if c not in before]
    ctx.extra["directed_documents_agree_with_model"] = n - len(new)
    conf = confirm_with(ctx, "full")
    ctx.candidates = before + ctx.keep_confirmed(new, conf)


def validate_model(ctx):
    """The model itself is validated against the 652 examples of the CommonMark 0.30 specification: FullTrace.tla evaluates
    Model(markdown) for every example and the harness compares the HTML with the example's own. An example the model gets
    wrong (other than the ones outside its entity / Unicode tables) is a defect of the specification: infrastructure, not a verdict."""
    import os
    import vlib
    ctx.build_harness()
    path = os.path.join(ctx.specdir, "specexamples.ndjson")
    ctx.harness(["full", "specgen", path])
    cfg_text = "INIT Init\nNEXT Next\nCHECK_DEADLOCK FALSE\nCONSTANTS\n  File = \"specexamples.ndjson\"\n"
    r = ctx.tlc("FullTrace", cfg_text, name="FullTrace_spec", workers=8, timeout=1200, cont=True)
    rc, res, _ = ctx.harness(["full", "speccheck", r["out"]])
    x = res.get("extra") or {}
    differ = x.get("spec_examples_differ") or []
    ctx.extra["model_agrees_with_spec_examples"] = x.get("spec_examples_agree", 0)
    ctx.extra["spec_examples_out_of_model_scope"] = x.get("spec_examples_out_of_model_scope", {})
    if differ or x.get("spec_examples_agree", 0) < 600:
        raise vlib.Infra("Full.tla disagrees with the CommonMark specification's own examples (a defect of the model, not a verdict): %s"
                         % str(differ[:3])[:1500])


LEMMAS = "QuoteHtmlLemma ListHtmlLemma EolHtmlLemma FinalNewlineHtmlLemma ReparseHtmlLemma"


def run_lemmas(ctx):
    """Model-level: the relational properties C09 / C14 / C16 as theorems of the composed model, on every generated document."""
    n = 2
    sets = ["fullA", "fullB", "fullC"] if ctx.tier == "quick" else ["fullA", "fullB", "fullC", "fullD"]
    jobs = [dict(module="Full", cfg_text=cfg(s, n).replace("CONSTRAINT Emit\n", "INVARIANTS %s\n" % LEMMAS), name="Full_lemmas_%s%d" % (s, n), workers=8, timeout=6000) for s in sets]
    ctx.tlc_many(jobs, parallel=2)


def doc_crosscheck(ctx, plans, tag, doc_cfg):
    """Doc.tla and Full.tla decide the same thing independently (abstract document -> HTML; bytes -> HTML). TLC evaluates Full.tla's
    Model (FullTrace.tla) on the canonical serialization of every generated document - and, for the formatter's construct set, on the
    text Doc.tla's formatter program writes - and the HTML must be the one Doc.tla denotes. No code is involved: a disagreement is a
    defect of the specification (exit 2), never a verdict. Returns the number of documents on which the two models agree."""
    import os
    import vlib
    jobs = [dict(module="Doc", cfg_text=doc_cfg(*p), name="DocX%s_%s_%s_%d" % (tag, p[2], p[3], p[0]), workers=8, timeout=6000) for p in plans]
    rs = ctx.tlc_many(jobs, parallel=3)
    outs = [x["out"] for x in rs]
    fname = "docx_%s.ndjson" % tag
    ctx.harness(["doc", "fmtgen", os.path.join(ctx.specdir, fname)] + outs)
    # TLC reads a whole record file into memory: the records are evaluated in parts of at most 120 000 (one TLC run each, one
    # after the other), and the printed models are joined for the comparison
    path = os.path.join(ctx.specdir, fname)
    part, parts, n = None, [], 0
    with open(path) as f:
        for line in f:
            if n % 120000 == 0:
                if part:
                    part.close()
                parts.append("%s.part%d" % (fname, len(parts)))
                part = open(os.path.join(ctx.specdir, parts[-1]), "w")
            part.write(line)
            n += 1
    if part:
        part.close()
    joined = os.path.join(ctx.scratch, "FullTrace_docx_%s.joined.tlcout" % tag)
    with open(joined, "w") as out:
        for k, pn in enumerate(parts):
            cfg_text = "INIT Init\nNEXT Next\nCHECK_DEADLOCK FALSE\nCONSTANTS\n  File = \"%s\"\n" % pn
            r = ctx.tlc("FullTrace", cfg_text, name="FullTrace_docx_%s_%d" % (tag, k), workers=16, timeout=6000, cont=True, xss="1g")
            with open(r["out"]) as f:
                for line in f:
                    if line.startswith('"{'):
                        out.write(line)
            os.remove(os.path.join(ctx.specdir, pn))
    rc, res, _ = ctx.harness(["doc", "fmtcheck", joined] + outs)
    x = res.get("extra") or {}
    n = x.get("model_theorem_agree", 0)
    if x.get("model_theorem_differ") or n != x.get("model_theorem_expected", -1) or not n:
        raise vlib.Infra("Full.tla and Doc.tla disagree about the meaning of a canonical / formatted document (a defect of the specification, not a verdict): %s"
                         % str(x.get("model_theorem_differ"))[:1500])
    return n
