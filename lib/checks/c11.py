"""C11 - emphasis resolution follows the spec's delimiter-run algorithm.

Direction A: Emphasis.tla enumerates every string up to a bound over the alphabet, computes the
result of the spec's process-emphasis procedure WITHOUT the search-bound optimisation (and checks,
as model invariants, that the bounded variant keyed as in the spec text gives the same result and
that results are laminar and delimited); every behaviour is replayed into commonmark.Parse in three
contexts and the Emphasis/Strong spans are compared.
"""
import json
import os
import sys

import vlib

A5 = '{"*", "_", "a", " ", "."}'
A8 = '{"*", "_", "a", " ", ".", "NBSP", "LAQUO", "EACUTE"}'
A9 = '{"*", "_", "a", ".", "FF", "TAB", "EMSP", "EMDASH", "EURO"}'   # ASCII white space that is not a space; 3-byte white space / punctuation / symbol
A3 = '{"*", "_", "a"}'   # deep delimiter interplay: the shortest witnesses of a wrong search bound need 8+ delimiters/letters


def cfg(alphabet, maxlen):
    return """INIT Init
NEXT Next
INVARIANTS BoundSound WellFormed
CONSTRAINT Emit
CHECK_DEADLOCK FALSE
CONSTANTS
  Alphabet = %s
  MaxLen = %d
  Reps = {}
""" % (alphabet, maxlen)


def long_cfg(alphabet, unitlen, reps):
    return """INIT Init
NEXT LongNext
INVARIANTS LongBoundSound
CONSTRAINT LongEmit
CHECK_DEADLOCK FALSE
CONSTANTS
  Alphabet = %s
  MaxLen = %d
  Reps = %s
""" % (alphabet, unitlen, reps)


def run(ctx):
    ctx.build_harness()
    if ctx.tier == "quick":
        plan = [("Emphasis_a5", A5, 7), ("Emphasis_a8", A8, 5), ("Emphasis_a9", A9, 5), ("Emphasis_a3", A3, 10)]
    else:
        plan = [("Emphasis_a5", A5, 9), ("Emphasis_a8", A8, 7), ("Emphasis_a9", A9, 6), ("Emphasis_a3", A3, 12)]
    outs = []
    for name, alpha, n in plan:
        r = ctx.tlc("Emphasis", cfg(alpha, n), name=name, timeout=3000)
        outs.append(r["out"])
    # long paragraphs: every unit <= 3/4 symbols with a delimiter, repeated 140 (and 300) times, in three frames
    r = ctx.tlc("Emphasis", long_cfg(A5, 3 if ctx.tier == "quick" else 4, "{140}" if ctx.tier == "quick" else "{140, 300}"), name="Emphasis_long", timeout=3000, xss="1g")
    outs.append(r["out"])
    if ctx.tier == "thorough":
        # seeded random longer strings (length up to 40) by TLC simulation of the same Next
        r = ctx.tlc("Emphasis", cfg(A8, 40), name="Emphasis_sim", simulate="num=4000", depth=41,
                    workers=1, timeout=900)
        outs.append(r["out"])
    rc, res, _ = ctx.harness(["emph"] + outs, timeout=3000)
    ctx.absorb(res)
    ctx.exhaustive = True
    ctx.rule = ("every string over the alphabet up to the length bound (exhaustive, TLC) embedded in 3 contexts "
                "(a..a, alone when the line is plain paragraph text, .s.); long paragraphs: every unit <= 3/4 symbols that holds a delimiter, repeated 140 (thorough: and 300) times "
                "(bare, inside an outer emphasis, followed by a strong and an emphasis); non-trivial = the spec procedure yields "
                ">= 1 emphasis node; distinct by document bytes")
    ctx.assumptions += ["Emphasis.tla is a faithful transcription of CommonMark 0.30 process-emphasis without openers_bottom",
                        "Unicode classes are sampled by NBSP, EM SPACE (Zs), form feed, tab; LAQUO (Pi), EM DASH (Pd); EACUTE (letter), EURO SIGN (Sc, not punctuation in 0.30) only"]
    ctx.finish(confirm=lambda c: confirm(ctx, c))


def confirm(ctx, c):
    path = os.path.join(ctx.scratch, "confirm.json")
    json.dump({"record": c["record"]}, open(path, "w"))
    rc, res, _ = ctx.harness(["emph", "--replay", path])
    return rc == 1


def replay(ctx, path):
    rc, res, _ = ctx.harness(["emph", "--replay", path])
    if rc == 1:
        print("VIOLATION property=%s replay=%s" % (ctx.prop, path))
        print(res["candidates"][0]["what"], file=sys.stderr)
        sys.exit(1)
    print("not reproduced", file=sys.stderr)
    sys.exit(0)


def selftest(ctx):
    """Demonstrate the binding: corrupt one expected span in emitted records; the harness must flag it."""
    r = ctx.tlc("Emphasis", cfg(A5, 4), name="Emphasis_self")
    lines = open(r["out"]).read().split("\n")
    out = []
    corrupted = 0
    for ln in lines:
        if ln.startswith('"{') and '[1,2,' in ln and corrupted < 5:
            ln = ln.replace('[1,2,', '[1,3,', 1)
            corrupted += 1
        out.append(ln)
    p = os.path.join(ctx.scratch, "corrupt.tlcout")
    open(p, "w").write("\n".join(out) + "\n")
    rc, res, _ = ctx.harness(["emph", p])
    ok = rc == 1 and res["ncandidates"] >= corrupted > 0
    print("selftest C11: corrupted %d records, harness flagged %d -> %s" % (corrupted, res["ncandidates"], "OK" if ok else "FAILED"))
    sys.exit(0 if ok else 2)
