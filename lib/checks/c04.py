"""C04 - parsing, rendering, formatting and walking are total.

Api.tla: the call/return protocol of the public API (Panic and Timeout are not actions; NextBlock returns
a block or end-of-input only, end-of-input persists; Render/Format report no error). The generator config
explores all legal histories to a bound (FoldAgrees, EofPersistent). Direction B: a fixed driver history
(Parse; NewBlockParser, NextBlock*, Extract, Rewrite; Render under all 3 x 2 x 5 configurations;
AppendBlock; Format; Walk) is executed on every explored input inside recover() under a watchdog and the
recorded history is validated by TLC. Termination of the loops is also a model-level statement:
Stream.tla Progress, Walk.tla Terminates.
"""
import sys

from checks import tracefam

HEAD = "INIT TraceInit\nNEXT TraceNext\nINVARIANT Accepted\n"
CONSTS = {"MaxEvents": "0"}


def gen(base):
    return ["api", "gen", base]


def regen(base, rp):
    return ["api", "regen", base, rp]


def run(ctx):
    cfg = """INIT GenInit
NEXT GenNext
INVARIANTS FoldAgrees EofPersistent
CHECK_DEADLOCK FALSE
CONSTANTS
  File = "none"
  MaxEvents = %d
""" % (5 if ctx.tier == "quick" else 6)
    ctx.tlc("Api", cfg, name="Api_mc", timeout=1200)
    ctx.rule = ("every prefix of every spec example (unterminated constructs at end of input), seeded mixed sources, all fragment pairs, every string <= 3/4 "
                "over a 16-symbol alphabet with NUL / invalid UTF-8 / lone CR, deep nesting (29 units repeated 50..1300/4000 times), large inputs; each driven "
                "through the full API history under 30 renderer configurations; non-trivial = history longer than 45 events; distinct by input bytes")
    ctx.assumptions += ["divergence is sensed by a 20 s watchdog for inputs <= 4 KiB (normal time: microseconds)",
                        "'reports only end-of-input' is asserted for inputs whose blocks stay below the documented 1 MiB streaming limit"]
    tracefam.run(ctx, "Api", gen, regen, CONSTS, nsh=16, head=HEAD)


def replay(ctx, path):
    tracefam.replay(ctx, "Api", regen, CONSTS, path, HEAD)


def selftest(ctx):
    import json
    ctx.build_harness()
    base = ctx.scratch + "/self.ndjson"
    ctx.harness(gen(base), env={"VERIF_SHARDS": "64"})
    lines = open(base + ".0").read().split("\n")[:200]
    rl = open(base + ".replay.0").read().split("\n")[:200]
    bad = 0
    out = []
    for i, ln in enumerate(lines):
        t = json.loads(ln)
        if i % 20 == 3:
            t["evs"][len(t["evs"]) // 2] = [3, 6, 0]; bad += 1           # a panic
        elif i % 20 == 9:
            t["evs"].append([5, 3, 0]); bad += 1                        # a block after end-of-input (no parser open)... out of order
        elif i % 20 == 15:
            t["evs"][-1] = [5, 8, 2]; bad += 1                          # Format reported an error
        out.append(json.dumps(t))
    open(base + ".0", "w").write("\n".join(out) + "\n")
    open(base + ".replay.0", "w").write("\n".join(rl) + "\n")
    ctx.validate_traces("Api", base, 1, CONSTS, "C04", workers=2, head=HEAD)
    ok = len(ctx.candidates) == bad > 0
    print("selftest C04: corrupted %d histories, TLC rejected %d -> %s" % (bad, len(ctx.candidates), "OK" if ok else "FAILED"))
    sys.exit(0 if ok else 2)
