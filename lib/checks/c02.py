"""C02 - every span is valid, nested in its parent, ordered, and on character boundaries."""
from checks import treefam


def run(ctx):
    quick = ctx.tier == "quick"
    jobs = [dict(module="Tree", cfg_text=treefam.gen_cfg("NoDoubleCover StackNested", 4 if quick else 5, 4, "{1, 107, 101}"),
                 name="Tree_spanlemma", workers=8, timeout=3000)]
    treefam.run(ctx, jobs)


def replay(ctx, path):
    treefam.replay(ctx, path)


def selftest(ctx):
    def corrupt(t, i):
        ents = [e for e in t["evs"] if e[0] == 1]
        if i % 40 == 5 and len(ents) >= 3:
            ents[-1][3] = len(t["src"]) + 3   # a span end pushed past the source
            return True
        if i % 40 == 15 and len(ents) >= 3 and ents[-1][2] > ents[0][2]:
            ents[-1][2] = ents[0][2] - 1 if ents[0][2] > 0 else -1   # a span start moved before its ancestors
            return True
        return False
    treefam.selftest(ctx, corrupt)
