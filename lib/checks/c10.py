"""C10 - HTML output is the canonical serialization of the tree in every configuration.

Render.tla: the renderer as a fold over the event stream of a root block with accessor values read through
the public API (kinds, heading level, ordered/tight, item numbers, indent width, leaf text, decoded
destination/title/info text, LinkReference + reference map), for every configuration
SoftBreak x IgnoreRaw x FilterTag in {nil, GFM, always, never, {script}}. TLC matches the real output against
the fold byte for byte (inside raw HTML under a filter: equal up to '<' -> '&lt;'), and checks
Render = blank-line join of AppendBlock, determinism, and that tree/Source dumps are unchanged.
"""
import sys

from checks import tracefam

CONSTS = {}


def gen(base):
    return ["render", "gen", base]


def regen(base, rp):
    return ["render", "regen", base, rp]


def run(ctx):
    ctx.rule = ("spec examples, attribute templates filled with hostile strings, all fragment pairs, seeded mixed sources, URI / info-string / break heavy "
                "templates; documents <= 300 bytes; quick: 6 rotating configurations per input (all 30 used), thorough: all 30 per input; "
                "evaluations = (input, configuration) pairs; non-trivial = a root block with more than 3 nodes; distinct by input bytes")
    ctx.assumptions += ["the event stream with accessor values is read by the harness through the public node API only",
                        "first word of an info string = split on Unicode white space, as strings.Fields does",
                        "inside raw HTML under a tag filter only 'equal up to < -> &lt;' is required (which < is C17's business)"]
    # direction A: the composed model (Full.tla) gives the expected HTML of every generated document under soft breaks as spaces,
    # hardened soft breaks and IgnoreRaw (the default configuration is compared by C06)
    from checks import fullfam
    fullfam.run_oracle(ctx, part="cfg")
    full_cands = list(ctx.candidates)
    ctx.candidates = []
    tracefam.run(ctx, "Render", gen, regen, CONSTS, nsh=16, workers=1, parallel=16, finish=False)
    confirmed = ctx.keep_confirmed_batch(ctx.candidates, tracefam.batch_confirmer(ctx, "Render", regen, CONSTS))
    ctx.candidates = full_cands + confirmed
    ctx.finish()


def replay(ctx, path):
    import json
    if json.load(open(path))["record"].get("kind") == "full":
        import vlib
        from checks.common import replay_with
        vlib.GOENV["VERIF_FULL_PART"] = "cfg"
        return replay_with(ctx, "full", path)
    tracefam.replay(ctx, "Render", regen, CONSTS, path)


def selftest(ctx):
    import json
    ctx.build_harness()
    base = ctx.scratch + "/self.ndjson"
    ctx.harness(gen(base), env={"VERIF_SHARDS": "64"})
    lines = open(base + ".0").read().split("\n")[:120]
    rl = open(base + ".replay.0").read().split("\n")[:120]
    bad = 0
    out = []
    for i, ln in enumerate(lines):
        t = json.loads(ln)
        r = t["runs"][0]
        if i % 12 == 3 and r["parts"] and len(r["parts"][0]) > 4:
            r["parts"][0][2] ^= 1; r["out"][2] ^= 1; r["out2"][2] ^= 1; bad += 1     # one output byte flipped
        elif i % 12 == 7 and r["out"]:
            r["out2"] = r["out2"][:-1]; bad += 1                                       # second render differs
        elif i % 12 == 11:
            r["same"] = 0; bad += 1                                                    # tree modified
        out.append(json.dumps(t))
    open(base + ".0", "w").write("\n".join(out) + "\n")
    open(base + ".replay.0", "w").write("\n".join(rl) + "\n")
    ctx.validate_traces("Render", base, 1, CONSTS, "C10", workers=2)
    ok = len(ctx.candidates) == bad > 0
    print("selftest C10: corrupted %d records, TLC rejected %d -> %s" % (bad, len(ctx.candidates), "OK" if ok else "FAILED"))
    sys.exit(0 if ok else 2)
