"""C12 - references resolve by normalized label; the first definition wins.

Refs.tla: labels over an explicit alphabet with a full case-fold table (ss/SZ/CAPSZ, IDOT, NBSP, escaped
brackets, whitespace incl. line endings), Normalize, documents = sequences of definitions (plain, in a
quote, in a list item) and uses (full / collapsed / shortcut). TLC enumerates all documents up to the
bounds per label family, checks NormIdempotent / KeysNormalized / FirstWins / MapAgrees and emits each
document with the expected resolution of every use and the expected map (direction A). Direction B: the
closure clause (map = first-wins extraction in order, every reference node names a key of the map, keys
normalized) on arbitrary inputs, validated by TLC.
"""
import sys

from checks import tracefam
from checks.common import confirm_with, replay_with

HEAD = "INIT TraceInit\nNEXT TraceNext\nINVARIANT Accepted\n"
CONSTS = {"Family": '"none"', "MaxItems": "0", "MaxDefs": "0", "MaxUses": "0"}
FAMILIES = ["case", "ws", "sz", "idot", "nbsp", "esc", "bs"]


def cfg(family, items, defs, uses):
    return """INIT GenInit
NEXT GenNext
INVARIANTS NormIdempotent KeysNormalized FirstWins MapAgrees
CONSTRAINT Emit
CHECK_DEADLOCK FALSE
CONSTANTS
  Family = "%s"
  MaxItems = %d
  MaxDefs = %d
  MaxUses = %d
  File = "none"
""" % (family, items, defs, uses)


def inc_cfg(items, defs, uses, reextract, styles, containers, labels):
    return """INIT IncInit
NEXT IncNext
INVARIANTS MapIsFirstWins StandardAgrees LinkNamesKey KeysNormalizedInc
PROPERTY Monotone
CONSTRAINT IncEmit
CHECK_DEADLOCK FALSE
CONSTANTS
  Family = "none"
  MaxItems = %d
  MaxDefs = %d
  MaxUses = %d
  File = "none"
  MaxReextract = %d
  MemoDeviation = FALSE
  IncStyles = %s
  IncContainers = %s
  IncLabelSet = "%s"
""" % (items, defs, uses, reextract, styles, containers, labels)


def regen(base, rp):
    return ["refs", "regen", base, rp]


def run(ctx):
    ctx.build_harness()
    quick = ctx.tier == "quick"
    jobs = [dict(module="Refs", cfg_text=cfg(f, 3 if quick else 4, 2 if quick else 3, 2), name="Refs_" + f, workers=4, timeout=3000)
            for f in FAMILIES]
    # three definitions (a duplicate between two others, at every combination of depths) need their own small label set
    jobs.append(dict(module="Refs", cfg_text=cfg("case3", 4, 3, 1 if quick else 2), name="Refs_case3", workers=4, timeout=3000))
    # the incremental machine (RefsInc.tla): every order of Extract / Rewrite calls over two documents and one InlineParser value
    inc = [dict(module="RefsInc", cfg_text=inc_cfg(3, 2, 2, 1, "{1, 3}", "{0, 1}", "aAb"), name="RefsInc_3", workers=4, timeout=3000),
           dict(module="RefsInc", cfg_text=inc_cfg(4, 2, 2, 0, "{3}" if quick else "{1, 3}", "{0}", "aA"), name="RefsInc_4", workers=4, timeout=3000)]
    if not quick:
        inc.append(dict(module="RefsInc", cfg_text=inc_cfg(3, 2, 2, 1, "{1, 2, 3}", "{0, 1}", "aAb"), name="RefsInc_3full", workers=4, timeout=3000))
    rs = ctx.tlc_many(jobs + inc, parallel=4)
    incrs, rs = rs[len(jobs):], rs[:len(jobs)]
    rc, res, _ = ctx.harness(["refs", "model"] + [r["out"] for r in rs], timeout=3000)
    ctx.absorb(res)
    rc, res, _ = ctx.harness(["refs", "inc"] + [r["out"] for r in incrs], timeout=3000)
    ctx.absorb(res)
    ctx.extra["incremental_behaviours_replayed"] = res["evaluations"]
    modelCands, ctx.candidates = list(ctx.candidates), []
    base = ctx.scratch + "/refs.ndjson"
    nsh = 16
    rc, res, _ = ctx.harness(["refs", "gen", base], timeout=3000, env={"VERIF_SHARDS": str(nsh)})
    ctx.absorb(res)
    ctx.traces -= res["traces"]
    ctx.validate_traces("Refs", base, nsh, CONSTS, "C12", head=HEAD, workers=1, parallel=16)
    traceCands = list(ctx.candidates)
    confirmedTrace = ctx.keep_confirmed_batch(traceCands, tracefam.batch_confirmer(ctx, "Refs", regen, CONSTS, HEAD))
    conf = confirm_with(ctx, "refs")
    ctx.candidates = ctx.keep_confirmed(modelCands, conf) + confirmedTrace
    ctx.exhaustive = True
    ctx.rule = ("model: per label family (case, whitespace, sharp-s, dotted-I, NBSP, escaped brackets) every document of <= 3/4 items with <= 2/3 definitions "
                "(plain / in quote / in list item / two depths of one root block) and <= 2 uses x 3 reference styles, plus three definitions over {a, A, b}; "
                "incremental machine (RefsInc.tla): every order of Extract / Rewrite calls on two documents of together <= 3 items (labels a A b, matcher nil / own map / "
                "the other document's map, one repeated Extract) and <= 4 items (labels a A) through ONE InlineParser value; closure clause: label-rich templates (24 labels squared x 5 styles x "
                "containers), damaged spec examples with definitions, seeded mixed sources; non-trivial = some use resolves (model) / document has a "
                "definition and a reference node (closure); distinct by document bytes")
    ctx.assumptions += ["case folding is checked against an explicit table (ss, SZ, CAPSZ, IDOT, ASCII); keys with characters outside the table are not judged for the 'normalized' sub-clause",
                        "strings are interned to integers by the harness for the closure traces"]
    ctx.finish()


def replay(ctx, path):
    import json
    rec = json.load(open(path))["record"]
    if rec.get("kind") in ("refs-model", "refs-inc"):
        replay_with(ctx, "refs", path)
    else:
        tracefam.replay(ctx, "Refs", regen, CONSTS, path, HEAD)


def selftest(ctx):
    import os
    r = ctx.tlc("Refs", cfg("case", 2, 1, 1), name="Refs_self")
    text = open(r["out"]).read().replace('\\"res\\":[0,1]', '\\"res\\":[0,0]', 3)
    p = os.path.join(ctx.scratch, "corrupt.tlcout")
    open(p, "w").write(text)
    rc, res, _ = ctx.harness(["refs", "model", p])
    ok = rc == 1 and res["ncandidates"] >= 1
    print("selftest C12: harness flagged %d corrupted expectations -> %s" % (res["ncandidates"], "OK" if ok else "FAILED"))
    sys.exit(0 if ok else 2)
