"""Inline.tla: the exact inline oracle (DESIGN 5.0b) - generator + model invariants + replay into the real parser."""
from checks.common import confirm_with

ALPHABETS = ["brackets", "delims", "angle", "decl", "entity", "titles", "ticks"]


def cfg(alpha, maxlen):
    return """INIT Init
NEXT Next
INVARIANT ModelSound
CONSTRAINT Emit
CHECK_DEADLOCK FALSE
CONSTANTS
  MaxLen = %d
  AlphabetName = "%s"
""" % (maxlen, alpha)


def run_oracle(ctx):
    ctx.build_harness()
    n = 4 if ctx.tier == "quick" else 6
    jobs = [dict(module="Inline", cfg_text=cfg(a, n), name="Inline_" + a, workers=8, timeout=6000) for a in ALPHABETS]
    rs = ctx.tlc_many(jobs, parallel=2)
    rc, res, _ = ctx.harness(["inline"] + [r["out"] for r in rs], timeout=6000)
    ctx.absorb(res)
    conf = confirm_with(ctx, "inline")
    ctx.candidates = ctx.keep_confirmed(ctx.candidates, lambda c: (c["record"].get("kind") != "inline") or conf(c))
