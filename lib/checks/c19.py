"""C19 - parsing and rendering share no mutable state.

Conc.tla: callers as sequences of gates (user callbacks: Read / Write / FilterTag / Pre / Post, and the verif-tag
yield points inside the parser / walker / extractor loops), a scheduler that resumes one suspended caller at a
time, private state per caller and a library-level cell that the design never writes. TLC checks NonInterference,
FrameCondition, Frame and Terminates on every interleaving (Full: 2 x 6 and 3 x 3 gates; Bounded: <= 2 preemptions
with 24 / 8 gates) and emits every complete schedule. Direction A: each schedule is replayed on tuples of real
operations (streaming / in-memory parses of distinct inputs; Render under several configurations with a shared or
an own renderer value, AppendBlock, Format, Walk on one shared tree) as gated goroutines - what user code is handed
is inspected only after the caller has been resumed. Direction B: the recorded history of every replay (caller,
observation) plus digests of everything shared is validated by TLC against the solo runs (TraceVerdict).
Data-race freedom as such cannot be seen by TLC: the same harness is built with -race and run free-running
(no gates, no hook); a race report or a result that differs from the sequential one fails the check.
"""
import os
import re
import subprocess
import sys

import vlib
from checks import tracefam

HEAD = "INIT TraceInit\nNEXT TraceNext\nINVARIANT Accepted\n"
CONSTS = {"NCallers": "1", "Gates": "1", "MaxSwitches": "0", "Hoisted": "FALSE"}


def cfg(n, g, k, hoisted="FALSE", emit=True):
    return """SPECIFICATION Spec
INVARIANTS NonInterference FrameCondition
PROPERTIES Frame Terminates
%sCHECK_DEADLOCK FALSE
CONSTANTS
  NCallers = %d
  Gates = %d
  MaxSwitches = %d
  Hoisted = %s
  File = "none"
""" % ("CONSTRAINT Emit\n" if emit else "", n, g, k, hoisted)


def plan(tier):
    if tier == "quick":
        return [("full2", 2, 5, 99), ("full3", 3, 2, 99), ("bounded2", 2, 12, 2)]
    return [("full2", 2, 6, 99), ("full3", 3, 3, 99), ("bounded2", 2, 24, 2), ("bounded3", 3, 8, 2)]


def regen(base, rp):
    return ["conc", "regen", base, rp]


def race_run(ctx, seconds):
    """Free-running goroutines under the race detector. Returns (result dict, list of candidate dicts)."""
    binp = ctx.build_harness(race=True)
    env = dict(vlib.GOENV)
    env.update({"VERIF_SEED": str(ctx.seed), "VERIF_TIER": ctx.tier, "GORACE": "halt_on_error=0 exitcode=0"})
    try:
        p = subprocess.run([binp, "conc", "race", str(seconds)], capture_output=True, text=True, env=env, cwd=ctx.scratch, timeout=seconds + 600)
    except subprocess.TimeoutExpired:
        raise vlib.Infra("race run timed out")
    res = None
    for line in reversed(p.stdout.strip().split("\n")):
        if line.startswith("{"):
            import json
            res = json.loads(line)
            break
    if res is None:
        raise vlib.Infra("race run produced no result:\n" + p.stderr[-3000:])
    reports = p.stderr.split("WARNING: DATA RACE")[1:]
    cands = []
    seen = set()
    for rep in reports:
        frames = re.findall(r"^\s+(zombiezen\.com/go/commonmark[^\s(]*)\(", rep, re.M)
        key = tuple(frames[:2])
        if key in seen:
            continue
        seen.add(key)
        cands.append({"sig": {"class": "data-race", "frames": list(key)}, "record": {"kind": "conc-race"},
                      "what": "race detector: DATA RACE" + rep[:1500]})
    return res, cands


def run(ctx):
    ctx.build_harness()
    quick = ctx.tier == "quick"
    jobs = [dict(module="Conc", cfg_text=cfg(n, g, k), name="Conc_" + name, workers=4, timeout=3000) for name, n, g, k in plan(ctx.tier)]
    rs = ctx.tlc_many(jobs, parallel=4)
    nsh = 16
    base = ctx.scratch + "/conc.ndjson"
    rc, res, _ = ctx.harness(["conc", "model"] + [r["out"] for r in rs] + [base], timeout=6000, env={"VERIF_SHARDS": str(nsh)})
    ctx.absorb(res)
    ctx.traces -= res["traces"]
    direct = list(ctx.candidates)          # panics / hangs seen by the harness itself
    ctx.candidates = []
    ctx.validate_traces("Conc", base, nsh, CONSTS, "C19", head=HEAD, workers=1, parallel=16, timeout=3000)
    trace_cands = list(ctx.candidates)
    confirmed = ctx.keep_confirmed_batch(trace_cands, tracefam.batch_confirmer(ctx, "Conc", regen, CONSTS, HEAD))
    # free-running race stress
    rres, rcands = race_run(ctx, 6 if quick else 90)
    ctx.absorb(rres)
    rcands += [c for c in ctx.candidates]
    ctx.candidates = []
    if rcands:
        # confirm: a second, independent run must report a race / difference again
        rres2, rcands2 = race_run(ctx, 10 if quick else 60)
        if not rcands2 and not rres2.get("candidates"):
            ctx.extra["race_unreproduced"] = len(rcands)
            rcands = []
    ctx.candidates = direct + confirmed + rcands
    ctx.exhaustive = True
    ctx.rule = ("schedules: every interleaving of 2 callers x 5/6 gates and 3 x 2/3 gates, every schedule with <= 2 preemptions of 2 x 12/24 (and 3 x 8) gates, "
                "each mapped proportionally or with seeded cut points onto the real gate sequence of operation tuples (parse-stream / parse-mem on distinct "
                "inputs, render with shared / own renderer and filter, append, format, walk on shared trees, mixed); non-trivial = >= 3 context switches; "
                "distinct by (operations, real steps); race stress: free-running goroutines for 6/90 s under the race detector")
    ctx.assumptions += ["data-race freedom is sensed by the Go race detector on the free-running harness (TLC cannot see memory accesses); schedules, "
                        "solo equivalence and immutability of shared data are decided by Conc.tla",
                        "gated execution runs one caller at a time, so it exposes state shared across gates (yield points, callbacks), not within one segment"]
    ctx.finish()


def replay(ctx, path):
    import json
    rec = json.load(open(path))["record"]
    if rec.get("kind") == "conc-race":
        ctx.build_harness()
        rres, rcands = race_run(ctx, 30)
        if rcands or rres.get("candidates"):
            print("VIOLATION property=C19 replay=%s" % path)
            sys.exit(1)
        print("not reproduced", file=sys.stderr)
        sys.exit(0)
    tracefam.replay(ctx, "Conc", regen, CONSTS, path, HEAD)


def selftest(ctx):
    # the schedule space exposes a hoisted scratch buffer: TLC must find the violating interleaving in the model
    r = ctx.tlc("Conc", cfg(2, 3, 99, hoisted="TRUE", emit=False), name="Conc_hoisted", expect_clean=False)
    ok = any(v["name"] == "NonInterference" for v in r["violations"])
    print("selftest C19: Hoisted deviation -> NonInterference %s" % ("violated (OK)" if ok else "NOT violated (FAILED)"))
    sys.exit(0 if ok else 2)
