from checks import metafam


def run(ctx):
    metafam.run(ctx, "c16")


def replay(ctx, path):
    metafam.replay(ctx, path)


def selftest(ctx):
    def corrupt(t, i):
        if i % 25 == 3 and len(t["b"]) >= 1:
            t["b"][0][0] = 2             # the block re-parsed alone yields two root blocks
            t["a"][0][0] = 9
            return True
        if i % 25 == 9 and len(t["b"]) >= 1:
            t["b"][-1][1] += 100000      # tree differs when parsed alone
            t["a"][-1][0] = 9
            return True
        return False
    metafam.selftest(ctx, "c16", corrupt)
