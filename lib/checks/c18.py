"""C18 - Walk visits every node once, in order, honouring pruning and abort.

Walk.tla: the explicit-stack machine of walk.go with the callbacks as environment; TLC enumerates all
ordered trees <= N nodes x block/inline typings x all prune sets x all abort points x nil Pre/Post x
virtual root, checks CallsAreRef / CallsPrefix / StackDiscipline / OncePerNode and termination, and emits
every behaviour. Direction A: each behaviour is replayed on a virtual tree presented through
WalkOptions.ChildCount/Child over real Node identities. Direction B: seeded policies on real parsed trees
with the default accessors, callback traces validated by TLC against Ref (the recursive requirement).
"""
import sys

from checks import tracefam
from checks.common import confirm_with, replay_with

CONSTS = {"MaxNodes": "1"}
HEAD = "INIT TraceInit\nNEXT TraceNext\nINVARIANT Accepted\n"


def cfg(n):
    return """SPECIFICATION Spec
INVARIANTS CallsAreRef CallsPrefix StackDiscipline OncePerNode
PROPERTY Terminates
CONSTRAINT Emit
CHECK_DEADLOCK FALSE
CONSTANTS
  MaxNodes = %d
  File = "none"
""" % n


def regen(base, rp):
    return ["walk", "regen", base, rp]


def run(ctx):
    ctx.build_harness()
    quick = ctx.tier == "quick"
    r = ctx.tlc("Walk", cfg(4 if quick else 5), name="Walk_mc", timeout=3000)
    rc, res, _ = ctx.harness(["walk", "model", r["out"]], timeout=3000)
    ctx.absorb(res)
    modelCands = list(ctx.candidates)
    ctx.candidates = []
    # direction B
    base = ctx.scratch + "/walk.ndjson"
    nsh = 16
    rc, res, _ = ctx.harness(["walk", "gen", base], timeout=3000, env={"VERIF_SHARDS": str(nsh)})
    ctx.absorb(res)
    tr = ctx.traces
    ctx.traces -= res["traces"]
    ctx.validate_traces("Walk", base, nsh, CONSTS, "C18", head=HEAD, workers=1, parallel=16)
    # confirm trace candidates in batch, model candidates individually
    traceCands = list(ctx.candidates)
    confirmedTrace = ctx.keep_confirmed_batch(traceCands, tracefam.batch_confirmer(ctx, "Walk", regen, CONSTS, HEAD))
    conf = confirm_with(ctx, "walk")
    ctx.candidates = ctx.keep_confirmed(modelCands, conf) + confirmedTrace
    ctx.exhaustive = True
    ctx.rule = ("model: all ordered trees <= 4 (quick) / 5 (thorough) nodes x typings x prune sets x abort points x nil callbacks x the zero Node as root or as the root's first child (custom child functions), each "
                "replayed on the real Walk through custom child functions; real trees: root blocks of spec examples and seeded mixed inputs with 2 seeded "
                "policies each, default accessors; non-trivial = >= 3 (model) / >= 4 (real) nodes; distinct by (tree, policy)")
    ctx.assumptions += ["callbacks are pure functions of the node (prune set / abort point), as the property's policies are"]
    ctx.finish()


def replay(ctx, path):
    import json
    rec = json.load(open(path))["record"]
    if rec.get("kind") == "walk-model":
        replay_with(ctx, "walk", path)
    else:
        tracefam.replay(ctx, "Walk", regen, CONSTS, path, HEAD)


def selftest(ctx):
    import os
    r = ctx.tlc("Walk", cfg(3), name="Walk_self")
    text = open(r["out"]).read().replace('[2,2,1,0,', '[2,2,1,1,', 4)
    p = os.path.join(ctx.scratch, "corrupt.tlcout")
    open(p, "w").write(text)
    rc, res, _ = ctx.harness(["walk", "model", p])
    ok = rc == 1 and res["ncandidates"] >= 1
    print("selftest C18: harness flagged %d corrupted expectations -> %s" % (res["ncandidates"], "OK" if ok else "FAILED"))
    sys.exit(0 if ok else 2)
