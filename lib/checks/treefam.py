"""Shared driver for the tree-shaped properties C02, C03, C05, C13 (Tree.tla).

Model level: the generator configs of Tree.tla (GenInit/GenNext) enumerate every event stream the LOCAL
enabling conditions allow and check the GLOBAL facts (no byte claimed twice, stack nested, consumer
preconditions).
Direction B: every root block of every explored input (both parse routes) is recorded as an event
stream by the harness's own traversal and validated by TLC, one event per step, with the invariant
family of the property.
"""
import json
import os
import sys

import vlib

FAMILY = {"C02": "OK02", "C03": "OK03", "C05": "OK05", "C13": "OK13"}
BADVAR = {"C02": "bad02", "C03": "bad03", "C05": "bad05", "C13": "bad13"}

ALLKINDS = "{1,2,3,4,5,6,7,8,9,10,11,12,101,102,103,104,105,106,107,108,109,110,111,112,113,114,115,116,117}"


def gen_cfg(invs, maxnodes, srclen, kinds):
    return """INIT GenInit
NEXT GenNext
INVARIANTS %s
CHECK_DEADLOCK FALSE
CONSTANTS
  File = "none"
  MaxNodes = %d
  SrcLen = %d
  GenKinds = %s
""" % (invs, maxnodes, srclen, kinds)


def head(prop):
    return "INIT TraceInit\nNEXT TraceNext\nINVARIANT %s\n" % FAMILY[prop]


CONSTS = {"MaxNodes": "0", "SrcLen": "0", "GenKinds": "{}"}


def validate(ctx, base, nsh):
    prop = ctx.prop
    return ctx.validate_traces("Tree", base, nsh, CONSTS, prop, head=head(prop),
                               verdict_re=BADVAR[prop] + r' = "([^"]*)"',
                               states_of=lambda t: len(t["evs"]) + 3, workers=2, parallel=8)


def run(ctx, model_jobs, rule_extra=""):
    ctx.build_harness()
    quick = ctx.tier == "quick"
    ctx.tlc_many(model_jobs, parallel=2)
    base = ctx.scratch + "/tree.ndjson"
    nsh = 16
    rc, res, _ = ctx.harness(["tree", "gen", base], timeout=3000, env={"VERIF_SHARDS": str(nsh)})
    ctx.absorb(res)
    ctx.traces = 0
    validate(ctx, base, nsh)
    ctx.rule = ("root blocks of: the 652 spec examples, all fragment pairs (plain and wrapped in quote/list containers), seeded mixed sources "
                "(damaged examples, fragment products, hostile bytes), every string <= 3/4 over an 18-symbol inline alphabet and <= 5/6 over a 9-symbol "
                "block alphabet (thorough adds fragment triples and every prefix of every example); every 4th input also through the streaming route; "
                "non-trivial = tree has a container block or a non-text inline; distinct by tree skeleton (kinds and nesting)" + rule_extra)
    ctx.assumptions += ["the event stream is produced by the harness's own recursive traversal over Node.ChildCount/Child and the public accessors",
                        "root blocks with Source longer than 1500 bytes are not shipped to TLC"]

    def confirm_batch(cands):
        rp = os.path.join(ctx.scratch, "confirm.replay")
        with open(rp, "w") as f:
            for c in cands:
                f.write(json.dumps(c["record"]) + "\n")
        cbase = ctx.scratch + "/confirm.ndjson"
        rc2, res2, _ = ctx.harness(["tree", "regen", cbase, rp], env={"VERIF_SHARDS": "1"})
        saved, ctx.candidates = ctx.candidates, []
        tr = ctx.traces
        if os.path.exists(cbase + ".0") and os.path.getsize(cbase + ".0") > 0:
            validate(ctx, cbase, 1)
        again = {json.dumps(c["record"], sort_keys=True) for c in ctx.candidates}
        panics = {json.dumps(c["record"], sort_keys=True) for c in (res2.get("candidates") or [])}
        ctx.candidates = saved
        ctx.traces = tr
        return [json.dumps(c["record"], sort_keys=True) in again or json.dumps(c["record"], sort_keys=True) in panics for c in cands]

    ctx.finish(confirm_batch=confirm_batch)


def replay(ctx, path):
    ctx.build_harness()
    rec = json.load(open(path))["record"]
    rp = os.path.join(ctx.scratch, "one.replay")
    open(rp, "w").write(json.dumps(rec) + "\n")
    base = ctx.scratch + "/one.ndjson"
    rc, res, _ = ctx.harness(["tree", "regen", base, rp], env={"VERIF_SHARDS": "1"})
    if res.get("candidates"):
        print("VIOLATION property=%s replay=%s" % (ctx.prop, path))
        sys.exit(1)
    validate(ctx, base, 1)
    if ctx.candidates:
        print("VIOLATION property=%s replay=%s" % (ctx.prop, path))
        print(ctx.candidates[0]["what"], file=sys.stderr)
        sys.exit(1)
    print("not reproduced", file=sys.stderr)
    sys.exit(0)


def selftest(ctx, corrupt):
    """corrupt(trace_dict, i) -> bool (True if it corrupted the trace)."""
    ctx.build_harness()
    base = ctx.scratch + "/self.ndjson"
    ctx.harness(["tree", "gen", base], env={"VERIF_SHARDS": "64"})
    lines = open(base + ".0").read().split("\n")[:600]
    rl = open(base + ".replay.0").read().split("\n")[:600]
    bad = 0
    out = []
    for i, ln in enumerate(lines):
        t = json.loads(ln)
        if corrupt(t, i):
            bad += 1
        out.append(json.dumps(t))
    open(base + ".0", "w").write("\n".join(out) + "\n")
    open(base + ".replay.0", "w").write("\n".join(rl) + "\n")
    before = len(ctx.candidates)
    validate(ctx, base, 1)
    got = len(ctx.candidates) - before
    ok = got >= bad > 0
    print("selftest %s: corrupted %d traces, TLC rejected %d -> %s" % (ctx.prop, bad, got, "OK" if ok else "FAILED"))
    sys.exit(0 if ok else 2)
