"""C17 - tag filtering only escapes '<' and leaves no filtered element openable.

Filter.tla (on top of Html.tla's WHATWG tokenizer subset): abstract requirement (i) OnlyLt, (ii) a predicate
that rejects nothing changes nothing, (iii) NoRejectedStart on the tokenised OUTPUT; plus the
implementation-shaped scanner FR as a second definition. TLC checks FR against the requirement for every
raw string of <= N tokens over a 15-token alphabet, and <= N+1 tokens of a 9-token alphabet after one of five first lines that end inside a comment, bogus comment or tag (the scanner state carries across lines) (ScannerSound, ScannerIdentity) and emits the vectors;
each is rendered by the real renderer as an HTML block and as inline raw HTML with and without each
predicate (direction A), and the recorded outputs - of these vectors and of arbitrary '<'-rich inputs - are
judged by TLC with the abstract requirement only (direction B).
"""
import sys

from checks import tracefam

HEAD = "INIT FInit\nNEXT FNext\nINVARIANT Accepted\n"
CONSTS = {"MaxToks": "0", "TokSet": "{}", "PerLineState": "FALSE", "FirstLines": "{}"}
TOKS = '{"<", ">", "!", "-", "/", "?", "[CDATA[", "]]", "script", "ScRiPt", "b", "3", " ", "DQ", "NL"}'
LINETOKS = '{"<!--", ">", "<script", "3", "-", "DQ", "!", "<", "NL"}'
FIRSTLINES = '{"P?", "Pb", "Pcdata", "Pcomment", "Pattr"}'


def cfg(n, emit, perline="FALSE", toks=None, first="{}"):
    return """INIT GenInit
NEXT GenNext
INVARIANTS ScannerSound ScannerIdentity
%sCHECK_DEADLOCK FALSE
CONSTANTS
  MaxToks = %d
  TokSet = %s
  PerLineState = %s
  FirstLines = %s
  File = "none"
""" % ("CONSTRAINT EmitRaw\n" if emit else "", n, toks or TOKS, perline, first)


def regen(base, rp):
    return ["filter", "regen", base, rp]


def run(ctx):
    ctx.build_harness()
    quick = ctx.tier == "quick"
    r = ctx.tlc("Filter", cfg(3 if quick else 4, True), name="Filter_vectors", timeout=3000)
    jobs = [dict(module="Filter", cfg_text=cfg(4 if quick else 6, False), name="Filter_sound", workers=8, timeout=6000),
            # two-line raw HTML: a first line that ends inside a comment / bogus comment / tag, then <= 5/6 more tokens
            dict(module="Filter", cfg_text=cfg(5 if quick else 7, False, toks=LINETOKS, first=FIRSTLINES), name="Filter_lines", workers=8, timeout=6000)]
    ctx.tlc_many(jobs, parallel=2)
    r2 = ctx.tlc("Filter", cfg(4 if quick else 5, True, toks=LINETOKS, first=FIRSTLINES), name="Filter_line_vectors", timeout=3000)

    def gen(base):
        return ["filter", "gen", base, r["out"], r2["out"]]
    ctx.rule = ("model vectors: every raw string of <= 3/4 tokens over {<, >, !, -, /, ?, [CDATA[, ]], script, ScRiPt, b, 3, space, \"} as HTML block and as "
                "inline raw HTML; spec examples with '<'; seeded piece products (comments, CDATA, declarations, processing instructions, raw-text elements, "
                "stray '<'); seeded mixed sources; x predicates {GFM, {script}, {b,script}, never, always}; outputs de-duplicated; non-trivial = the filter changed "
                "the output; distinct by (predicate, unfiltered output)")
    ctx.assumptions += ["tokenization per the WHATWG data-state rules as transcribed in Html.tla (RCDATA/RAWTEXT content models of an already opened element are not modelled: "
                        "the property is about which start tags can be opened)"]
    tracefam.run(ctx, "Filter", gen, regen, CONSTS, nsh=16, workers=1, parallel=16, head=HEAD)


def replay(ctx, path):
    tracefam.replay(ctx, "Filter", regen, CONSTS, path, HEAD)


def selftest(ctx):
    import json
    ctx.build_harness()
    # the model exhibits the finding F-C17-per-line-filter-state: with the PerLineState deviation ScannerSound fails
    rdev = ctx.tlc("Filter", cfg(6, False, perline="TRUE", toks=LINETOKS, first=FIRSTLINES), name="Filter_perline", expect_clean=False)
    if not any(v["name"] == "ScannerSound" for v in rdev["violations"]):
        print("selftest C17: PerLineState deviation did not violate ScannerSound -> FAILED")
        sys.exit(2)
    base = ctx.scratch + "/self.ndjson"
    ctx.harness(["filter", "gen", base], env={"VERIF_SHARDS": "64"})
    lines = open(base + ".0").read().split("\n")[:300]
    rl = open(base + ".replay.0").read().split("\n")[:300]
    bad = 0
    out = []
    for i, ln in enumerate(lines):
        t = json.loads(ln)
        f = bytes(t["filt"])
        if t["p"] in (1, 4, 5) and i % 20 == 3:
            t["plain"] = list(b"<p>x <script>alert(1)</script></p>"); t["filt"] = list(t["plain"]); bad += 1   # the filter let a rejected element through
        elif i % 40 == 7 and len(f) > 3:
            t["filt"] = list(f[:-2] + b"x" + f[-2:]); bad += 1                                              # more than '<' changed
        out.append(json.dumps(t))
    open(base + ".0", "w").write("\n".join(out) + "\n")
    open(base + ".replay.0", "w").write("\n".join(rl) + "\n")
    ctx.validate_traces("Filter", base, 1, CONSTS, "C17", workers=2, head=HEAD)
    ok = len(ctx.candidates) >= bad > 0
    print("selftest C17: corrupted %d records, TLC rejected %d -> %s" % (bad, len(ctx.candidates), "OK" if ok else "FAILED"))
    sys.exit(0 if ok else 2)
