"""Shared driver for the relational properties C09, C14, C16 (Meta.tla)."""
from checks import tracefam

CONSTS = {}


def gen(fam):
    return lambda base: ["meta", "gen", fam, base]


def regen(base, rp):
    return ["meta", "regen", base, rp]


# the property as a theorem of the executable models, checked by TLC on every generated document (a violation there is a defect of
# the specification - or of my reading of the property - and stops the check as infrastructure trouble, never as a verdict)
LEMMAS = {"c09": ("QuoteLemma ListLemma", "QuoteHtmlLemma ListHtmlLemma"),
          "c14": ("FinalNewlineLemma", "EolHtmlLemma FinalNewlineHtmlLemma"),
          "c16": ("ReparseLemma", "ReparseHtmlLemma")}


def run_lemmas(ctx, fam):
    from checks import blocksfam, fullfam
    blk, full = LEMMAS[fam]
    jobs = [blocksfam.lemma_job(fam + "_lemmas", blk, ctx.tier)]
    sets = ["fullA", "fullB", "fullC", "fullE"] + (["fullD"] if ctx.tier == "thorough" and fam != "c09" else [])
    for s in sets:
        jobs.append(dict(module="Full", cfg_text=fullfam.cfg(s, 2).replace("CONSTRAINT Emit\n", "INVARIANTS %s\n" % full),
                         name="Full_%s_lemmas_%s" % (fam, s), workers=8, timeout=6000))
    ctx.tlc_many(jobs, parallel=2)


def run(ctx, fam):
    run_lemmas(ctx, fam)
    tracefam.run(ctx, "Meta", gen(fam), regen, CONSTS, nsh=16, workers=1, parallel=16)


def replay(ctx, path):
    tracefam.replay(ctx, "Meta", regen, CONSTS, path)


def selftest(ctx, fam, corrupt):
    import json, sys
    ctx.build_harness()
    base = ctx.scratch + "/self.ndjson"
    ctx.harness(gen(fam)(base), env={"VERIF_SHARDS": "64"})
    lines = open(base + ".0").read().split("\n")[:400]
    rl = open(base + ".replay.0").read().split("\n")[:400]
    bad = 0
    out = []
    for i, ln in enumerate(lines):
        t = json.loads(ln)
        if corrupt(t, i):
            bad += 1
        out.append(json.dumps(t))
    open(base + ".0", "w").write("\n".join(out) + "\n")
    open(base + ".replay.0", "w").write("\n".join(rl) + "\n")
    before = len(ctx.candidates)
    ctx.validate_traces("Meta", base, 1, CONSTS, ctx.prop, workers=2)
    got = len(ctx.candidates) - before
    ok = got >= bad > 0
    print("selftest %s: corrupted %d traces, TLC rejected %d -> %s" % (ctx.prop, bad, got, "OK" if ok else "FAILED"))
    sys.exit(0 if ok else 2)
