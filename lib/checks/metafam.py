"""Shared driver for the relational properties C09, C14, C16 (Meta.tla)."""
from checks import tracefam

CONSTS = {}


def gen(fam):
    return lambda base: ["meta", "gen", fam, base]


def regen(base, rp):
    return ["meta", "regen", base, rp]


def run(ctx, fam):
    tracefam.run(ctx, "Meta", gen(fam), regen, CONSTS, nsh=16, workers=1, parallel=16)


def replay(ctx, path):
    tracefam.replay(ctx, "Meta", regen, CONSTS, path)


def selftest(ctx, fam, corrupt):
    import json, sys
    ctx.build_harness()
    base = ctx.scratch + "/self.ndjson"
    ctx.harness(gen(fam)(base), env={"VERIF_SHARDS": "64"})
    lines = open(base + ".0").read().split("\n")[:400]
    rl = open(base + ".replay.0").read().split("\n")[:400]
    bad = 0
    out = []
    for i, ln in enumerate(lines):
        t = json.loads(ln)
        if corrupt(t, i):
            bad += 1
        out.append(json.dumps(t))
    open(base + ".0", "w").write("\n".join(out) + "\n")
    open(base + ".replay.0", "w").write("\n".join(rl) + "\n")
    before = len(ctx.candidates)
    ctx.validate_traces("Meta", base, 1, CONSTS, ctx.prop, workers=2)
    got = len(ctx.candidates) - before
    ok = got >= bad > 0
    print("selftest %s: corrupted %d traces, TLC rejected %d -> %s" % (ctx.prop, bad, got, "OK" if ok else "FAILED"))
    sys.exit(0 if ok else 2)
