"""Helpers shared by the per-property check modules."""
import json
import os
import sys


def confirm_with(ctx, command, extra_args=()):
    """Returns a confirm(candidate) function that re-executes the case in a fresh harness process."""
    counter = [0]

    def confirm(c):
        counter[0] += 1
        path = os.path.join(ctx.scratch, "confirm-%d.json" % counter[0])
        json.dump({"record": c["record"]}, open(path, "w"))
        rc, res, _ = ctx.harness([command] + list(extra_args) + ["--replay", path], check=False)
        return rc == 1
    return confirm


def replay_with(ctx, command, path, extra_args=()):
    rc, res, p = ctx.harness([command] + list(extra_args) + ["--replay", path], check=False)
    if rc == 1:
        print("VIOLATION property=%s replay=%s" % (ctx.prop, path))
        if res and res.get("candidates"):
            print(res["candidates"][0]["what"], file=sys.stderr)
        sys.exit(1)
    if rc != 0:
        print(p.stderr[-2000:], file=sys.stderr)
        sys.exit(2)
    print("not reproduced", file=sys.stderr)
    sys.exit(0)
