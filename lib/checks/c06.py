"""C06 - canonical documents render to exactly the HTML they denote.

Three TLA+ oracles, all bound by direction A (TLC-generated behaviours replayed into the real code):
  Doc.tla    abstract documents (generator machine) -> canonical serialization under explicit choice points
             and the denoted HTML; the real Parse + AppendBlock per root must give exactly that HTML.
  Blocks.tla the block phase as an executable model: exact block skeleton (kinds, spans, levels, numbers,
             tightness, literal code content) of EVERY document over line-shape alphabets, canonical or not.
  Inline.tla the inline phase as an executable model: exact nested (kind, span) structure of EVERY string over
             seven 10/11-symbol alphabets.
"""
import sys

import vlib
from checks import blocksfam, fullfam, inlinefam
from checks.common import confirm_with, replay_with


def doc_cfg(nodes, depth, leafset, choiceset):
    return """INIT Init
NEXT Next
INVARIANT DenoteShape
CONSTRAINT Emit
CHECK_DEADLOCK FALSE
CONSTANTS
  MaxNodes = %d
  MaxDepth = %d
  LeafSet = "%s"
  ChoiceSet = "%s"
""" % (nodes, depth, leafset, choiceset)


def doc_plan(tier):
    if tier == "quick":
        return [(5, 3, "structure", "default"), (3, 2, "inline", "default"), (3, 2, "code", "default"), (3, 2, "structure", "single"),
                (2, 2, "inline", "single")]
    return [(6, 3, "structure", "default"), (4, 3, "inline", "default"), (4, 3, "code", "default"), (4, 3, "structure", "single"),
            (3, 2, "inline", "single"), (3, 2, "code", "single"), (3, 2, "structure", "pairs"), (3, 2, "inline", "pairs")]


def run_doc(ctx, command):
    jobs = [dict(module="Doc", cfg_text=doc_cfg(*p), name="Doc_%s_%s_%d" % (p[2], p[3], p[0]), workers=8, timeout=6000) for p in doc_plan(ctx.tier)]
    rs = ctx.tlc_many(jobs, parallel=2)
    rc, res, _ = ctx.harness(["doc", command] + [r["out"] for r in rs], timeout=6000)
    ctx.absorb(res)
    conf = confirm_with(ctx, "doc")
    ctx.candidates = ctx.keep_confirmed(ctx.candidates, lambda c: (not str(c["record"].get("kind", "")).startswith("doc-")) or conf(c))


def run_emphasis(ctx):
    """Deep delimiter interplay is out of reach of Inline.tla's 10-symbol alphabets at length 4-6: the delimiter-only
    alphabet of Emphasis.tla (the special case of Inline.tla without brackets) goes to length 10/12."""
    from checks import c11
    r = ctx.tlc("Emphasis", c11.cfg(c11.A3, 10 if ctx.tier == "quick" else 12), name="Emphasis_a3", timeout=3000)
    rc, res, _ = ctx.harness(["emph", r["out"]], timeout=3000)
    ctx.absorb(res)
    mine = [c for c in ctx.candidates if c["record"].get("kind") not in ("blocks", "inline", "full") and not str(c["record"].get("kind", "")).startswith("doc-")]
    others = [c for c in ctx.candidates if c not in mine]
    ctx.candidates = others + ctx.keep_confirmed(mine, lambda c: c11.confirm(ctx, c))


def run(ctx):
    ctx.build_harness()
    run_doc(ctx, "c06")
    blocksfam.run_oracle(ctx)
    inlinefam.run_oracle(ctx)
    fullfam.validate_model(ctx)
    # the two models of "document -> HTML" check each other: Full.Model(Markdown(doc, ch)).html = Denote(doc, ch), by TLC
    xplan = ([(2, 2, "inline", "default"), (3, 2, "structure", "single"), (2, 2, "code", "single")] if ctx.tier == "quick"
             else [(2, 2, "inline", "single"), (4, 2, "structure", "single"), (3, 2, "code", "single")])
    ctx.extra["doc_and_full_models_agree_on_documents"] = fullfam.doc_crosscheck(ctx, xplan, "c06", doc_cfg)
    fullfam.run_oracle(ctx)
    fullfam.run_directed(ctx)
    run_emphasis(ctx)
    ctx.exhaustive = True
    ctx.rule = ("Doc.tla: every abstract document up to the node/depth bound over three leaf sets (structure, 20 inline snippets incl. multi-line links / code spans / "
                "tags in every container, code and HTML blocks) under the default choice vector, every single-choice variation (24) and choice pairs (thorough); "
                "Blocks.tla: every document of <= 3/4 line shapes over 50 shapes, <= 3/4 over 22 tab shapes, <= 4/6 over 12 core shapes, <= 3/4 over 34 reference-definition shapes, "
                "<= 3/4 over 41 HTML-block shapes, and the core / definition / HTML sets again with CR, CRLF and mixed line endings; "
                "Inline.tla: every string <= 4/6 over seven alphabets; Full.tla (Blocks o Inline o HTML mapping): every document of <= 2/3 lines over six shape sets that cross container prefixes (quote with and without its space, list item, indentation, tabs) with pieces of multi-line inline constructs, LF / CR / CRLF - skeleton, inline structure in source offsets and HTML per root block; FullDirected.tla: directed documents where a count matters (runs of 255-259 fence characters / backticks / delimiters / spaces / blank lines, closing fences shorter, equal, longer, ten-digit markers, seven '#', nesting 20-40 deep); non-trivial = document with >= 3 line endings / skeleton with >= 4 nodes / string with >= 1 inline node; "
                "distinct by document bytes")
    ctx.assumptions += ["Doc.tla's libraries only contain spellings whose meaning is fixed by the spec text; compositions whose meaning depends on more than the rule exercised are excluded by CanAddLeaf / CanClose / ChoiceOK",
                        "the denotation is written in the renderer's dialect (void tags without slash, &quot; / &#39;, references copied verbatim) and compared exactly per root block",
                        "Blocks.tla models link reference definitions with the named deviation DefIndentLimit (a following definition is recognised behind at most three spaces) and applies HTML start condition 7 to closing raw-text tags as both reference implementations do; Inline.tla models one line"]
    ctx.finish()


def replay(ctx, path):
    import json
    kind = json.load(open(path))["record"].get("kind", "")
    if kind not in ("blocks", "inline", "full") and not kind.startswith("doc-"):
        from checks import c11
        return c11.replay(ctx, path)
    replay_with(ctx, {"blocks": "blocks", "inline": "inline", "full": "full"}.get(kind, "doc"), path)


def selftest(ctx):
    import os
    r = ctx.tlc("Doc", doc_cfg(2, 2, "structure", "default"), name="Doc_self")
    text = open(r["out"]).read().replace('<hr>', '<hr/>', 5)
    p = os.path.join(ctx.scratch, "corrupt.tlcout")
    open(p, "w").write(text)
    rc, res, _ = ctx.harness(["doc", "c06", p])
    ok = rc == 1 and res["ncandidates"] >= 1
    print("selftest C06: harness flagged %d corrupted denotations -> %s" % (res["ncandidates"], "OK" if ok else "FAILED"))
    sys.exit(0 if ok else 2)
